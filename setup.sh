#!/bin/sh
# Offline setup: parse every TLA+ module once (fails fast if the toolchain is broken).
cd "$(dirname "$0")/spec" || exit 2
rc=0
for f in *.tla; do
  java -cp /opt/veriftools/tla/tla2tools.jar:/opt/veriftools/tla/CommunityModules-deps.jar tla2sany.SANY "$f" >/tmp/verif-sany.$$ 2>&1 || { cat /tmp/verif-sany.$$; rc=2; }
  if grep -q "Could not parse\|Semantic errors\|Fatal errors" /tmp/verif-sany.$$ ; then cat /tmp/verif-sany.$$; rc=2; fi
done
rm -f /tmp/verif-sany.$$
exit $rc
