#!/bin/sh
# tools/benign_regress.sh [ids...]: every kept behaviour-preserving change must pass every check listed for it
# (no VIOLATION, exit 0).  Works in a scratch worktree under /tmp (never in /repo); exit 1 on a false alarm.
cd /verif || exit 2
wt=/tmp/benign-regress-wt
git -C /repo worktree remove --force $wt 2>/dev/null
git -C /repo worktree add -q --detach $wt HEAD || exit 2
bad=0
for d in ${@:-$(ls seeded/benign)}; do
  [ -f seeded/benign/$d/patch.diff ] || continue
  git -C $wt checkout -q -- . && git -C $wt apply /verif/seeded/benign/$d/patch.diff || { echo "$d: patch does not apply"; bad=1; continue; }
  checks=$(/venv/bin/python -c "import json;print(' '.join(json.load(open('seeded/benign/$d/meta.json'))['checks']))")
  for c in $checks; do
    out=$(VERIF_REPO=$wt ./check $c --tier quick 2>&1); rc=$?
    n=$(printf '%s\n' "$out" | grep -c '^VIOLATION')
    if [ "$rc" -ne 0 ] || [ "$n" -gt 0 ]; then echo "$d: FALSE ALARM or failure in $c (rc=$rc, $n violations)"; bad=1; else echo "$d: $c held"; fi
  done
done
git -C /repo worktree remove --force $wt
git checkout -q -- evidence 2>/dev/null
rm -f replays/*-quick-0-*.json
exit $bad
