#!/bin/sh
# tools/try_seed.sh <tree-with-change> <check ids...>: run quick checks against another tree; evidence is restored afterwards
wt=$1; shift
cd /verif
for id in "$@"; do
  out=$(VERIF_REPO=$wt ./check $id --tier quick 2>&1 | grep -v "WARNING conda")
  rc=$?
  nv=$(printf '%s\n' "$out" | grep -c '^VIOLATION')
  first=$(printf '%s\n' "$out" | grep -m1 '^VIOLATION' | cut -c1-260)
  last=$(printf '%s\n' "$out" | tail -1 | cut -c1-200)
  echo "$id violations=$nv :: $first :: $last"
done
git checkout -q -- evidence 2>/dev/null
rm -f replays/*-quick-0-*.json
