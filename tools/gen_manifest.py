#!/usr/bin/env python3
"""Regenerates /verif/MANIFEST.json from the table below (single source)."""
import json
import os

HERE = os.path.dirname(os.path.dirname(os.path.abspath(__file__)))

BASELINE = ("cd /repo && /venv/bin/python -m pytest -ra -q -p no:cacheprovider --timeout=900 "
            "--continue-on-collection-errors")

# property -> (category, technique, text, note, design_ref)
CLAIMED = {
    "C05": ("model_checking",
            "TLA+ bit-vector semantics (FrameBV) model-checked exhaustively for widths 1..4; every transition of "
            "widths 1..5 (quick) / 1..8 (thorough) executed on the real Frame and judged by TLC; random histories "
            "up to width 256 validated by a TLC fold over the same Sem operator",
            "TLC checks the laws of the property on the specification and then judges every recorded cell/event of "
            "the real Frame against that specification; exhaustive for small widths, sampled histories for wide frames.",
            "Trusted: TLC, the JSON packing of recorded results (dumb encoding of ints to bit lists). Exception class "
            "is only required where the docstring names it.",
            "DESIGN.md §5 C05"),
}

CLAIMED["C06"] = (
    "model_checking",
    "TLA+ clauses per answer kind (Responses) over all 513 bus outcomes, kinds tied to the standard's answer column "
    "(StdTables); every response class x every outcome recorded from the real objects and judged by TLC",
    "Exhaustive: the input space (34 response classes x 513 outcomes + constructor argument types) is finite and "
    "enumerated completely; TLC decides each cell against the specification; ResponsesModel shows the clauses are "
    "satisfiable and tell the kinds apart.",
    "Trusted: TLC; my transcription of the answer column / bit positions (rows marked doc are pins); the harness's "
    "classification of a Python value into none/bool/int/str/frame/enum/exception.",
    "DESIGN.md §5 C06")

CLAIMED["C04"] = (
    "model_checking",
    "TLA+ address/instance byte codec (AddrCodec) with partition/round-trip/locality theorems checked by TLC; "
    "add_to_frame, from_frame, instance_from_frame, ==/!= and wrong-size refusal tables recorded from the real "
    "library and judged cell by cell by TLC",
    "The 16-bit space is enumerated completely (82 address objects x 2^16 frames; 2^16 decodes); 24-bit frames: all "
    "address bytes x structured (quick) / all (thorough) instance bytes x sampled opcode bytes; all ordered pairs of "
    "376 objects for equality; frame sizes 1..64 for refusal.",
    "Trusted: TLC; the harness's description of a real address object as (class, number). Low opcode byte of 24-bit "
    "frames is sampled.",
    "DESIGN.md §5 C04")

CLAIMED["C12"] = (
    "model_checking",
    "TLA+ event scheme / event information decoder and instance-map state machine (Events103) with field round "
    "trip, totality and map law checked by TLC; the complete 2^23 event space decoded by the real library and "
    "judged cell by cell by TLC; add_type/clear/decode/retry histories validated by a TLC fold",
    "No-map decoding is exhaustive over all 2^23 event frames in both tiers; device/instance frames under maps: "
    "structured subset (quick) / all 2^21 frames x 33 maps (thorough); map histories seeded random.",
    "Trusted: TLC; harness description of a decoded event (class name, fields, event data).",
    "DESIGN.md §5 C12")

CLAIMED["C01"] = (
    "model_checking",
    "complete decode tables of the real from_frame (16-bit x device types, 24-bit, event frames under maps, "
    "other lengths) and a purity history judged by TLC (CmdJudge, MODE=c01) for totality, bit identity, "
    "renderability and functional consistency",
    "Quick: all 2^16 16-bit frames x 13 device types, all 2^16 upper halves of 24-bit frames x every opcode byte any "
    "table names (+ seeded others), event headers under maps, 62 other lengths; thorough: all 256 device types and "
    "all 2^24 24-bit frames. The judged clauses are exactly those of the statement; which class a frame decodes to is "
    "C03's clause.",
    "Trusted: TLC; the harness's comparison of the decoded object's frame with the input (as_integer/len); "
    "str() text itself is not judged.",
    "DESIGN.md §5 C01")
CLAIMED["C02"] = (
    "model_checking",
    "argument spaces and legality from the TLA+ tables (CmdCodec/StdTables/Events103); every tuple constructed on "
    "the real classes, decoded again and compared; TLC judges legal => constructed and round-trips, "
    "illegal => rejected (CmdJudge, MODE=c02)",
    "All 329 command/event classes x all destinations x parameter lists incl. one-step illegal excursions; instance "
    "commands x (8 destinations x 196 instance bytes + 98 destinations x 6) in quick, the full product in thorough; "
    "two-byte specials sampled (quick) / all 65536 (thorough).",
    "Trusted: TLC; equality of decoded and original objects is observed through the library's own == / attributes / "
    "str(); the argument space description is mine (from the standard).",
    "DESIGN.md §5 C02")
CLAIMED["C03"] = (
    "model_checking",
    "command tables of IEC 62386 transcribed into TLA+ (StdTables) with an independent encoder/decoder (CmdCodec); "
    "frames emitted by the real constructors, class names of the real decode sweep and the class flags judged by "
    "TLC (CmdJudge, MODE=c03)",
    "Every implemented command x destinations x parameters compared bit-for-bit with the specification's encoder; "
    "every frame the tables name (16-bit x device type sweep, 24-bit sweep) must decode to the class of that name; "
    "sendtwice / expects answer / yes-no vs value / device type per class.",
    "Trusted: TLC and my transcription of the standard's tables (rows marked doc could only be confirmed against the "
    "library's prose and act as pins).",
    "DESIGN.md §5 C03")

CLAIMED["C07"] = (
    "model_checking",
    "PlusCal transcription of Commissioning composed with a TLA+ bus of IEC 62386-102 gear (Gear102), exhaustive "
    "over draw streams/configurations with clauses P1..P6 as invariants; real generator traces (TLC counterexample, "
    "tlc -simulate behaviours, seeded scenarios up to 70 gear) re-executed and judged by TLC (CommJudge)",
    "TLC explores every stream of random draws for 2 (quick) / 3 (thorough) gear over boundary random addresses with "
    "clash rounds, finds the withdrawn-collision counterexample, and every real trace is re-executed frame by frame "
    "on the unit model before P1..P6 are evaluated; simulated behaviours must reproduce exactly on the real code. A "
    "byte-boundary instance (random addresses 0x123456 / 0xFFFEFF / 0xFFFF80) is checked exhaustively, all its terminal "
    "states are replayed, and a model variant with a seeded slip (skip-unchanged-bytes, C07f) must violate P2. Faults: "
    "units that do not store a programmed address, and (re-addressing, all 64 addresses permitted) an addressed unit "
    "whose address memory cannot be written at all (Gear102 stuckdel).",
    "Trusted: TLC; my reading of IEC 62386-102 11.7 (RANDOMISE / PROGRAM SHORT ADDRESS act on units that are not "
    "DISABLED); bus rule 0/1/>=2 answers -> none/value/framing error. The Python unit simulator is re-executed by TLC.",
    "DESIGN.md §5 C07")
CLAIMED["C08"] = (
    "model_checking",
    "PlusCal transcription of QueryDeviceTypes/QueryGroups/SetGroups against Gear102 and against every adversarial "
    "answer stream up to length L (SeqQueries); real generator traces for conforming units and adversarial streams "
    "judged by TLC (CommJudge + QueryClauses)",
    "Exhaustive on the model for small universes; on the real code all subsets of a 9-type universe plus random "
    "lists, structured (quick) / all 2^16 (thorough) group sets, SetGroups pairs x destination kinds, every stream of "
    "length <= 4 (quick) / 6 (thorough) over the alphabet, and the longest ascending stream.",
    "Trusted: TLC; the unit model's QUERY NEXT DEVICE TYPE iteration. Value 255 inside an iteration and an empty "
    "iteration are treated as unspecified. Extension (outside the anchored files, never a verdict): GearLevels.tla "
    "models arc-power level, limits and scenes (IEC reading exhaustive; the reading that follows dali/tests/fakes.py "
    "with two named deviations that must violate LimitsOrdered / ZeroSceneIsOff); every arc of its state graph is "
    "replayed on fakes.Gear through the real command objects (32 400 arcs, drift 0).",
    "DESIGN.md §5 C08, §15.27")

CLAIMED["C09"] = (
    "model_checking",
    "TLA+ unit model of IEC 62386-102 9.10 memory access (MemUnit: DTR auto-increment, writeEnableState, last "
    "accessible location, holes, lock byte, latch snapshot) + layout/interpretation (MemMap); traces of the real "
    "read / read_all sequences re-executed frame by frame and judged by TLC (MemSeqJudge); PlusCal transcription of "
    "read_raw / read_all composed with MemUnit (SeqMemory) checked exhaustively by TLC, every terminal state "
    "replayed on the real sequences (identical command stream required)",
    "Every declared value x memory images x last-accessible-location x hole positions x silent/garbled answers x "
    "gear/device; whole-bank reads with latch on/off while the environment changes measurement locations; the "
    "clauses (bytes, exceptions, snapshot consistency, memory untouched, not left latched) are evaluated by TLC on "
    "the model state it reconstructed itself.",
    "Trusted: TLC; my reading of 9.10 (READ MEMORY LOCATION resets writeEnableState; reads beyond the last location "
    "still increment DTR0). The Python unit simulator is re-executed by TLC (mismatch = exit 2).",
    "DESIGN.md §5 C09")
CLAIMED["C10"] = (
    "model_checking",
    "same MemUnit model (write side: lock byte 0x55, echo, DTR0 post-check, NO answers); traces of the real "
    "write_raw / write against units with every variant and fault, judged by TLC (MemSeqJudge); PlusCal "
    "transcription of write_raw composed with MemUnit (SeqMemory) checked exhaustively, terminal states replayed on "
    "the real sequence (identical command stream required)",
    "All declared values (writable and not) x data incl. MASK/TMASK literals and short strings x lock byte "
    "locked/unlocked/odd x gear/device x {non-standard unlock value, DTR0 not advancing, wrong echo, shorter bank, "
    "hole} x silent/garbled answer at each step; TLC compares the model's final memory with the request.",
    "Trusted: TLC; documented exception set; the unit simulator is re-executed by TLC.",
    "DESIGN.md §5 C10")
CLAIMED["C11"] = (
    "model_checking",
    "memory layout and interpretation rules as a TLA+ table (MemMap) with well-formedness theorems checked by TLC; "
    "the library's declared map compared both ways; every raw string of 1-/2-byte values and boundary/random "
    "strings of wider values interpreted by the real classes and judged by TLC (MemJudge)",
    "Exhaustive for the 60+ one- and two-byte values (all 2^8 / 2^16 raw strings), boundary + scale-byte + random "
    "strings for 3..60-byte values, inverse conversions for all numbers of <= 2 bytes and strings of every length.",
    "Trusted: TLC; my transcription of IEC 62386-102 Table 9 / DiiA 251-253 (MASK/TMASK/limit columns of banks "
    "205-207 are pins, src=doc).",
    "DESIGN.md §5 C11")

CLAIMED["C13"] = (
    "model_checking",
    "TLA+ model of IEC 62386-103 control devices/instances (Dev103) with the byte-wise input value protocol and the "
    "event filter/scheme registers; reassembly identity for resolutions 1..32 and the filter law with stale DTRs "
    "checked by TLC; real sequence traces re-executed on the model and judged by TLC (DevSeqJudge)",
    "All resolutions 1..32 with all (small) / structured + random values, every library filter enum plus user-defined "
    "16- and 24-bit enums x flag sets x stale DTR contents, valid and invalid schemes, buses of 0..64 devices for the "
    "discovery scan, silence or framing error at each step.",
    "Trusted: TLC; my reading of 103 9.7.2 (MSB-aligned value with repeated low bits) and of SET EVENT FILTER "
    "(DTR2:DTR1:DTR0). The device simulator is re-executed by TLC.",
    "DESIGN.md §5 C13")

CLAIMED["C14"] = (
    "model_checking",
    "TLA+ Tc unit of IEC 62386-209 (Gear209) with set / limit / query laws checked by TLC over all 65536 values; real "
    "sequence traces re-executed on the model under the device type each command carries and judged by TLC (ColourJudge)",
    "Model side exhaustive (65536 values x 3 destination kinds x 4 limit selectors); real side every 17th value + "
    "boundaries (quick) / all 65536 x 4 destinations (thorough), all query selectors x stored values incl. MASK high "
    "byte, silent / garbled answer at each byte, out-of-range and wrong-type arguments.",
    "Trusted: TLC; QUERY COLOUR VALUE modelled as MSB answered / LSB left in DTR0 for every selector. The unit "
    "simulator is re-executed by TLC.",
    "DESIGN.md §5 C14")

CLAIMED["C19"] = (
    "model_checking",
    "reference byte-at-a-time deframers for LUBA and SCI in TLA+ (SerialRx) with resynchronisation properties checked "
    "exhaustively over noise prefixes; real receivers fed grammar-guided and random streams under 5 chunkings each and "
    "their four queues compared by TLC with the reference (RxJudge)",
    "Streams cover valid frames of every type and payload length, corrupt checksums, truncation, noise with and "
    "without start bytes, every value 0..255 in the length position, each followed by a well-formed frame that must "
    "still be delivered; any exception escaping data_received is a violation.",
    "Trusted: TLC; my reading of the LUBA / SCI framing (taken from the driver's protocol comments and Lunatone's "
    "public description); checksum-valid frames malformed for their type are set aside as the property says.",
    "DESIGN.md §5 C19")

CLAIMED["C18"] = (
    "model_checking",
    "packet layouts, checksums, sequence-number rule and receive-side meaning of nine gateway protocols as TLA+ "
    "operators (WireFormats) with checksum/recoverability/sequence theorems checked by TLC; bytes written by the real "
    "drivers (async ones under a virtual event loop against recording fake gateways) judged by TLC (WireJudge)",
    "Every command kind (16/24 bit, with/without device type, send twice, query) with random addresses on the four "
    "async drivers incl. > 600 consecutive Tridonic sends, every 97th (quick) / every (thorough) 16-bit frame on "
    "daliserver / ATX / legacy drivers, unsupported lengths, all daliserver status codes and the legacy extract() tables.",
    "Trusted: TLC; protocol layouts taken from the drivers' own documentation (SCI transmit alignment and LUBA "
    "priority classes are pins, no independent document available offline).",
    "DESIGN.md §5 C18")

CLAIMED["C15"] = (
    "model_checking",
    "property-level TLA+ spec TxnAtomic (wire log = concatenation of whole caller units, prefixes adjacent, lock "
    "free, sequences closed) evaluated by TLC on runs of the real drivers under a deterministic virtual-time event "
    "loop with recording fake gateways; schedules = start points x report release plans (systematic for 2 callers, "
    "seeded random for 2-4); implementation-shaped TLA+ model of the asyncio HID driver (AsyncDriver: lock, two-phase "
    "cancellation, mailboxes, handshake, power-supply requests) model-checked exhaustively for TxnAtomic under every "
    "interleaving (variants with a known / seeded defect must violate a named invariant), and event traces of real "
    "Tridonic runs validated against it (AsyncTrace)",
    "Real CPython asyncio scheduling runs unchanged inside each loop iteration; the harness controls only what a real "
    "loop leaves to the OS: when gateway reports become readable and when callers start. Quick: ~2000 runs over 4 "
    "drivers; thorough: every release plan of length 8 over {0,1,all} x 12 start points x 2 orders + 48000 random runs.",
    "Trusted: TLC; the virtual loop (a 90-line BaseEventLoop subclass); fake gateways (their report streams are "
    "FIFO and recorded).",
    "DESIGN.md §5 C15")
CLAIMED["C16"] = (
    "model_checking",
    "property-level TLA+ spec AnswerPairing (None iff no answer expected, else the command's own response type "
    "wrapping the outcome the gateway assigned to that wire entry) evaluated by TLC on the same runs plus stale-answer "
    "scenarios and the synchronous daliserver / ATX drivers; AnswerPairing is also an invariant of the "
    "implementation-shaped AsyncDriver model (exhaustive, incl. cancellation and loss) to which real Tridonic "
    "traces are bound by trace validation (AsyncTrace)",
    "Outcomes {silent, values incl. 0/1/0xFE/0xFF, framing error} are assigned per wire entry by the fake gateway and "
    "logged with the issuing task, so TLC can tell whose answer each caller received.",
    "Trusted: as C15; fake buses answer only frames the specification's tables mark as queries. Extension (outside "
    "the anchored files, never a verdict): LegacySync.tla models the synchronous legacy hasseb / tridonic send loops, "
    "TLC checks them and three named deviations, all terminal states are replayed on the real drivers (drift 0).",
    "DESIGN.md §5 C16, §15.18")

CLAIMED["C17"] = (
    "model_checking",
    "property-level TLA+ spec Recovery (no hang, only CommunicationError / transparent retry, correct pairing after "
    "retries, lock free, 'failed' after the limit, attempts spaced by the interval, 300 further sends succeed) "
    "evaluated by TLC on fault scenarios replayed on the real drivers under the virtual event loop; AsyncDriver "
    "model (loss, EOF detection, reconnect attempts/limit, INIT handshake, retry with exceptions off) model-checked "
    "incl. liveness under fairness, real loss/cancel traces validated against it (AsyncTrace)",
    "Loss by EOF / read error / write error injected after the k-th write or report, at a time, during the handshake, "
    "repeatedly; reconnect limits None/0/1/3; 0-3 callers with exceptions on/off; cancellation of a caller at every "
    "write/report count followed by 300 sends (sequence numbers wrap); serial gateway silent at confirmation or answer.",
    "Trusted: as C15. A send issued after the driver has reported 'failed' is not judged (the application must "
    "reconnect). Known finding orphaned-answer-after-cancel (hasseb / LUBA / SCI): matched by a witness TLC computes; "
    "every other clause is evaluated first, so the finding cannot mask anything.",
    "DESIGN.md §5 C17")

CLAIMED["C20"] = (
    "model_checking",
    "property-level timed transducer BusWatch in TLA+ (one-frame device-type memory, query/answer pairing with 200 ms "
    "timeout, send-twice repeat detection, delivery to the subscribers present) run by TLC over the same report history "
    "the fake gateway produced and compared with what every subscriber of the real driver received",
    "Histories of 1..8 transactions of every kind in the property's list with gaps on both sides of the timeout, "
    "interleaved with an own send, 0-3 subscribers joining/leaving; Tridonic watcher via bus_traffic callbacks, LUBA/SCI "
    "via DistributorQueue children; decoded class checked against the specification's tables in device-type context "
    "(a frame the tables do not name must come back as an unknown command); plus every history of up to 3 (quick) / 4 "
    "(thorough) reports over 12 report kinds x two gaps (small-scope exhaustive), firmware-quirk traffic and callers "
    "cancelled in mid-transaction.",
    "Trusted: as C15; timeouts never exercised at equality; join/leave never coincide with a report.",
    "DESIGN.md §5 C20")

NOT_YET = {}


def main():
    props = [json.loads(l) for l in open(os.path.join(HERE, "properties.jsonl"))]
    checks, na = [], []
    for p in props:
        pid = p["id"]
        if pid in CLAIMED:
            cat, tech, text, note, ref = CLAIMED[pid]
            checks.append({
                "property_id": pid,
                "quick_cmd": "./check %s --tier quick" % pid,
                "thorough_cmd": "./check %s --tier thorough" % pid,
                "evidence_file": "/verif/evidence/%s.json" % pid,
                "replay_cmd_template": "./check %s --replay {path}" % pid,
                "engine": "tlc",
                "level_claimed": {"category": cat, "text": text, "design_ref": ref},
                "level_note": note,
                "technique": tech,
            })
        else:
            na.append({"property_id": pid, "reason": NOT_YET.get(
                pid, "check not built yet in this round (planned, see DESIGN.md §5 and §9); not claimed until its "
                     "TLA+ specification and conformance binding exist and pass on the unchanged tree")})
    m = {
        "version": 1,
        "setup_cmd": "./setup.sh",
        "hooks": {
            "guard": "PYTHON_DALI_VERIF",
            "enable": "no source hooks are needed: every observation point is a public call, a generator yield, a "
                      "queue or a replaced OS/serial/socket object; checks import /repo's working tree directly",
            "baseline_off_cmd": BASELINE,
            "source_commits": [],
            "add_only": True,
        },
        "engines": [{"name": "tlc", "path": "/verif/spec", "serves_properties": sorted(CLAIMED),
                     "kind_free_text": "explicit TLA+ specifications checked by TLC; real behaviour recorded by "
                                       "/verif/harness and judged by TLC against the specification"}],
        "checks": checks,
        "not_applicable": na,
        "notes": "exit 0 = held, exit 1 + VIOLATION line = property violated by the real code, exit 2 = machinery "
                 "failure (never reported as a violation). See DESIGN.md.",
    }
    with open(os.path.join(HERE, "MANIFEST.json"), "w") as fh:
        json.dump(m, fh, indent=1)
        fh.write("\n")


if __name__ == "__main__":
    main()
