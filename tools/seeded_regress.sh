#!/bin/sh
# tools/seeded_regress.sh [ids...]: every kept seeded change must still be caught by (one of) the checks recorded for it.
# Works in a scratch worktree under /tmp (never in /repo); prints one line per change; exit 1 if one is not caught.
cd /verif || exit 2
wt=/tmp/seeded-regress-wt
git -C /repo worktree remove --force $wt 2>/dev/null
git -C /repo worktree add -q --detach $wt HEAD || exit 2
bad=0
for d in ${@:-$(ls seeded | grep -v README)}; do
  [ -f seeded/$d/patch.diff ] || continue
  git -C $wt checkout -q -- . && git -C $wt apply /verif/seeded/$d/patch.diff || { echo "$d: patch does not apply"; bad=1; continue; }
  checks=$(/venv/bin/python -c "import json;print(' '.join(json.load(open('seeded/$d/meta.json'))['caught_by']))")
  hit=""
  for c in $checks; do
    n=$(VERIF_REPO=$wt ./check $c --tier quick 2>&1 | grep -c '^VIOLATION')
    if [ "$n" -gt 0 ]; then hit="$c($n)"; break; fi
  done
  if [ -n "$hit" ]; then echo "$d: caught by $hit"; else echo "$d: NOT CAUGHT (tried $checks)"; bad=1; fi
done
git -C /repo worktree remove --force $wt
git checkout -q -- evidence 2>/dev/null
rm -f replays/*-quick-0-*.json
exit $bad
