#!/bin/sh
# usage: tools/run_all.sh [tier] [seed]   -- runs every check once, prints one summary line per property
cd "$(dirname "$0")/.." || exit 2
tier=${1:-quick}; seed=${2:-0}
for p in C01 C02 C03 C04 C05 C06 C07 C08 C09 C10 C11 C12 C13 C14 C15 C16 C17 C18 C19 C20; do
  start=$(date +%s)
  VERIF_SEED=$seed ./check $p --tier $tier > /tmp/verif-runall-$p.log 2>&1; rc=$?
  end=$(date +%s)
  echo "$p rc=$rc $((end-start))s $(grep -c '^VIOLATION' /tmp/verif-runall-$p.log) violations $(grep -c '^KNOWN-FINDING' /tmp/verif-runall-$p.log) known :: $(tail -1 /tmp/verif-runall-$p.log | cut -c1-150)"
done
