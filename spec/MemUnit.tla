------------------------------ MODULE MemUnit ------------------------------
(* Memory bank access of a bus unit, IEC 62386-102 9.10 / 103 9.10 (C09,     *)
(* C10): DTR0/DTR1 addressing with auto-increment, writeEnableState, last     *)
(* accessible location, unimplemented locations, lock byte (0x55 unlocks      *)
(* lockable locations) and latching (0xAA in the lock byte of a latch capable *)
(* bank freezes a snapshot that reads are served from).  The unit implements  *)
(* one memory bank (bank label as in MemMap) and has short address 5.         *)
(*                                                                            *)
(* u = [kind : "gear"|"device", bank : label, mem : Seq(-1..255) (index loc+1, *)
(*      -1 = not implemented), snap : snapshot or <<>>, dtr0, dtr1, wes,       *)
(*      unlock : value that unlocks (0x55 unless the unit is odd),             *)
(*      nobble : DTR0 does not advance on writes, echoflip : echoes v+1,       *)
(*      fault : [at |-> n-th READ/WRITE answer, kind |-> "silent"|"err"|       *)
(*               "errsame" (framing error carrying the expected bits)|"stuck"   *)
(*               (the write is stored and echoed but DTR0 stays)|"none"],       *)
(*      nans : answers to READ/WRITE given so far]                             *)
EXTENDS CmdCodec, MemMap

UnitShort == 5

Loc(u, l) == u.mem[l + 1]
\* what a read sees: the snapshot while the bank is latched
Latched(u) == Props(u.bank).latch /\ u.snap # <<>> /\ Loc(u, 2) = 170
View(u, l) == IF Latched(u) THEN u.snap[l + 1] ELSE Loc(u, l)
Last(u) == View(u, 0)

TypeOfLoc(bank, l) ==
    LET hits == {i \in RowsOf(bank) : l \in LocsOf(Map[i])} IN
    IF hits = {} THEN "R" ELSE TypeAt(Map[CHOOSE i \in hits : TRUE], l)

\* short name of the command (gear and device flavours behave alike)
ShortName(len, f) ==
    LET n == IF len = 16 THEN Name16(f, 0) ELSE Name24(f) IN
    IF Len(n) > 4 THEN SubSeq(n, 5, Len(n)) ELSE n
Param(len, f) == f % 256
AddressedToUnit(len, f) ==
    LET a == AddrFromFrame(len, f) IN
    a \in {<<"gshort", UnitShort>>, <<"gbcast", 0>>, <<"dshort", UnitShort>>, <<"dbcast", 0>>}

Silent == <<"none", 0>>
Inc(x) == IF x < 255 THEN x + 1 ELSE x

\* apply the fault plan to an answer to READ / WRITE MEMORY LOCATION
Faulted(u, ans) ==
    IF u.fault.kind # "none" /\ u.nans + 1 = u.fault.at
    THEN (IF u.fault.kind = "silent" THEN Silent
          ELSE IF u.fault.kind = "stuck" THEN ans          \* answers normally, but DTR0 does not advance (see Step)
          ELSE IF u.fault.kind = "errsame" /\ ans[1] = "val" THEN <<"err", ans[2]>>   \* garbled, yet the same data bits
          ELSE <<"err", 255>>)
    ELSE ans

Step(u, len, f) ==
    LET nm == ShortName(len, f)
        v == Param(len, f)
        rightKind == (len = 16) = (u.kind = "gear")
    IN
    IF ~rightKind THEN [u |-> u, resp |-> Silent]
    ELSE
    CASE nm = "DTR0" -> [u |-> [u EXCEPT !.dtr0 = v], resp |-> Silent]
      [] nm = "DTR1" -> [u |-> [u EXCEPT !.dtr1 = v], resp |-> Silent]
      [] nm = "DTR2" -> [u |-> u, resp |-> Silent]
      [] nm = "QueryContentDTR0" ->
           [u |-> u, resp |-> IF AddressedToUnit(len, f) THEN <<"val", u.dtr0>> ELSE Silent]
      [] nm = "QueryContentDTR1" ->
           [u |-> u, resp |-> IF AddressedToUnit(len, f) THEN <<"val", u.dtr1>> ELSE Silent]
      [] nm = "EnableWriteMemory" ->
           [u |-> [u EXCEPT !.wes = AddressedToUnit(len, f)], resp |-> Silent]
      [] nm = "ReadMemoryLocation" ->
           IF ~AddressedToUnit(len, f) THEN [u |-> [u EXCEPT !.wes = FALSE], resp |-> Silent]
           ELSE IF u.dtr1 # BankNumber(u.bank) THEN [u |-> [u EXCEPT !.wes = FALSE], resp |-> Silent]
           ELSE LET l == u.dtr0
                    ok == l < 255 /\ l <= Last(u) /\ View(u, l) >= 0
                    ans == IF ok THEN <<"val", View(u, l)>> ELSE Silent
                IN [u |-> [u EXCEPT !.wes = FALSE, !.dtr0 = Inc(l), !.nans = @ + 1], resp |-> Faulted(u, ans)]
      [] nm \in {"WriteMemoryLocation", "WriteMemoryLocationNoReply"} ->
           IF ~u.wes \/ u.dtr1 # BankNumber(u.bank) THEN [u |-> u, resp |-> Silent]
           ELSE LET l == u.dtr0
                    t == TypeOfLoc(u.bank, l)
                    ok == /\ l < 255 /\ l <= Last(u) /\ Loc(u, l) >= 0
                          /\ Writable(t)
                          /\ (Lockable(t) => Loc(u, 2) = u.unlock)
                    mem2 == IF ok THEN [u.mem EXCEPT ![l + 1] = v] ELSE u.mem
                    snap2 == IF ok /\ l = 2 /\ v = 170 /\ Props(u.bank).latch THEN mem2 ELSE u.snap
                    echo == IF u.echoflip THEN (v + 1) % 256 ELSE v
                    ans == IF nm = "WriteMemoryLocation" /\ ok THEN <<"val", echo>> ELSE Silent
                IN [u |-> [u EXCEPT !.mem = mem2, !.snap = snap2, !.dtr0 = IF u.nobble \/ (u.fault.kind = "stuck" /\ nm = "WriteMemoryLocation"
                                                                            /\ u.nans + 1 = u.fault.at) THEN l ELSE Inc(l),
                                    !.nans = IF nm = "WriteMemoryLocation" THEN @ + 1 ELSE @],
                    resp |-> IF nm = "WriteMemoryLocation" THEN Faulted(u, ans) ELSE Silent]
      [] OTHER -> [u |-> [u EXCEPT !.wes = FALSE], resp |-> Silent]

\* environment: RAM / measurement locations change while the unit runs
Tick(u, changes) ==
    [u EXCEPT !.mem = [k \in 1..Len(u.mem) |->
        LET hit == {j \in 1..Len(changes) : changes[j][1] = k - 1} IN
        IF hit = {} THEN u.mem[k] ELSE changes[CHOOSE j \in hit : TRUE][2]]]
=============================================================================
