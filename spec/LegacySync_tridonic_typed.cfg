SPECIFICATION Spec
CONSTANT Driver = "tridonic"
CONSTANT MaxLen = 2
CONSTANT Polls = 2
CONSTANT CheckSn = FALSE
CONSTANT defaultInitValue = 0
INVARIANT TridonicTyped
CHECK_DEADLOCK FALSE
