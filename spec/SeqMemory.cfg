SPECIFICATION Spec
CONSTANT Scenarios <- ScenAll
CONSTANT defaultInitValue = 0
CONSTANT UnlatchOnError = TRUE
INVARIANT ReadOK
INVARIANT ReadAllOK
INVARIANT WriteOK
INVARIANT Bounded
CHECK_DEADLOCK FALSE

INVARIANT NotLeftLatched
