---------------------------- MODULE SerialRxModel ----------------------------
(* Spec-side properties of the reference deframers, exhaustive over every      *)
(* noise prefix of up to MaxNoise bytes from a small alphabet: a well-formed   *)
(* frame that follows noise which cannot open a frame is delivered; a frame    *)
(* whose checksum is wrong or whose length cannot fit delivers nothing and the *)
(* next frame is still delivered.                                              *)
EXTENDS SerialRx

CONSTANT MaxNoise
VARIABLE noise
Alphabet == {0, 1, 21, 49, 88, 90, 255}         \* no 'Y' (89): cannot open a frame
Init == noise = <<>>
Next == Len(noise) < MaxNoise /\ \E b \in Alphabet : noise' = Append(noise, b)
Spec == Init /\ [][Next]_noise

Frame(cmd, p) == <<89, cmd, Len(p)>> \o p \o <<XorAll(<<cmd, Len(p)>> \o p)>>
Observed == Frame(49, <<0, 1, 0, 144, 255, 0>>)                   \* event: received 16-bit frame FF 00
Answer == Frame(49, <<0, 2, 0, 136, 66>>)                         \* event: received 8-bit frame 0x42
BadSum == [Observed EXCEPT ![Len(Observed)] = (Observed[Len(Observed)] + 1) % 256]
TooLong(n) == <<89, 49, n>>

NoiseThenFrame == LubaRun(noise \o Observed).cmd = << <<16, <<255, 0>> >> >>
BadChecksumDropped == LET o == LubaRun(noise \o BadSum \o Answer) IN o.cmd = <<>> /\ o.raw = <<66>>
UnfittingLengthDropped == \A n \in {0, 21, 22, 23, 24, 255} :
    LET o == LubaRun(noise \o TooLong(n) \o Answer) IN o.raw = <<66>> /\ o.cmd = <<>>
SciAligned == Len(noise) % 5 = 0 =>
    SciRun(noise \o <<3, 0, 255, 0, XorAll(<<3, 0, 255, 0>>)>>).cmd
      = SciRun(noise).cmd \o << <<16, <<255, 0>> >> >>
=============================================================================
