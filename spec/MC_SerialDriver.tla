--------------------------- MODULE MC_SerialDriver ---------------------------
EXTENDS SerialDriver

C(dt, tw, q) == [dt |-> dt, twice |-> tw, query |-> q]
Dapc == C(FALSE, FALSE, FALSE)
Cfg == C(FALSE, TRUE, FALSE)
Qry == C(FALSE, FALSE, TRUE)
QryDT == C(TRUE, FALSE, TRUE)

\* 2 callers: a sequence (send-twice command, query) against a single send with a device type
Callers2 == {"A", "B"}
Unit2 == [c \in Callers2 |-> IF c = "A" THEN <<Cfg, Qry>> ELSE <<QryDT>>]
Mode2 == [c \in Callers2 |-> IF c = "A" THEN "sequence" ELSE "send"]
OutVal2 == [c \in Callers2 |-> IF c = "A" THEN <<"none", "val">> ELSE <<"val">>]
OutMix2 == [c \in Callers2 |-> IF c = "A" THEN <<"none", "err">> ELSE <<"none">>]

\* 3 callers, two of them sending two commands each
Callers3 == {"A", "B", "C"}
Unit3 == [c \in Callers3 |-> CASE c = "A" -> <<Qry, Dapc>> [] c = "B" -> <<Qry, Qry>> [] c = "C" -> <<QryDT>>]
Mode3 == [c \in Callers3 |-> IF c = "A" THEN "sequence" ELSE "send"]
OutVal3 == [c \in Callers3 |-> CASE c = "A" -> <<"val", "none">> [] c = "B" -> <<"val", "val">> [] c = "C" -> <<"val">>]
NoCancel == {}
CancelA == {"A"}
CancelAB == {"A", "B"}
AnyAwait == {"lockwait", "confwait", "respwait"}
QueuedOnly == {"lockwait"}
CancelABC == {"A", "B", "C"}
=============================================================================
