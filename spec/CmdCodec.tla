------------------------------ MODULE CmdCodec ------------------------------
(* Encoding and decoding of forward frames per IEC 62386-102/103 and the     *)
(* application extended / instance type parts, built from StdTables and      *)
(* AddrCodec.  Frames are naturals.  Used by C01, C02, C03, C12 and C20.     *)
EXTENDS StdTables, AddrCodec

HasFlagS(s, c) == \E i \in 1..Len(s) : SubSeq(s, i, i) = c
HasFlag(r, c) == HasFlagS(r[4], c)
QName(r) == r[1] \o "." \o r[2]

PartDT(part) == CASE part = "102" -> 0 [] part = "202" -> 1 [] part = "205" -> 4 [] part = "206" -> 5
                  [] part = "207" -> 6 [] part = "209" -> 8 [] OTHER -> 0

ImplementedDTs == {1, 4, 5, 6, 8}

\* ---- encoding (the frame the standard assigns) ------------------------------
\* gear standard command (Table 15 / application extended): address byte, selector bit 1, opcode (+ nibble)
EncGearStd(r, dest, p) == AddAddr(dest, 256 + r[3] + p)
EncDAPC(dest, level) == AddAddr(dest, level)
\* special commands (Table 16): address byte = opcode column, second byte = parameter
EncGearSpecial(r, b) == r[3] * 256 + b
ShortAddrByte(a) == IF a = 255 THEN 255 ELSE 2 * a + 1       \* 0AAAAAA1, MASK = 0xFF
\* 24-bit device command: bit 16 = 1, instance byte 0xFE
EncDev(r, dest) == AddAddr(dest, 65536 + 254 * 256 + r[3])
EncInst(r, dest, inst) == AddInst(inst, AddAddr(dest, 65536 + r[3]))
EncDevSpecial(r, ib, ob) == r[3] * 65536 + (IF r[4] = -1 THEN ib ELSE r[4]) * 256 + ob

\* ---- legal argument spaces ---------------------------------------------------
\* a destination argument is <<"int", n>> or an address <<kind, n>>
GearDestLegal(d) == (d[1] = "int" /\ d[2] \in 0..63) \/ d \in GearAddrs
DevDestLegal(d) == d \in DevAddrs
GearDest(d) == IF d[1] = "int" THEN <<"gshort", d[2]>> ELSE d
\* instance argument: every instance byte except 0xFE "device" (assigned to device commands)
\* ... and the bytes the standard reserves, which the library lets a caller name explicitly: a byte value only
ReservedByte(b) == b \in 0..255 /\ InstOfByte(b) = <<"reserved", b>>
InstLegal(i) == (i \in Instances /\ i[1] # "device") \/ (i[1] = "reserved" /\ ReservedByte(i[2]))

\* ---- decoding: the command name the standard gives a frame -------------------
Unnamed == "?"
\* what the library may call a frame the tables have no name for: its generic / unknown command classes
UnknownNames == {"Command", "102.UnknownGearCommand", "103.UnknownDeviceCommand", "103.UnknownEvent", "103.AmbiguousInstanceType"}

RowsFor(tbl, pred(_)) == {i \in 1..Len(tbl) : pred(tbl[i])}

GearStdName(dt, op) ==
    LET hits == {i \in 1..Len(AllGearRows) :
                   LET r == AllGearRows[i] IN
                   PartDT(r[1]) = dt /\ (IF HasFlag(r, "P") THEN op >= r[3] /\ op <= r[3] + 15 ELSE op = r[3])}
    IN IF hits = {} THEN Unnamed ELSE QName(AllGearRows[CHOOSE i \in hits : TRUE])

GearSpecialName(ab, lb) ==
    LET hits == {i \in 1..Len(GearSpecial102) : GearSpecial102[i][3] = ab} IN
    IF hits = {} THEN Unnamed
    ELSE LET r == GearSpecial102[CHOOSE i \in hits : TRUE]
             shortform == lb = 255 \/ (lb < 128 /\ lb % 2 = 1)
         IN IF HasFlag(r, "B") THEN QName(r)
            ELSE IF HasFlag(r, "A") THEN (IF shortform THEN QName(r) ELSE Unnamed)
            ELSE IF HasFlag(r, "I") THEN (IF shortform \/ lb = 0 THEN QName(r) ELSE Unnamed)
            ELSE IF lb = 0 THEN QName(r) ELSE Unnamed

DevName(op) == LET hits == {i \in 1..Len(Dev103) : Dev103[i][3] = op} IN
               IF hits = {} THEN Unnamed ELSE QName(Dev103[CHOOSE i \in hits : TRUE])
InstName(op) == LET hits == {i \in 1..Len(Inst103) : Inst103[i][3] = op} IN
                IF hits = {} THEN Unnamed ELSE QName(Inst103[CHOOSE i \in hits : TRUE])
DevSpecialName(ab, ib, ob) ==
    LET hits == {i \in 1..Len(DevSpecial103) :
                   LET r == DevSpecial103[i] IN
                   r[3] = ab /\ (HasFlagS(r[5], "2") \/ r[4] = ib)}
    IN IF hits = {} THEN Unnamed
       ELSE LET r == DevSpecial103[CHOOSE i \in hits : TRUE]
            IN IF HasFlagS(r[5], "2") \/ HasFlagS(r[5], "1") THEN QName(r)
               ELSE IF ob = 0 THEN QName(r) ELSE Unnamed

\* constant lookup tables (evaluated once by TLC) so that table judging is cheap
DTsWithRows == {0} \cup ImplementedDTs
GearStdTab == [dt \in DTsWithRows |-> [op \in 0..255 |-> GearStdName(dt, op)]]
GearSpecialTab == [ab \in 0..255 |-> [lb \in 0..255 |-> GearSpecialName(ab, lb)]]
DevTab == [op \in 0..255 |-> DevName(op)]
InstTab == [op \in 0..255 |-> InstName(op)]

\* device types whose application extended commands are in the tables use them for opcodes >= 224;
\* what a standard opcode means after ENABLE DEVICE TYPE x is left open here (not judged)
Name16(f, dt) ==
    LET a7 == f \div 512
        sel == BitOfInt(f, 8)
        op == f % 256
    IN IF GearOf7(a7) # None THEN
           IF sel = 0 THEN "102.DAPC"
           ELSE IF dt = 0 THEN GearStdTab[0][op]
           ELSE IF dt \in ImplementedDTs /\ op >= 224 THEN GearStdTab[dt][op]
           ELSE Unnamed
       ELSE GearSpecialTab[f \div 256][op]

\* 24-bit command frames (bit 16 = 1); event frames are Events103's business
Name24(f) ==
    LET a7 == f \div 131072
        ib == (f \div 256) % 256
        ob == f % 256
    IN IF BitOfInt(f, 16) = 0 THEN "event"
       ELSE IF DevOf7(a7) # None THEN (IF ib = 254 THEN DevTab[ob] ELSE InstTab[ob])
       ELSE DevSpecialName(f \div 65536, ib, ob)
=============================================================================
