SPECIFICATION Spec
CONSTANT Callers <- Callers2
CONSTANT Unit <- Unit2
CONSTANT Mode <- Mode2
CONSTANT ExcOn <- ExcOffB
CONSTANT Cancellable <- NoCancel
CONSTANT MaxLoss = 2
CONSTANT MaxSeq = 4
CONSTANT FixedCancel = TRUE
CONSTANT Limit = 2
CONSTANT PowerLocked = TRUE
INVARIANT TypeOK
INVARIANT WriteByOwner
INVARIANT TxnAtomic
INVARIANT AnswerPairing
INVARIANT CleanEnd
INVARIANT NoAssertion
INVARIANT ErrorsOnlyWhenAsked
CHECK_DEADLOCK FALSE
