---------------------------- MODULE HassebDriver ----------------------------
(* Implementation-shaped model of the hasseb HID driver (dali/driver/hid.py, *)
(* class hid + hasseb): transaction lock, ENABLE DEVICE TYPE inside the same  *)
(* lock section, one or two writes per frame, a single answer slot            *)
(* (_response) with an asyncio.Event that is cleared after the write and set  *)
(* by the reader for every report that is not "no data available", no         *)
(* sequence numbers, no timeout.  Cancellation in two steps as in AsyncDriver.*)
(* Loss / reconnection is the hid base class and is modelled in AsyncDriver.  *)
EXTENDS Naturals, Integers, Sequences, FiniteSets, TLC

CONSTANTS Callers, Unit, Mode,     \* caller -> Seq([dt, twice, query]), "send" | "sequence"
          Cancellable, CancelAt    \* who may be cancelled, in which states ("lockwait", "respwait")

VARIABLES pc, idx, sub, results, exc,
          lockHeld, lockOwner, waiters, woken, cancelledW,
          wire,        \* Seq(<<caller, index, "edt"|"cmd">>): one entry per frame (a send-twice frame is two writes)
          slot, avail, \* _response and _response_available
          gw           \* answer reports the device has still to deliver: Seq(tag)

vars == <<pc, idx, sub, results, exc, lockHeld, lockOwner, waiters, woken, cancelledW, wire, slot, avail, gw>>

None == "none"
NoRes == <<"none", 0>>
Cmd(c) == Unit[c][idx[c]]
FirstFrame(c, i) == IF Unit[c][i].dt THEN "edt" ELSE "cmd"

Init ==
    /\ pc = [c \in Callers |-> "idle"] /\ idx = [c \in Callers |-> 1] /\ sub = [c \in Callers |-> "cmd"]
    /\ results = [c \in Callers |-> <<>>] /\ exc = [c \in Callers |-> None]
    /\ lockHeld = FALSE /\ lockOwner = None /\ waiters = <<>> /\ woken = None /\ cancelledW = {}
    /\ wire = <<>> /\ slot = NoRes /\ avail = FALSE /\ gw = <<>>

Acquire(c) ==
    IF ~lockHeld /\ \A k \in 1..Len(waiters) : waiters[k] \in cancelledW
    THEN /\ lockHeld' = TRUE /\ lockOwner' = c /\ pc' = [pc EXCEPT ![c] = "crit"] /\ UNCHANGED <<waiters, woken, cancelledW>>
    ELSE /\ waiters' = Append(waiters, c) /\ pc' = [pc EXCEPT ![c] = "lockwait"] /\ UNCHANGED <<lockHeld, lockOwner, woken, cancelledW>>

ReleaseVars ==
    /\ lockHeld' = FALSE /\ lockOwner' = None
    /\ woken' = IF waiters # <<>> /\ woken = None /\ Head(waiters) \notin cancelledW THEN Head(waiters) ELSE woken
    /\ UNCHANGED <<waiters, cancelledW>>

Start(c) ==
    /\ pc[c] = "idle" /\ Acquire(c)
    /\ sub' = [sub EXCEPT ![c] = FirstFrame(c, idx[c])]
    /\ UNCHANGED <<idx, results, exc, wire, slot, avail, gw>>

Grant(c) ==
    /\ pc[c] = "lockwait" /\ woken = c /\ ~lockHeld
    /\ lockHeld' = TRUE /\ lockOwner' = c /\ woken' = None /\ UNCHANGED cancelledW
    /\ waiters' = SelectSeq(waiters, LAMBDA x : x # c)
    /\ pc' = [pc EXCEPT ![c] = "crit"]
    /\ sub' = [sub EXCEPT ![c] = FirstFrame(c, idx[c])]
    /\ UNCHANGED <<idx, results, exc, wire, slot, avail, gw>>

Complete(c, res) ==
    LET last == idx[c] = Len(Unit[c]) IN
    /\ results' = [results EXCEPT ![c] = Append(@, res)]
    /\ idx' = [idx EXCEPT ![c] = IF last THEN @ ELSE @ + 1]
    /\ IF Mode[c] = "send" \/ last
       THEN /\ ReleaseVars /\ pc' = [pc EXCEPT ![c] = IF last THEN "done" ELSE "idle"] /\ UNCHANGED sub
       ELSE /\ pc' = [pc EXCEPT ![c] = "crit"] /\ sub' = [sub EXCEPT ![c] = FirstFrame(c, idx[c] + 1)]
            /\ UNCHANGED <<lockHeld, lockOwner, waiters, woken, cancelledW>>

\* _send_raw without an await in it: write (twice), clear the event; a command without an answer is complete at once
WriteStep(c) ==
    /\ pc[c] = "crit"
    /\ wire' = Append(wire, <<c, idx[c], sub[c]>>)
    /\ avail' = FALSE
    /\ IF sub[c] = "edt"
       THEN /\ sub' = [sub EXCEPT ![c] = "cmd"] /\ UNCHANGED <<pc, idx, results, gw, lockHeld, lockOwner, waiters, woken, cancelledW>>
       ELSE IF Cmd(c).query
       THEN /\ gw' = Append(gw, <<c, idx[c]>>) /\ pc' = [pc EXCEPT ![c] = "respwait"]
            /\ UNCHANGED <<idx, sub, results, lockHeld, lockOwner, waiters, woken, cancelledW>>
       ELSE /\ Complete(c, NoRes) /\ UNCHANGED gw
    /\ UNCHANGED <<exc, slot>>

RespStep(c) ==
    /\ pc[c] = "respwait" /\ avail
    /\ avail' = FALSE
    /\ Complete(c, slot)
    /\ UNCHANGED <<exc, wire, slot, gw>>

InQueue(c) == \E k \in 1..Len(waiters) : waiters[k] = c
CancelReq(c) ==
    /\ c \in Cancellable /\ pc[c] \in CancelAt      \* also when the event has just been set: the woken task is cancelled before it runs
    /\ pc' = [pc EXCEPT ![c] = "cancelling"]
    /\ cancelledW' = IF pc[c] = "lockwait" /\ woken # c THEN cancelledW \cup {c} ELSE cancelledW
    /\ UNCHANGED <<idx, sub, results, exc, lockHeld, lockOwner, waiters, woken, wire, slot, avail, gw>>
CancelRun(c) ==
    /\ pc[c] = "cancelling"
    /\ exc' = [exc EXCEPT ![c] = "Cancelled"] /\ pc' = [pc EXCEPT ![c] = "done"]
    /\ IF InQueue(c)
       THEN LET rest == SelectSeq(waiters, LAMBDA x : x # c)
                w0 == IF woken = c THEN None ELSE woken
            IN /\ waiters' = rest /\ cancelledW' = cancelledW \ {c}
               /\ woken' = IF ~lockHeld /\ rest # <<>> /\ w0 = None /\ Head(rest) \notin cancelledW THEN Head(rest) ELSE w0
               /\ UNCHANGED <<lockHeld, lockOwner>>
       ELSE ReleaseVars
    /\ UNCHANGED <<idx, sub, results, wire, slot, avail, gw>>

\* the reader: every report that is not "no data available" overwrites the slot and sets the event
Deliver ==
    /\ gw # <<>>
    /\ slot' = Head(gw) /\ avail' = TRUE /\ gw' = Tail(gw)
    /\ UNCHANGED <<pc, idx, sub, results, exc, lockHeld, lockOwner, waiters, woken, cancelledW, wire>>

Next == \/ \E c \in Callers : Start(c) \/ Grant(c) \/ WriteStep(c) \/ RespStep(c) \/ CancelReq(c) \/ CancelRun(c)
        \/ Deliver
Fairness == /\ \A c \in Callers : WF_vars(Start(c)) /\ WF_vars(Grant(c)) /\ WF_vars(WriteStep(c)) /\ WF_vars(RespStep(c)) /\ WF_vars(CancelRun(c))
            /\ WF_vars(Deliver)
Spec == Init /\ [][Next]_vars /\ Fairness

AllDone == \A c \in Callers : pc[c] = "done"
TypeOK == /\ \A c \in Callers : pc[c] \in {"idle", "lockwait", "crit", "respwait", "cancelling", "done"}
          /\ lockHeld => lockOwner \in Callers
PrefixAdjacent ==
    \A k \in 1..Len(wire) :
        (wire[k][3] = "cmd" /\ Unit[wire[k][1]][wire[k][2]].dt) => k > 1 /\ wire[k - 1] = <<wire[k][1], wire[k][2], "edt">>
SeqContiguous ==
    \A c \in Callers : Mode[c] = "sequence" =>
        LET ks == {k \in 1..Len(wire) : wire[k][1] = c} IN \A a, b \in ks : \A m \in a..b : wire[m][1] = c
TxnAtomic == PrefixAdjacent /\ SeqContiguous
NoCrossTalk == \A c \in Callers : \A i \in 1..Len(results[c]) : results[c][i] \in {NoRes, <<c, i>>}
ExactPairing == \A c \in Callers : \A i \in 1..Len(results[c]) :
                    results[c][i] = (IF Unit[c][i].query THEN <<c, i>> ELSE NoRes)
CleanEnd == AllDone => ~lockHeld /\ waiters = <<>> /\ woken = None
EventuallyAllDone == <>AllDone
=============================================================================
