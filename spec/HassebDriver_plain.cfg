SPECIFICATION Spec
CONSTANT Callers <- Callers3
CONSTANT Unit <- Unit3
CONSTANT Mode <- Mode3
CONSTANT Cancellable <- NoCancel
CONSTANT CancelAt <- AnyAwait
INVARIANT TypeOK
INVARIANT TxnAtomic
INVARIANT NoCrossTalk
INVARIANT ExactPairing
INVARIANT CleanEnd
PROPERTY EventuallyAllDone
CHECK_DEADLOCK FALSE
