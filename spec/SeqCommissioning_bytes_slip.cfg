SPECIFICATION Spec
CONSTANT Configs <- ConfigsBytes
CONSTANT RandVals <- RandValsBytes
CONSTANT K = 1
CONSTANT SkipSame = "afterfind"
CONSTANT defaultInitValue = 0
INVARIANT InvP2
CHECK_DEADLOCK FALSE

