------------------------------- MODULE Bits -------------------------------
(* Bit vectors and byte strings as sequences.                               *)
(* A bit vector b is a sequence over {0,1}; b[i+1] is bit i (LSB first), so *)
(* Len(b) is the width.  A natural number of arbitrary size ("BigNat") is   *)
(* the same thing with no most-significant zero: <<>> is 0.                 *)
(* TLC integers are 32 bit, so anything that may exceed 2^30 stays a        *)
(* sequence; the *Int operators are for widths <= 30 only.                  *)
EXTENDS Naturals, Integers, Sequences, FiniteSets

Bit == {0, 1}

Pow2(n) == 2 ^ n

\* -- small (<= 30 bit) conversions ---------------------------------------
BitsOfInt(n, w) == [i \in 1..w |-> (n \div Pow2(i - 1)) % 2]

RECURSIVE IntOfBits(_)
IntOfBits(b) == IF b = <<>> THEN 0 ELSE b[1] + 2 * IntOfBits(Tail(b))

\* bit i of integer n (n >= 0)
BitOfInt(n, i) == (n \div Pow2(i)) % 2

\* bits hi..lo of integer n (hi >= lo)
SliceOfInt(n, hi, lo) == (n \div Pow2(lo)) % Pow2(hi - lo + 1)

\* -- BigNat ---------------------------------------------------------------
RECURSIVE Trim(_)
Trim(b) == IF b = <<>> THEN b
           ELSE IF b[Len(b)] = 0 THEN Trim(SubSeq(b, 1, Len(b) - 1)) ELSE b

IsTrimmed(b) == b = <<>> \/ b[Len(b)] = 1

Pad(b, n) == [i \in 1..n |-> IF i <= Len(b) THEN b[i] ELSE 0]

\* bit i (0-based) of a vector, 0 beyond its width
BitAt(b, i) == IF i + 1 <= Len(b) THEN b[i + 1] ELSE 0

\* bits hi..lo (0-based, hi >= lo) as a vector of width hi-lo+1
Slice(b, hi, lo) == [i \in 1..(hi - lo + 1) |-> b[lo + i]]

\* replace bits hi..lo by the vector v (Len(v) = hi-lo+1)
SetSlice(b, hi, lo, v) ==
    [i \in 1..Len(b) |-> IF i - 1 >= lo /\ i - 1 <= hi THEN v[i - lo] ELSE b[i]]

AllZero(b) == \A i \in 1..Len(b) : b[i] = 0
AllOne(b) == \A i \in 1..Len(b) : b[i] = 1

\* -- bytes ----------------------------------------------------------------
\* byte k (0 = least significant) of a vector, missing bits read as 0
ByteAt(b, k) ==
    BitAt(b, 8*k) + 2*BitAt(b, 8*k+1) + 4*BitAt(b, 8*k+2) + 8*BitAt(b, 8*k+3)
    + 16*BitAt(b, 8*k+4) + 32*BitAt(b, 8*k+5) + 64*BitAt(b, 8*k+6) + 128*BitAt(b, 8*k+7)

\* big-endian byte string of exactly n bytes (most significant first)
BytesBE(b, n) == [j \in 1..n |-> ByteAt(b, n - j)]

NBytes(w) == (w + 7) \div 8

\* bit vector of width w from a big-endian byte string (bits beyond w dropped)
BitsOfBytesBE(bytes, w) ==
    [i \in 1..w |->
        LET k == (i - 1) \div 8              \* byte index from the LSB end
            j == Len(bytes) - k              \* position in the string
        IN IF j >= 1 THEN (bytes[j] \div Pow2((i - 1) % 8)) % 2 ELSE 0]

\* number of significant bits of a big-endian byte string
RECURSIVE BitLenBytes(_)
BitLenBytes(bytes) ==
    IF bytes = <<>> THEN 0
    ELSE IF bytes[1] = 0 THEN BitLenBytes(Tail(bytes))
    ELSE LET h == bytes[1]
             hb == CHOOSE n \in 1..8 : Pow2(n - 1) <= h /\ h < Pow2(n)
         IN 8 * (Len(bytes) - 1) + hb

Xor(a, b) == (a + b) % 2
=============================================================================
