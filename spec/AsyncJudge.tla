----------------------------- MODULE AsyncJudge -----------------------------
(* Property-level judges for the asyncio drivers, evaluated on observations   *)
(* of the real drivers run under the virtual event loop (harness/drivers.py): *)
(*   TxnAtomic     (C15)  the wire log is a concatenation of whole caller     *)
(*                        units, device-type prefixes adjacent, everybody     *)
(*                        done, lock free, sequences closed                   *)
(*   AnswerPairing (C16)  each command gets its own answer, typed by the      *)
(*                        command                                             *)
(*   Recovery      (C17)  loss / silence: prompt failure, clean recovery      *)
(* wire entry: [task, frame, bits, twice, outcome <<kind, v>>]                *)
(* caller: [name, mode "send"|"sequence", unit : Seq([frame, bits, dt, twice, *)
(*          query, resp]), results : Seq([k, cls, raw]), exc, closed, done]   *)
EXTENDS CmdCodec, Json, IOUtils, SequencesExt, TLC

Recs == ndJsonDeserialize(IOEnv.SHARD)
Mode == IOEnv.MODE

VARIABLE i
Init == i \in 1..Len(Recs)
Next == UNCHANGED i
Spec == Init /\ [][Next]_i

Fail(c, at) == [ok |-> FALSE, clause |-> c, at |-> at]
Pass == [ok |-> TRUE, clause |-> "", at |-> 0]

EDTRow == GearSpecial102[CHOOSE k \in 1..Len(GearSpecial102) : GearSpecial102[k][2] = "EnableDeviceType"]
EDTFrame(dt) == EncGearSpecial(EDTRow, dt)

\* the frames a caller's command must put on the wire: the command, preceded by ENABLE DEVICE TYPE when it needs one
CmdWire(c) == (IF c.dt # 0 THEN << <<EDTFrame(c.dt), 16>> >> ELSE <<>>) \o << <<c.frame, c.bits>> >>
RECURSIVE Flatten(_)
Flatten(ss) == IF ss = <<>> THEN <<>> ELSE ss[1] \o Flatten(Tail(ss))
\* units of a caller: single sends are one unit per command, a sequence is one unit
Units(cl) == IF cl.mode = "send" THEN [k \in 1..Len(cl.unit) |-> CmdWire(cl.unit[k])]
             ELSE << Flatten([k \in 1..Len(cl.unit) |-> CmdWire(cl.unit[k])]) >>

\* positions in the wire log of the entries written by a task
Positions(wire, task) == SelectSeq([k \in 1..Len(wire) |-> k], LAMBDA k : wire[k].task = task)

\* ---- C15 -----------------------------------------------------------------------------------
CallerAtomic(wire, cl) ==
    LET pos == Positions(wire, cl.name)
        units == Units(cl)
        want == Flatten(units)
        got == [k \in 1..Len(pos) |-> <<wire[pos[k]].frame, wire[pos[k]].bits>>]
        \* index (in want) where each unit starts
        starts == [u \in 1..Len(units) |-> 1 + Len(Flatten(SubSeq(units, 1, u - 1)))]
    IN IF got # want THEN "frames-of-caller-differ-from-its-units"
       ELSE IF \E u \in 1..Len(units) : \E j \in 0..(Len(units[u]) - 2) :
                  pos[starts[u] + j + 1] # pos[starts[u] + j] + 1
            THEN "unit-interleaved-with-another-caller"
       ELSE ""

TxnAtomic(r) ==
    LET bad == {k \in 1..Len(r.callers) : r.callers[k].exc = "none" /\ CallerAtomic(r.wire, r.callers[k]) # ""}
        unknown == {k \in 1..Len(r.wire) : \A j \in 1..Len(r.callers) : r.callers[j].name # r.wire[k].task}
    IN IF r.info.loop_exc # "none" THEN Fail("event-loop:" \o r.info.loop_exc, 0)
       ELSE IF r.out.hung # <<>> THEN Fail("caller-never-completed:" \o r.out.hung[1], 0)
       ELSE IF \E k \in 1..Len(r.callers) : r.callers[k].done # 1 THEN Fail("caller-not-done", 0)
       ELSE IF \E k \in 1..Len(r.callers) : r.callers[k].exc \notin {"none", "CancelledError"}
            THEN Fail("caller-raised:" \o r.callers[CHOOSE k \in 1..Len(r.callers) : r.callers[k].exc \notin {"none", "CancelledError"}].exc, 0)
       ELSE IF bad # {} THEN LET k == CHOOSE x \in bad : TRUE IN Fail(CallerAtomic(r.wire, r.callers[k]) \o ":" \o r.callers[k].name, k)
       ELSE IF unknown # {} THEN Fail("frame-from-nobody", CHOOSE k \in unknown : TRUE)
       ELSE IF r.lock_free # 1 THEN Fail("transaction-lock-still-held", 0)
       ELSE IF \E k \in 1..Len(r.callers) : r.callers[k].mode = "sequence" /\ r.callers[k].closed # 1
            THEN Fail("sequence-not-closed", 0)
       ELSE Pass

\* ---- C16 -----------------------------------------------------------------------------------
\* what send() must return for a command given the outcome the gateway assigned to its wire entry
SerialDrv(d) == d \in {"luba", "sci"}
WantRaw(drv, outcome) ==
    IF outcome[1] = "val" THEN {<<"val", outcome[2]>>}
    ELSE IF outcome[1] = "none" THEN {<<"none", 0>>}
    ELSE IF SerialDrv(drv) THEN {<<"none", 0>>}          \* serial gateways only log a framing error
    ELSE {<<"err", 255>>}

CallerPairing(drv, wire, cl) ==
    LET pos == Positions(wire, cl.name)
        \* wire entries of the caller that are not ENABLE DEVICE TYPE prefixes, in order
        cmdpos == SelectSeq(pos, LAMBDA k : ~(wire[k].bits = 16 /\ wire[k].frame \div 256 = 193))
        n == Len(cl.results)
        bad == {k \in 1..n :
                  LET c == cl.unit[k]
                      res == cl.results[k]
                  IN IF c.query = 0 THEN res.k # "none"
                     ELSE ~(res.k = "resp" /\ res.cls = c.resp /\ k <= Len(cmdpos)
                            /\ <<res.raw[1], res.raw[2]>> \in WantRaw(drv, <<wire[cmdpos[k]].outcome[1], wire[cmdpos[k]].outcome[2]>>))}
    IN IF n # Len(cl.unit) THEN "missing-results"
       ELSE IF bad = {} THEN ""
       ELSE LET k == CHOOSE x \in bad : \A y \in bad : x <= y IN
            IF cl.unit[k].query = 0 THEN "answer-for-command-without-answer"
            ELSE IF cl.results[k].k # "resp" THEN "no-response-object-for-query"
            ELSE IF cl.results[k].cls # cl.unit[k].resp THEN "response-not-typed-by-command:" \o cl.results[k].cls
            ELSE "answer-of-another-command-or-wrong-value"

AnswerPairing(r) ==
    LET bad == {k \in 1..Len(r.callers) : r.callers[k].exc = "none" /\ CallerPairing(r.driver, r.wire, r.callers[k]) # ""}
    IN IF r.info.loop_exc # "none" THEN Fail("event-loop:" \o r.info.loop_exc, 0)
       ELSE IF r.out.hung # <<>> THEN Fail("caller-never-completed:" \o r.out.hung[1], 0)
       ELSE IF \E k \in 1..Len(r.callers) : r.callers[k].exc # "none"
            THEN Fail("caller-raised:" \o r.callers[CHOOSE k \in 1..Len(r.callers) : r.callers[k].exc # "none"].exc, 0)
       ELSE IF bad # {} THEN LET k == CHOOSE x \in bad : TRUE IN
            Fail(CallerPairing(r.driver, r.wire, r.callers[k]) \o ":" \o r.callers[k].name, k)
       ELSE Pass

Verdict(r) == CASE Mode = "c15" -> TxnAtomic(r) [] Mode = "c16" -> AnswerPairing(r)

Judge == LET r == Recs[i]
             v == Verdict(r)
         IN v.ok \/ PrintT(<<"REJECT", r.id, v.clause, v.at>>)
=============================================================================
