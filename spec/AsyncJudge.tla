----------------------------- MODULE AsyncJudge -----------------------------
(* Property-level judges for the asyncio drivers, evaluated on observations   *)
(* of the real drivers run under the virtual event loop (harness/drivers.py): *)
(*   TxnAtomic     (C15)  the wire log is a concatenation of whole caller     *)
(*                        units, device-type prefixes adjacent, everybody     *)
(*                        done, lock free, sequences closed                   *)
(*   AnswerPairing (C16)  each command gets its own answer, typed by the      *)
(*                        command                                             *)
(*   Recovery      (C17)  loss / silence: prompt failure, clean recovery      *)
(* wire entry: [task, frame, bits, twice, outcome <<kind, v>>]                *)
(* caller: [name, mode "send"|"sequence", unit : Seq([frame, bits, dt, twice, *)
(*          query, resp]), results : Seq([k, cls, raw]), exc, closed, done]   *)
EXTENDS CmdCodec, Json, IOUtils, SequencesExt, TLC

Recs == ndJsonDeserialize(IOEnv.SHARD)
Mode == IOEnv.MODE

VARIABLE i
Init == i \in 1..Len(Recs)
Next == UNCHANGED i
Spec == Init /\ [][Next]_i

Fail(c, at) == [ok |-> FALSE, clause |-> c, at |-> at]
Pass == [ok |-> TRUE, clause |-> "", at |-> 0]

EDTRow == GearSpecial102[CHOOSE k \in 1..Len(GearSpecial102) : GearSpecial102[k][2] = "EnableDeviceType"]
EDTFrame(dt) == EncGearSpecial(EDTRow, dt)

\* the frames a caller's command must put on the wire: the command, preceded by ENABLE DEVICE TYPE when it needs one
CmdWire(c) == (IF c.dt # 0 THEN << <<EDTFrame(c.dt), 16>> >> ELSE <<>>) \o << <<c.frame, c.bits>> >>
RECURSIVE Flatten(_)
Flatten(ss) == IF ss = <<>> THEN <<>> ELSE ss[1] \o Flatten(Tail(ss))
\* units of a caller: single sends (and power-supply requests) are one unit per command, a sequence is one unit
Units(cl) == IF cl.mode \in {"send", "power"} THEN [k \in 1..Len(cl.unit) |-> CmdWire(cl.unit[k])]
             ELSE << Flatten([k \in 1..Len(cl.unit) |-> CmdWire(cl.unit[k])]) >>

\* positions in the wire log of the entries written by a task
Positions(wire, task) == SelectSeq([k \in 1..Len(wire) |-> k], LAMBDA k : wire[k].task = task)

\* every command frame of a caller that needs a device type is immediately preceded, on the wire, by its own ENABLE
\* DEVICE TYPE -- also when the command is written again after a reconnection (C15 under faults, judged with C17)
PrefixBroken(wire, cl) ==
    {k \in 1..Len(wire) :
        /\ wire[k].task = cl.name
        /\ \E j \in 1..Len(cl.unit) : cl.unit[j].dt # 0 /\ cl.unit[j].frame = wire[k].frame /\ cl.unit[j].bits = wire[k].bits
        /\ ~\E j \in 1..Len(cl.unit) : /\ cl.unit[j].dt # 0 /\ cl.unit[j].frame = wire[k].frame /\ cl.unit[j].bits = wire[k].bits
                                        /\ k > 1 /\ wire[k - 1].task = cl.name /\ wire[k - 1].bits = 16
                                        /\ wire[k - 1].frame = EDTFrame(cl.unit[j].dt)}

\* ---- C15 -----------------------------------------------------------------------------------
CallerAtomic(wire, cl) ==
    LET pos == Positions(wire, cl.name)
        units == Units(cl)
        want == Flatten(units)
        got == [k \in 1..Len(pos) |-> <<wire[pos[k]].frame, wire[pos[k]].bits>>]
        \* index (in want) where each unit starts
        starts == [u \in 1..Len(units) |-> 1 + Len(Flatten(SubSeq(units, 1, u - 1)))]
    IN IF got # want THEN "frames-of-caller-differ-from-its-units"
       ELSE IF \E u \in 1..Len(units) : \E j \in 0..(Len(units[u]) - 2) :
                  pos[starts[u] + j + 1] # pos[starts[u] + j] + 1
            THEN "unit-interleaved-with-another-caller"
       ELSE ""

OkExc(cl) == {"none", "CancelledError"} \cup (IF cl.badclose = 1 THEN {"RuntimeError"} ELSE {})

TxnAtomic(r) ==
    LET bad == {k \in 1..Len(r.callers) : r.callers[k].exc = "none" /\ CallerAtomic(r.wire, r.callers[k]) # ""}
        unknown == {k \in 1..Len(r.wire) : \A j \in 1..Len(r.callers) : r.callers[j].name # r.wire[k].task}
    IN IF r.info.loop_exc # "none" THEN Fail("event-loop:" \o r.info.loop_exc, 0)
       \* a send on a serial driver that has not been connected yet is refused with IOError
       ELSE IF \E k \in 1..Len(r.presend) : r.presend[k] \notin {"IOError", "OSError"} THEN Fail("send-before-connect-not-refused", 0)
       ELSE IF r.out.hung # <<>> THEN Fail("caller-never-completed:" \o r.out.hung[1], 0)
       ELSE IF \E k \in 1..Len(r.callers) : r.callers[k].done # 1 THEN Fail("caller-not-done", 0)
       \* (a cancelled sequence whose own clean-up misbehaves at close() ends with RuntimeError; everybody else is judged as usual)
       ELSE IF \E k \in 1..Len(r.callers) : r.callers[k].exc \notin OkExc(r.callers[k])
            THEN Fail("caller-raised:" \o r.callers[CHOOSE k \in 1..Len(r.callers) : r.callers[k].exc \notin OkExc(r.callers[k])].exc, 0)
       ELSE IF bad # {} THEN LET k == CHOOSE x \in bad : TRUE IN Fail(CallerAtomic(r.wire, r.callers[k]) \o ":" \o r.callers[k].name, k)
       ELSE IF unknown # {} THEN Fail("frame-from-nobody", CHOOSE k \in unknown : TRUE)
       ELSE IF \E k \in 1..Len(r.callers) : r.callers[k].aux_ok # 1 THEN Fail("sleep-or-progress-item-mishandled", 0)
       ELSE IF r.lock_free # 1 THEN Fail("transaction-lock-still-held", 0)
       ELSE IF \E k \in 1..Len(r.callers) : r.callers[k].mode = "sequence" /\ r.callers[k].closed # 1 /\ r.callers[k].badclose # 1
            THEN Fail("sequence-not-closed", 0)
       ELSE Pass

\* ---- C16 -----------------------------------------------------------------------------------
\* what send() must return for a command given the outcome the gateway assigned to its wire entry
SerialDrv(d) == d \in {"luba", "sci"}
WantRaw(drv, outcome) ==
    IF outcome[1] = "val" THEN {<<"val", outcome[2]>>}
    ELSE IF outcome[1] = "none" THEN {<<"none", 0>>}
    ELSE IF SerialDrv(drv) THEN {<<"none", 0>>}          \* serial gateways only log a framing error
    ELSE {<<"err", 255>>}

CallerPairing(drv, wire, cl) ==
    LET pos == Positions(wire, cl.name)
        \* wire entries of the caller that are not ENABLE DEVICE TYPE prefixes, in order.  A prefix is an ENABLE DEVICE
        \* TYPE frame directly followed (among the caller's entries) by a command of the caller that needs that device type;
        \* an ENABLE DEVICE TYPE the application sent itself is a command like any other
        IsEDT(k) == wire[k].bits = 16 /\ wire[k].frame \div 256 = 193
        \* (only a caller whose unit contains such a frame of its own needs the closer look; for everybody else every
        \* ENABLE DEVICE TYPE entry is a prefix -- also one that is written again after a reconnection)
        Explicit(f) == \E u \in 1..Len(cl.unit) : cl.unit[u].frame = f /\ cl.unit[u].bits = 16 /\ cl.unit[u].dt = 0
        IsPfx(j) == /\ IsEDT(pos[j])
                    /\ \/ ~Explicit(wire[pos[j]].frame)
                       \/ /\ j < Len(pos)
                          /\ \E u \in 1..Len(cl.unit) : /\ cl.unit[u].dt # 0 /\ cl.unit[u].dt = wire[pos[j]].frame % 256
                                                         /\ cl.unit[u].frame = wire[pos[j + 1]].frame
                                                         /\ cl.unit[u].bits = wire[pos[j + 1]].bits
        keepix == SelectSeq([j \in 1..Len(pos) |-> j], LAMBDA j : ~IsPfx(j))
        nopfx == [j \in 1..Len(keepix) |-> pos[keepix[j]]]
        \* a caller that asked for transparent retry may put a command on the wire again after a reconnection:
        \* its answer is the one to the last attempt
        cmdpos == IF cl.exceptions = 1 THEN nopfx
                  ELSE SelectSeq([j \in 1..Len(nopfx) |-> IF j < Len(nopfx) /\ wire[nopfx[j]].frame = wire[nopfx[j + 1]].frame THEN 0 ELSE nopfx[j]],
                                 LAMBDA x : x # 0)
        n == Len(cl.results)
        bad == {k \in 1..n :
                  LET c == cl.unit[k]
                      res == cl.results[k]
                  IN IF k <= Len(cmdpos) /\ wire[cmdpos[k]].outcome[1] = "broken" THEN res.k # "exc"
                     ELSE IF c.query = 0 THEN res.k # "none"
                     ELSE ~(res.k = "resp" /\ res.cls = c.resp /\ k <= Len(cmdpos)
                            /\ <<res.raw[1], res.raw[2]>> \in WantRaw(drv, <<wire[cmdpos[k]].outcome[1], wire[cmdpos[k]].outcome[2]>>))}
    IN IF n # Len(cl.unit) THEN "missing-results"
       ELSE IF bad = {} THEN ""
       ELSE LET k == CHOOSE x \in bad : \A y \in bad : x <= y IN
            \* the exchange with the gateway itself failed (connection reset): that is not something that happened on the
            \* bus, and must not be handed to the caller as if it were
            IF k <= Len(cmdpos) /\ wire[cmdpos[k]].outcome[1] = "broken" THEN "transport-failure-reported-as-bus-outcome"
            ELSE IF cl.unit[k].query = 0 THEN "answer-for-command-without-answer"
            ELSE IF cl.results[k].k # "resp" THEN "no-response-object-for-query"
            ELSE IF cl.results[k].cls # cl.unit[k].resp THEN "response-not-typed-by-command:" \o cl.results[k].cls
            ELSE "answer-of-another-command-or-wrong-value"

AnswerPairing(r) ==
    LET bad == {k \in 1..Len(r.callers) : r.callers[k].exc = "none" /\ CallerPairing(r.driver, r.wire, r.callers[k]) # ""}
    IN IF r.info.loop_exc # "none" THEN Fail("event-loop:" \o r.info.loop_exc, 0)
       ELSE IF r.out.hung # <<>> THEN Fail("caller-never-completed:" \o r.out.hung[1], 0)
       ELSE IF \E k \in 1..Len(r.callers) : r.callers[k].exc \notin {"none", "CancelledError"}
            THEN Fail("caller-raised:" \o r.callers[CHOOSE k \in 1..Len(r.callers) : r.callers[k].exc \notin {"none", "CancelledError"}].exc, 0)
       ELSE IF bad # {} THEN LET k == CHOOSE x \in bad : TRUE IN
            Fail(CallerPairing(r.driver, r.wire, r.callers[k]) \o ":" \o r.callers[k].name, k)
       ELSE Pass

\* ---- C17 -----------------------------------------------------------------------------------
\* r.params = [limit (-1 = none), interval (ms), expect_failed, timeout_confirm (ms), timeout_answer (ms)]; times in r are
\* milliseconds of virtual time
AllowedSendExc == {"none", "CommunicationError", "CancelledError"}

\* witness for the known finding: a caller was cancelled while its command was in flight (frame written, results
\* incomplete) on a driver whose gateway protocol carries no command identifier -- the orphaned confirmation / answer is
\* then taken by the next command
NoCommandIds(d) == d \in {"hasseb", "luba", "sci"}
Orphan(r) ==
    IF NoCommandIds(r.driver) /\ \E j \in 1..Len(r.callers) :
          /\ r.callers[j].cancelled = 1 /\ r.callers[j].exc = "CancelledError"
          /\ Len(r.callers[j].results) < Len(r.callers[j].unit)
          /\ Positions(r.wire, r.callers[j].name) # <<>>
    THEN ":after-a-send-cancelled-in-flight" ELSE ""

RecoveryC(r, late) ==      \* late: leave the clauses the known finding explains for a second pass
    LET S == [k \in 1..Len(r.status) |-> r.status[k][2]]
        n == Len(S)
        outage == {k \in 1..(Len(r.opens) - 1) : r.opens[k][2] = 0}       \* a failed attempt followed by another attempt
        \* (a pause between two rounds of attempts -- the driver had given up and the application called connect() again at
        \* call_at -- is not a gap between attempts of one round)
        badgap == {k \in outage : r.opens[k + 1][1] - r.opens[k][1] # r.params.interval
                                   /\ ~(r.params.call_at >= 0 /\ r.opens[k][1] < r.params.call_at /\ r.params.call_at <= r.opens[k + 1][1])}
        badpair == {k \in 1..Len(r.callers) : r.callers[k].exc = "none" /\ CallerPairing(r.driver, r.wire, r.callers[k]) # ""}
        serial == SerialDrv(r.driver)
        okexc == IF serial THEN {"none", "TimeoutError", "CancelledError"} ELSE AllowedSendExc
        slow == {k \in 1..Len(r.callers) : r.callers[k].exc = "TimeoutError" /\
                   r.callers[k].t1 - r.callers[k].t0 > Len(r.callers[k].unit) * (r.params.timeout_confirm + r.params.timeout_answer) + 1}
    IN IF r.info.loop_exc # "none" THEN Fail("event-loop:" \o r.info.loop_exc, 0)
       \* a send issued after the driver has given up (reconnect limit reached, "failed") waits for a connection the
       \* application has to request itself: such callers are not judged
       ELSE IF \E k \in 1..Len(r.callers) : r.callers[k].name \in {r.out.hung[j] : j \in 1..Len(r.out.hung)}
                                             /\ ~(r.params.expect_failed = 1 /\ r.callers[k].after_loss = 1)
            THEN Fail("caller-hangs:" \o r.out.hung[1], 0)
       ELSE IF \E k \in 1..Len(r.callers) : r.callers[k].exc \notin okexc
                                             /\ ~(r.params.expect_failed = 1 /\ r.callers[k].after_loss = 1)
            THEN Fail("send-raised:" \o r.callers[CHOOSE k \in 1..Len(r.callers) : r.callers[k].exc \notin okexc].exc, 0)
       ELSE IF \E k \in 1..Len(r.callers) : r.callers[k].exc = "CommunicationError" /\ r.callers[k].exceptions = 0
            THEN Fail("CommunicationError-although-exceptions-off", 0)
       ELSE IF \E k \in 1..Len(r.callers) : r.callers[k].exc = "CancelledError" /\ r.callers[k].cancelled = 0
                                             /\ ~(r.params.expect_failed = 1 /\ r.callers[k].after_loss = 1)
            THEN Fail("spurious-cancellation", 0)
       ELSE IF \E k \in 1..Len(r.callers) : PrefixBroken(r.wire, r.callers[k]) # {}
            THEN LET k == CHOOSE x \in 1..Len(r.callers) : PrefixBroken(r.wire, r.callers[x]) # {} IN
                 Fail("command-without-its-device-type-prefix:" \o r.callers[k].name, CHOOSE w \in PrefixBroken(r.wire, r.callers[k]) : TRUE)
       ELSE IF badpair # {} /\ ~(late /\ Orphan(r) # "") THEN LET k == CHOOSE x \in badpair : TRUE IN
            Fail(CallerPairing(r.driver, r.wire, r.callers[k]) \o ":" \o r.callers[k].name \o Orphan(r), k)
       ELSE IF slow # {} THEN Fail("timeout-later-than-documented", CHOOSE k \in slow : TRUE)
       ELSE IF r.lock_free # 1 THEN Fail("transaction-lock-still-held", 0)
       ELSE IF r.out.tail.exc # "none" THEN Fail("further-sends-failed:" \o r.out.tail.exc, r.out.tail.n)
       ELSE IF r.out.tail.wrong # 0 /\ ~(late /\ Orphan(r) # "") THEN Fail("further-sends-got-wrong-answers" \o Orphan(r), r.out.tail.wrong)
       ELSE IF badgap # {} THEN Fail("reconnect-attempts-not-at-configured-interval", CHOOSE k \in badgap : TRUE)
       \* the application called connect() again after 'failed' and the device came back within the limit of that second
       \* round: the driver is connected when the further sends begin
       ELSE IF ~serial /\ r.params.call_at >= 0 /\ (n = 0 \/ S[n] # "connected")
            THEN Fail("second-round-of-reconnect-attempts-did-not-reconnect", n)
       ELSE IF ~serial /\ r.params.expect_failed = 1 /\ (n = 0 \/ S[n] # "failed") THEN Fail("failed-not-reported-after-reconnect-limit", n)
       ELSE IF ~serial /\ r.params.expect_failed = 0 /\ \E k \in 1..n : S[k] = "failed" THEN Fail("failed-reported-without-reaching-limit", 0)
       ELSE IF ~serial /\ r.params.limit >= 0 /\ r.params.expect_failed = 1
               /\ Cardinality({k \in 1..Len(r.opens) : r.opens[k][2] = 0 /\ r.opens[k][1] > r.params.lost_at}) > r.params.limit
            THEN Fail("more-reconnect-attempts-than-the-limit", 0)
       ELSE IF ~serial /\ n > 0 /\ r.params.expect_failed = 0 /\ r.present_at_end = 1 /\ S[n] # "connected"
            THEN Fail("not-reported-connected-after-device-returned", n)
       ELSE IF ~serial /\ \E k \in 1..(n - 1) : S[k] = "connected" /\ S[k + 1] = "connected" THEN Fail("connected-reported-twice", 0)
       \* the handshake is repeated on the connection that is open at the end: version asked, then serial, and the
       \* driver holds what this connection answered (not leftovers of an earlier, interrupted handshake)
       ELSE IF r.hs.applies = 1 /\ r.hs.inits # <<0, 2>> THEN Fail("handshake-not-repeated-after-reconnection", Len(r.hs.inits))
       ELSE IF r.hs.applies = 1 /\ (r.hs.fw # r.hs.want_fw \/ r.hs.serial # r.hs.want_serial) THEN Fail("handshake-result-stale-or-wrong", 0)
       ELSE Pass

\* every other clause is evaluated before the ones the known finding explains, so that it cannot mask anything
Recovery(r) == LET v == RecoveryC(r, TRUE) IN IF ~v.ok THEN v ELSE RecoveryC(r, FALSE)

Verdict(r) == CASE Mode = "c15" -> TxnAtomic(r) [] Mode = "c16" -> AnswerPairing(r) [] Mode = "c17" -> Recovery(r)

Judge == LET r == Recs[i]
             v == Verdict(r)
         IN v.ok \/ PrintT(<<"REJECT", r.id, v.clause, v.at>>)
=============================================================================
