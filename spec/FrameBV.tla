------------------------------ MODULE FrameBV ------------------------------
(* C05 -- dali.frame.Frame as a fixed-width unsigned bit vector.            *)
(*                                                                          *)
(* A frame is [w |-> width, b |-> bit vector of that width (LSB first)].    *)
(* A pool is a sequence of frames.  Sem(pool, e) gives, for one operation   *)
(* event e (shape: see harness/c05.py), the set of exception classes that   *)
(* MUST be raised (empty = the operation must succeed), the expected result *)
(* and the pool afterwards.  The same operator is used by the exhaustive    *)
(* state graph (FrameBVModel), by the per-transition table judge and by the *)
(* history fold (FrameBVJudge).                                             *)
EXTENDS Bits, TLC

AnyExc == {"TypeError", "ValueError", "IndexError", "OverflowError"}
IdxExc == {"IndexError"}                       \* named in the docstrings
LooseIdxExc == {"IndexError", "ValueError", "TypeError"}

Frame(w, b) == [w |-> w, b |-> b]

NoRes == [rt |-> "none", bits |-> <<>>, flag |-> FALSE, bytes |-> <<>>, w |-> 0]
ResFlag(x) == [NoRes EXCEPT !.rt = "bool", !.flag = x]
ResNat(b) == [NoRes EXCEPT !.rt = "int", !.bits = Trim(b)]
ResLen(n) == [NoRes EXCEPT !.rt = "int", !.w = n]
ResBytes(t, s) == [NoRes EXCEPT !.rt = t, !.bytes = s]
ResFrame == [NoRes EXCEPT !.rt = "Frame"]

Sem_(exc, res, post) == [exc |-> exc, res |-> res, post |-> post]

PutSlot(pool, dst, fr) ==
    IF dst = Len(pool) + 1 THEN Append(pool, fr) ELSE [pool EXCEPT ![dst] = fr]

\* ---- index validation ----------------------------------------------------
BitKeyExc(w, kind, k) ==
    IF kind # "int" THEN {"TypeError"}
    ELSE IF k < 0 \/ k >= w THEN IdxExc ELSE {}

SliceExc(w, ak, a, bk, b, step) ==
    (IF ak # "int" \/ bk # "int" THEN {"TypeError"} ELSE {})
    \cup (IF step \notin {0, 1} THEN AnyExc ELSE {})            \* "not supported"
    \cup (IF ak = "int" /\ bk = "int" /\ (a < 0 \/ b < 0) THEN LooseIdxExc ELSE {})
    \cup (IF ak = "int" /\ bk = "int" /\ (a >= w \/ b >= w) THEN
             (IF a < 0 \/ b < 0 THEN LooseIdxExc ELSE IdxExc) ELSE {})

Hi(a, b) == IF a >= b THEN a ELSE b
Lo(a, b) == IF a >= b THEN b ELSE a

\* ---- the operations --------------------------------------------------------
Sem(pool, e) ==
    LET fr == pool[e.f]
        w  == fr.w
        bb == fr.b
    IN
    CASE e.op = "getbit" ->
           LET x == BitKeyExc(w, e.ak, e.a) IN
           IF x # {} THEN Sem_(x, NoRes, pool)
           ELSE Sem_({}, ResFlag(bb[e.a + 1] = 1), pool)
      [] e.op = "setbit" ->
           LET x == BitKeyExc(w, e.ak, e.a)
               \* a value that cannot be truth-tested (an array-like object whose __bool__ raises) is no bit value: the
               \* write is refused and, like every refused write, leaves the frame as it was
               vx == IF e.val.t = "untruth" THEN AnyExc ELSE {} IN
           IF x \cup vx # {} THEN Sem_(x \cup vx, NoRes, pool)
           ELSE Sem_({}, NoRes,
                     [pool EXCEPT ![e.f].b = [bb EXCEPT ![e.a + 1] = IF e.val.truth THEN 1 ELSE 0]])
      [] e.op = "getslice" ->
           LET x == SliceExc(w, e.ak, e.a, e.bk, e.b, e.step) IN
           IF x # {} THEN Sem_(x, NoRes, pool)
           ELSE Sem_({}, ResNat(Slice(bb, Hi(e.a, e.b), Lo(e.a, e.b))), pool)
      [] e.op = "setslice" ->
           LET x == SliceExc(w, e.ak, e.a, e.bk, e.b, e.step)
               span == Hi(e.a, e.b) - Lo(e.a, e.b) + 1
               vx == IF e.val.t # "int" THEN AnyExc
                     ELSE IF e.val.neg THEN AnyExc
                     ELSE IF x = {} /\ Len(e.val.b) > span THEN AnyExc
                     ELSE {}
           IN IF x \cup vx # {} THEN Sem_(x \cup vx, NoRes, pool)
              ELSE Sem_({}, NoRes,
                        [pool EXCEPT ![e.f].b =
                            SetSlice(bb, Hi(e.a, e.b), Lo(e.a, e.b), Pad(e.val.b, span))])
      [] e.op = "as_integer" -> Sem_({}, ResNat(bb), pool)
      [] e.op = "as_byte_sequence" -> Sem_({}, ResBytes("list", BytesBE(bb, NBytes(w))), pool)
      [] e.op = "pack" -> Sem_({}, ResBytes("bytes", BytesBE(bb, NBytes(w))), pool)
      [] e.op = "pack_len" ->
           IF e.ak # "int" THEN Sem_(AnyExc, NoRes, pool)
           ELSE IF e.a < 0 THEN Sem_(AnyExc, NoRes, pool)
           ELSE IF Len(Trim(bb)) > 8 * e.a THEN Sem_({"OverflowError"}, NoRes, pool)
           ELSE Sem_({}, ResBytes("bytes", BytesBE(bb, e.a)), pool)
      [] e.op = "len" -> Sem_({}, ResLen(w), pool)
      [] e.op = "eq" ->
           IF e.g = 0 THEN Sem_({}, ResFlag(FALSE), pool)
           ELSE Sem_({}, ResFlag(pool[e.g].w = w /\ pool[e.g].b = bb), pool)
      [] e.op = "ne" ->
           IF e.g = 0 THEN Sem_({}, ResFlag(TRUE), pool)
           ELSE Sem_({}, ResFlag(~(pool[e.g].w = w /\ pool[e.g].b = bb)), pool)
      [] e.op = "contains" ->
           Sem_({}, ResFlag(CASE e.val.t = "true" -> ~AllZero(bb)
                              [] e.val.t = "false" -> ~AllOne(bb)
                              [] OTHER -> FALSE), pool)
      [] e.op = "add" ->
           IF e.g = 0 THEN Sem_(AnyExc, NoRes, pool)
           ELSE Sem_({}, ResFrame,
                     PutSlot(pool, e.dst, Frame(w + pool[e.g].w, pool[e.g].b \o bb)))
      [] e.op = "new" ->
           \* e.a = requested width (kind e.ak), e.val = initial data
           IF e.ak # "int" THEN Sem_(AnyExc, NoRes, pool)
           ELSE IF e.a < 1 THEN Sem_(AnyExc, NoRes, pool)
           ELSE IF e.val.t = "int" THEN
                  IF e.val.neg \/ Len(e.val.b) > e.a THEN Sem_(AnyExc, NoRes, pool)
                  ELSE Sem_({}, ResFrame, PutSlot(pool, e.dst, Frame(e.a, Pad(e.val.b, e.a))))
           ELSE IF e.val.t = "bytes" THEN
                  IF BitLenBytes(e.val.bytes) > e.a THEN Sem_(AnyExc, NoRes, pool)
                  ELSE Sem_({}, ResFrame,
                            PutSlot(pool, e.dst, Frame(e.a, BitsOfBytesBE(e.val.bytes, e.a))))
           ELSE Sem_(AnyExc, NoRes, pool)

\* ---- judging one logged event against Sem ----------------------------------
\* returns "" when the event conforms, else the name of the failing clause
EventClause(pool, e) ==
    LET s == Sem(pool, e) IN
    IF s.exc # {} THEN
        IF e.res.k # "exc" THEN "must-raise"
        ELSE IF e.res.cls \notin s.exc THEN "exception-class"
        ELSE IF e.post # pool THEN "exception-mutated-state"
        ELSE ""
    ELSE
        IF e.res.k # "ok" THEN "unexpected-exception"
        ELSE IF s.res.rt # "none" /\ e.res.rt # s.res.rt THEN "result-type"
        ELSE IF e.res.bits # s.res.bits THEN "result-value"
        ELSE IF e.res.flag # s.res.flag THEN "result-flag"
        ELSE IF e.res.bytes # s.res.bytes THEN "result-bytes"
        ELSE IF e.res.w # s.res.w THEN "result-len"
        ELSE IF e.post # s.post THEN "post-state"
        ELSE IF \E i \in 1..Len(e.post) :
                   Len(e.post[i].b) # e.post[i].w \/ \E j \in 1..Len(e.post[i].b) : e.post[i].b[j] \notin Bit
             THEN "range-invariant"
        ELSE ""

\* fold over a history; returns [at |-> 0, clause |-> ""] or the first failure
RECURSIVE FoldHistory(_, _, _)
FoldHistory(pool, evs, i) ==
    IF i > Len(evs) THEN [at |-> 0, clause |-> ""]
    ELSE LET c == EventClause(pool, evs[i]) IN
         IF c # "" THEN [at |-> i, clause |-> c]
         ELSE FoldHistory(TLCEval(evs[i].post), evs, i + 1)
=============================================================================
