----------------------------- MODULE SerialTrace -----------------------------
(* Trace validation of the real LUBA / SCI drivers against SerialDriver:      *)
(* lock acquire calls and delayed grants (logging asyncio.Lock installed as   *)
(* the driver's transaction_lock), DALI frames written to the fake transport  *)
(* (with the outcome the fake bus assigned), items delivered to               *)
(* data_received (confirmation / backward frame / framing error),             *)
(* cancellations and caller completion with the values returned.  Taking a    *)
(* confirmation or an answer out of its queue and the two timeouts are        *)
(* silent steps.                                                              *)
EXTENDS SerialDriver, Json, IOUtils

Scn == JsonDeserialize(IOEnv.TRACE)
Trace == Scn.events

TrCallers == {Scn.callers[k].name : k \in 1..Len(Scn.callers)}
CallerRec(c) == Scn.callers[CHOOSE k \in 1..Len(Scn.callers) : Scn.callers[k].name = c]
TrUnit == [c \in TrCallers |-> [k \in 1..Len(CallerRec(c).unit) |->
             [dt |-> CallerRec(c).unit[k].dt # 0, twice |-> CallerRec(c).unit[k].twice = 1, query |-> CallerRec(c).unit[k].query = 1]]]
TrMode == [c \in TrCallers |-> CallerRec(c).mode]
\* the outcome the bus assigned to a caller's i-th command is logged with the write of its command frame
CmdWrites(c) == SelectSeq([k \in 1..Len(Trace) |-> k], LAMBDA k : Trace[k].ev = "write" /\ Trace[k].c = c /\ Trace[k].kind = "cmd")
TrOutcome == [c \in TrCallers |-> [i \in 1..Len(CallerRec(c).unit) |->
                IF i <= Len(CmdWrites(c)) THEN Trace[CmdWrites(c)[i]].outcome ELSE "none"]]
OutVal(c, i) == Trace[CmdWrites(c)[i]].value
TrConfPerTwice == Scn.conf_per_twice
TrAnyAwait == {"lockwait", "confwait", "respwait"}

VARIABLE l
tvars == <<vars, l>>
TraceInit == Init /\ l = 1
Ev == Trace[l]
Is(k) == l <= Len(Trace) /\ Ev.ev = k
Adv == l' = l + 1

\* what a caller sees for a result of the model
Seen(r) == IF r = NoRes THEN <<"none", 0>> ELSE IF r = NoAns THEN <<"noanswer", 0>> ELSE <<"val", OutVal(r[1], r[2])>>

TraceNext ==
    \/ Is("acq_call") /\ Start(Ev.c) /\ Adv
    \/ Is("acq_got") /\ Grant(Ev.c) /\ Adv
    \/ Is("write") /\ WriteStep(Ev.c) /\ wire'[Len(wire')][3] = Ev.kind /\ Adv
    \/ Is("deliver") /\ Deliver /\ Head(gw).kind = Ev.kind /\ Adv
    \/ Is("cancel_req") /\ CancelReq(Ev.c) /\ Adv
    \/ Is("cancel") /\ CancelRun(Ev.c) /\ Adv
    \/ Is("done") /\ pc[Ev.c] = "done" /\ exc[Ev.c] = Ev.exc
                  /\ (Mode[Ev.c] = "send" \/ Ev.exc = "none" =>
                        /\ Len(results[Ev.c]) = Ev.nres
                        /\ \A i \in 1..Ev.nres : Seen(results[Ev.c][i]) = <<Ev.res[i][1], Ev.res[i][2]>>)
                  /\ UNCHANGED vars /\ Adv
    \* internal, unlogged steps of the driver
    \/ (\E c \in Callers : ConfStep(c) \/ RespStep(c) \/ ConfTimeout(c) \/ RespTimeout(c)) /\ UNCHANGED l

TraceSpec == TraceInit /\ [][TraceNext]_tvars
Consumed == l = Len(Trace) + 1
NotConsumed == ~Consumed
ASSUME TLCSet(1, 0)
Progress == TLCSet(1, IF l > TLCGet(1) THEN l ELSE TLCGet(1))
Report == PrintT(<<"MAXL", TLCGet(1), Len(Trace)>>)
=============================================================================
