---------------------------- MODULE CommClauses ----------------------------
(* The clauses of C07 as predicates over: the initial configuration           *)
(* c = [shorts, storeOK, permitted, readdress, dryrun], the final short       *)
(* addresses and initialisation states, the outcome ("ok" or an exception     *)
(* class name), the number of commands yielded.  255 = no short address.      *)
EXTENDS Naturals, Sequences, FiniteSets

NoShort == 255

Units(c) == 1..Len(c.shorts)
Part(c) == {g \in Units(c) : c.readdress \/ c.shorts[g] = NoShort}
InUse(c) == IF c.readdress THEN {} ELSE {c.shorts[g] : g \in Units(c) \ Part(c)} \ {NoShort}
AvailSet(c) == {c.permitted[j] : j \in 1..Len(c.permitted)} \ InUse(c)
\* short addresses the participants start the search with
StartShort(c, g) == IF c.readdress /\ ~c.dryrun THEN NoShort ELSE c.shorts[g]
Assigned(c, fin) == {g \in Part(c) : fin[g] # StartShort(c, g) \/ (c.dryrun /\ FALSE)}
MinN(x, y) == IF x <= y THEN x ELSE y

P1(c, inits, outcome) == outcome = "ok" => \A g \in Units(c) : inits[g] = "DISABLED"

\* participants hold addresses from the permitted set as long as it lasts
P2(c, fin, outcome) ==
    (outcome = "ok" /\ ~c.dryrun) =>
        /\ \A g \in Part(c) : fin[g] = NoShort \/ fin[g] \in AvailSet(c)
        /\ Cardinality({g \in Part(c) : fin[g] # NoShort}) = MinN(Cardinality(Part(c)), Cardinality(AvailSet(c)))

\* addresses handed out are pairwise distinct and distinct from addresses in use
P3(c, fin, outcome) ==
    (outcome = "ok" /\ ~c.dryrun) =>
        /\ \A g, h \in Part(c) : g # h /\ fin[g] # NoShort => fin[g] # fin[h]
        /\ \A g \in Part(c) : fin[g] # NoShort => fin[g] \notin InUse(c)

\* non-participants keep their address; a dry run changes nothing
P4(c, fin) ==
    /\ \A g \in Units(c) \ Part(c) : fin[g] = c.shorts[g]
    /\ c.dryrun => \A g \in Units(c) : fin[g] = c.shorts[g]

\* a unit that does not store its address makes the sequence raise (and nothing else does)
P5(c, outcome) ==
    /\ outcome \in {"ok", "ProgramShortAddressFailure"}
    /\ outcome = "ProgramShortAddressFailure" => (~c.dryrun /\ \E g \in Part(c) : ~c.storeOK[g])

\* generous closed form, at least twice what the current algorithm needs
Bound(n, rounds) == 200 + rounds * (n + 1) * 250
P6(c, count, rounds) == count <= Bound(Len(c.shorts), rounds)
=============================================================================
