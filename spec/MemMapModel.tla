---------------------------- MODULE MemMapModel ----------------------------
(* Spec-side theorems of MemMap: the map is well formed, MASK / TMASK         *)
(* patterns are disjoint from the valid range, and for every 1- and 2-byte    *)
(* plain number the raw encoding interprets back to the number.  One TLC      *)
(* state per row of the map.                                                  *)
EXTENDS MemMap

VARIABLE i
Init == i \in 1..Len(Map)
Next == UNCHANGED i
Spec == Init /\ [][Next]_i

WellFormed == i # 1 \/ (NoOverlap /\ LockableOnlyWithLock /\ TypesWellFormed)

r == Map[i]
W == IF r[6] = "scaled" THEN r[4] - 1 ELSE r[4]
Ones(w) == [k \in 1..w |-> 255]
OnesM1(w) == [k \in 1..w |-> IF k = w THEN 254 ELSE 255]
Raw(nb) == IF r[6] = "scaled" THEN <<0>> \o nb ELSE nb

MaskPatterns ==
    /\ r[9] => Flag(r, Raw(Ones(W))) = "MASK"
    /\ r[10] => Flag(r, Raw(OnesM1(W))) = "TMASK"
    /\ (~r[9] /\ r[6] \in {"num"} /\ r[8] = "-") => Flag(r, Raw(Ones(W))) = ""

\* plain numbers of 1 and 2 bytes: every in-range number is a value whose interpretation is the number itself
IdealInt(nb) == [k |-> "int", flag |-> "", neg |-> FALSE, bytes |-> nb, digits |-> <<>>, exp |-> 0,
                 small |-> ValOf(nb), s |-> ""]
RoundTrip == (r[6] = "num" /\ r[4] <= 2) =>
    \A n \in 0..(256 ^ r[4] - 1) :
        LET nb == BytesOf(n, r[4]) IN
        Flag(r, nb) = "" => ValueOK(r, nb, IdealInt(nb))
=============================================================================
