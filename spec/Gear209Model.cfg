SPECIFICATION Spec
CONSTANT Chains = 64
INVARIANT SetLaw
INVARIANT LimitLaw
INVARIANT OnceIsNothing
INVARIANT QueryLaw
INVARIANT NeedsDT8
CHECK_DEADLOCK FALSE
