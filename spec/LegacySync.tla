----------------------------- MODULE LegacySync -----------------------------
(* Implementation-shaped model of the synchronous legacy drivers'             *)
(*   dali/driver/hasseb.py   SyncHassebDALIUSBDriver.send / receive           *)
(*   dali/driver/tridonic.py SyncTridonicDALIUSBDriver.send                   *)
(* one label per device access.  A caller sends two commands one after the    *)
(* other; the gateway delivers a script of packets (then "nothing" for ever). *)
(* These drivers are not among the files C16 is anchored in; the model is an  *)
(* extension: it says what they do -- including what they do NOT do, as named *)
(* deviations -- and is bound to the code by replaying every terminal state.  *)
EXTENDS Naturals, Sequences, FiniteSets, TLC

CONSTANTS Driver,      \* "hasseb" | "tridonic"
          MaxLen,      \* longest script
          Polls,       \* hasseb: polls per send (200 in the code); tridonic: reads per send (2)
          CheckSn      \* FALSE: the code as it is (an answer is taken whatever its sequence number)

\* packet kinds (what one read of the device yields)
\*   hasseb:   nodata | ok(v, sn) | ok0 (status OK, length 0) | noans(sn) | inv(sn) | early | sniff(v) | snifferr | junk | none
\*   tridonic: resp(v, sn) | noresp(sn) | complete | bcast | dalis (DALI-side response, not ours) | junk
HKinds == {"nodata", "ok", "ok0", "noans", "inv", "early", "sniff", "junk", "none"}
TKinds == {"resp", "noresp", "complete", "bcast", "dalis", "junk"}
Vals == {7, 200}
\* sn: 1 = the first command's, 2 = the second command's, 0 = neither
Pk(kinds) == {[k |-> k, v |-> v, sn |-> s] : k \in kinds, v \in Vals, s \in {1, 2}}
Canon(p) == \* only deciding packets carry a value / sequence number that matters
    IF p.k \in {"ok", "resp"} THEN p
    ELSE IF p.k \in {"noans", "inv", "noresp"} THEN [p EXCEPT !.v = 7]
    ELSE [p EXCEPT !.v = 7, !.sn = 1]
Packets == {Canon(p) : p \in Pk(IF Driver = "hasseb" THEN HKinds ELSE TKinds)}
Scripts == UNION {[1..n -> Packets] : n \in 0..MaxLen}
Idle == [k |-> IF Driver = "hasseb" THEN "nodata" ELSE "complete", v |-> 7, sn |-> 1]

None == [k |-> "None", v |-> 0]
Silent == [k |-> "silent", v |-> 0]          \* command.response(None)
Val(v) == [k |-> "val", v |-> v]             \* command.response(BackwardFrame(v))
Err == [k |-> "err", v |-> 255]              \* command.response(BackwardFrameError(255))
Sentinel == [k |-> "sentinel", v |-> 0]      \* tridonic: the DALI_USB_NO_RESPONSE object (not a response instance)
RawVal(v) == [k |-> "rawframe", v |-> v]     \* tridonic: a bare BackwardFrame handed to a caller that expected nothing

(* --algorithm Legacy {
  variables
    script \in Scripts,
    expects \in [1..2 -> BOOLEAN],
    pos = 1, c = 1, i = 0,
    pending = FALSE, msg = None,           \* hasseb: _pending, _response_message
    pkt = None,
    reads = <<0, 0>>, writes = <<0, 0>>, result = <<None, None>>,
    ownsn = <<TRUE, TRUE>>;                \* the answer returned carried the command's own sequence number

  macro Read() {
      pkt := IF pos <= Len(script) THEN script[pos] ELSE Idle;
      pos := pos + 1;
      reads[c] := reads[c] + 1;
  }

  {
   next: while (c <= 2) {
           i := 0;
           if (Driver = "hasseb") {
             \* ---- HassebDALIUSBDriver.send ------------------------------------------
   hw:       writes[c] := writes[c] + 1;
             msg := None;
             pending := expects[c];
   hp:       while (expects[c] /\ pending /\ i < Polls) {
               \* wait_for_response -> receive(): one device.read per poll
               if (pos > Len(script)) {
                   \* nothing more will come: the remaining polls all read "no data"
                   reads[c] := reads[c] + (Polls - i);
                   i := Polls;
               } else {
                   Read();
   hr:             if (pkt.k \in {"ok", "inv"} /\ (~CheckSn \/ pkt.sn = c)) {
                       msg := pkt; pending := FALSE;
                       ownsn[c] := pkt.sn = c;
                   } else if (pkt.k = "noans" /\ (~CheckSn \/ pkt.sn = c)) {
                       msg := None; pending := FALSE;
                       ownsn[c] := pkt.sn = c;
                   };
                   i := i + 1;
               }
             };
   hd:       result[c] := IF ~expects[c] THEN None
                          ELSE IF msg = None THEN Silent
                          ELSE IF msg.k = "ok" THEN Val(msg.v) ELSE Err;
           } else {
             \* ---- SyncTridonicDALIUSBDriver.send -------------------------------------
   tw:       writes[c] := writes[c] + 1;
             result[c] := Sentinel;
   tp:       while (i < Polls /\ result[c] = Sentinel) {
               Read();
   tr:         if (pkt.k = "resp" /\ (~CheckSn \/ pkt.sn = c)) {
                   result[c] := IF expects[c] THEN Val(pkt.v) ELSE RawVal(pkt.v);
                   ownsn[c] := pkt.sn = c;
               };
               i := i + 1;
             };
           };
   nx:     c := c + 1;
         }
  }
} *)
\* BEGIN TRANSLATION
VARIABLES pc, script, expects, pos, c, i, pending, msg, pkt, reads, writes, 
          result, ownsn

vars == << pc, script, expects, pos, c, i, pending, msg, pkt, reads, writes, 
           result, ownsn >>

Init == (* Global variables *)
        /\ script \in Scripts
        /\ expects \in [1..2 -> BOOLEAN]
        /\ pos = 1
        /\ c = 1
        /\ i = 0
        /\ pending = FALSE
        /\ msg = None
        /\ pkt = None
        /\ reads = <<0, 0>>
        /\ writes = <<0, 0>>
        /\ result = <<None, None>>
        /\ ownsn = <<TRUE, TRUE>>
        /\ pc = "next"

next == /\ pc = "next"
        /\ IF c <= 2
              THEN /\ i' = 0
                   /\ IF Driver = "hasseb"
                         THEN /\ pc' = "hw"
                         ELSE /\ pc' = "tw"
              ELSE /\ pc' = "Done"
                   /\ i' = i
        /\ UNCHANGED << script, expects, pos, c, pending, msg, pkt, reads, 
                        writes, result, ownsn >>

nx == /\ pc = "nx"
      /\ c' = c + 1
      /\ pc' = "next"
      /\ UNCHANGED << script, expects, pos, i, pending, msg, pkt, reads, 
                      writes, result, ownsn >>

hw == /\ pc = "hw"
      /\ writes' = [writes EXCEPT ![c] = writes[c] + 1]
      /\ msg' = None
      /\ pending' = expects[c]
      /\ pc' = "hp"
      /\ UNCHANGED << script, expects, pos, c, i, pkt, reads, result, ownsn >>

hp == /\ pc = "hp"
      /\ IF expects[c] /\ pending /\ i < Polls
            THEN /\ IF pos > Len(script)
                       THEN /\ reads' = [reads EXCEPT ![c] = reads[c] + (Polls - i)]
                            /\ i' = Polls
                            /\ pc' = "hp"
                            /\ UNCHANGED << pos, pkt >>
                       ELSE /\ pkt' = (IF pos <= Len(script) THEN script[pos] ELSE Idle)
                            /\ pos' = pos + 1
                            /\ reads' = [reads EXCEPT ![c] = reads[c] + 1]
                            /\ pc' = "hr"
                            /\ i' = i
            ELSE /\ pc' = "hd"
                 /\ UNCHANGED << pos, i, pkt, reads >>
      /\ UNCHANGED << script, expects, c, pending, msg, writes, result, ownsn >>

hr == /\ pc = "hr"
      /\ IF pkt.k \in {"ok", "inv"} /\ (~CheckSn \/ pkt.sn = c)
            THEN /\ msg' = pkt
                 /\ pending' = FALSE
                 /\ ownsn' = [ownsn EXCEPT ![c] = pkt.sn = c]
            ELSE /\ IF pkt.k = "noans" /\ (~CheckSn \/ pkt.sn = c)
                       THEN /\ msg' = None
                            /\ pending' = FALSE
                            /\ ownsn' = [ownsn EXCEPT ![c] = pkt.sn = c]
                       ELSE /\ TRUE
                            /\ UNCHANGED << pending, msg, ownsn >>
      /\ i' = i + 1
      /\ pc' = "hp"
      /\ UNCHANGED << script, expects, pos, c, pkt, reads, writes, result >>

hd == /\ pc = "hd"
      /\ result' = [result EXCEPT ![c] = IF ~expects[c] THEN None
                                         ELSE IF msg = None THEN Silent
                                         ELSE IF msg.k = "ok" THEN Val(msg.v) ELSE Err]
      /\ pc' = "nx"
      /\ UNCHANGED << script, expects, pos, c, i, pending, msg, pkt, reads, 
                      writes, ownsn >>

tw == /\ pc = "tw"
      /\ writes' = [writes EXCEPT ![c] = writes[c] + 1]
      /\ result' = [result EXCEPT ![c] = Sentinel]
      /\ pc' = "tp"
      /\ UNCHANGED << script, expects, pos, c, i, pending, msg, pkt, reads, 
                      ownsn >>

tp == /\ pc = "tp"
      /\ IF i < Polls /\ result[c] = Sentinel
            THEN /\ pkt' = (IF pos <= Len(script) THEN script[pos] ELSE Idle)
                 /\ pos' = pos + 1
                 /\ reads' = [reads EXCEPT ![c] = reads[c] + 1]
                 /\ pc' = "tr"
            ELSE /\ pc' = "nx"
                 /\ UNCHANGED << pos, pkt, reads >>
      /\ UNCHANGED << script, expects, c, i, pending, msg, writes, result, 
                      ownsn >>

tr == /\ pc = "tr"
      /\ IF pkt.k = "resp" /\ (~CheckSn \/ pkt.sn = c)
            THEN /\ result' = [result EXCEPT ![c] = IF expects[c] THEN Val(pkt.v) ELSE RawVal(pkt.v)]
                 /\ ownsn' = [ownsn EXCEPT ![c] = pkt.sn = c]
            ELSE /\ TRUE
                 /\ UNCHANGED << result, ownsn >>
      /\ i' = i + 1
      /\ pc' = "tp"
      /\ UNCHANGED << script, expects, pos, c, pending, msg, pkt, reads, 
                      writes >>

(* Allow infinite stuttering to prevent deadlock on termination. *)
Terminating == pc = "Done" /\ UNCHANGED vars

Next == next \/ nx \/ hw \/ hp \/ hr \/ hd \/ tw \/ tp \/ tr
           \/ Terminating

Spec == Init /\ [][Next]_vars

Termination == <>(pc = "Done")

\* END TRANSLATION

Done == pc = "Done"

\* ---- what the model is checked for ---------------------------------------------------
\* the deciding packet of a send: the first packet among those it reads that settles the outcome
Deciders == IF Driver = "hasseb" THEN {"ok", "inv", "noans"} ELSE {"resp"}
Window(k) == \* script positions read by send k (as recorded)
    LET start == IF k = 1 THEN 1 ELSE 1 + (IF reads[1] > Len(script) THEN Len(script) ELSE reads[1])
    IN {p \in start..Len(script) : p < start + reads[k]}
FirstDecider(k) == LET ds == {p \in Window(k) : script[p].k \in Deciders} IN
                   IF ds = {} THEN 0 ELSE CHOOSE p \in ds : \A q \in ds : p <= q

\* hasseb: a send returns None exactly when no answer is expected, otherwise the command's response wrapping the first
\* deciding packet it read (value / framing error / nothing), and "nothing" when no deciding packet came in `Polls` reads
HassebTyped ==
    (Done /\ Driver = "hasseb" /\ ~CheckSn) =>
        \A k \in 1..2 :
            IF ~expects[k] THEN result[k] = None /\ reads[k] = 0
            ELSE LET d == FirstDecider(k) IN
                 /\ reads[k] <= Polls
                 /\ result[k] = (IF d = 0 THEN Silent
                                 ELSE IF script[d].k = "ok" THEN Val(script[d].v)
                                 ELSE IF script[d].k = "inv" THEN Err ELSE Silent)
\* one packet written per send, whatever happens
OneWrite == Done => writes = <<1, 1>>
\* tridonic: at most `Polls` reads; a value is returned only if a USB-side response packet was read
TridonicBounded ==
    (Done /\ Driver = "tridonic") =>
        \A k \in 1..2 : reads[k] <= Polls /\ (result[k].k \in {"val", "rawframe"} => FirstDecider(k) # 0)
\* named deviations of the code as it is (each is the subject of a configuration that MUST violate it):
\*  (1) the sequence number of an answer is not looked at: an answer to the previous command is taken for this one
AnswerIsOwn == Done => \A k \in 1..2 : ownsn[k]
\*  (2) tridonic: a command that expects an answer and gets none returns a sentinel object, not its response type
TridonicTyped == (Done /\ Driver = "tridonic") => \A k \in 1..2 : expects[k] => result[k].k \in {"val", "silent", "err"}

Export == Done => PrintT(<<"SCEN", Driver, script, expects, result, reads, writes>>)
=============================================================================
