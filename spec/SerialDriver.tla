---------------------------- MODULE SerialDriver ----------------------------
(* Implementation-shaped model of the asyncio serial drivers                  *)
(* (dali/driver/serial.py: DriverSerialBase.run_sequence, DriverLubaRs232 /   *)
(* DriverSCIRS232 .send and their protocol objects' send_dali_command):       *)
(* transaction lock (asyncio.Lock), flush of the raw-answer queue at the      *)
(* start of every send(), ENABLE DEVICE TYPE inside the same lock section,    *)
(* one write per frame, wait for 1 / 2 transmit confirmations (queue filled   *)
(* by the receiver, timeout_tx_confirm), for queries wait for a raw answer    *)
(* (timeout_rx), two-phase cancellation at every await.  The gateway is a     *)
(* FIFO of line items: confirmations, backward frames, framing errors (logged *)
(* and dropped by the receiver), and answers meant for another master.        *)
(*                                                                            *)
(* Time is abstracted: the confirmation timeout can fire only when the        *)
(* gateway will not confirm; the answer timeout can fire when no answer to    *)
(* this command is on its way -- or when the wait started before the          *)
(* command's own confirmation had been consumed (the 25 ms window is meant to *)
(* open when the frame has been transmitted).                                 *)
EXTENDS Naturals, Integers, Sequences, FiniteSets, TLC

CONSTANTS Callers, Unit, Mode,     \* as in AsyncDriver: caller -> Seq([dt, twice, query]), "send" | "sequence"
          Outcome,                 \* caller -> Seq("val" | "none" | "err"): what the bus answers to each query
          Cancellable,             \* callers the environment may cancel ...
          CancelAt,                \* ... while they are in one of these states ("lockwait", "confwait", "respwait")
          MaxStale,                \* answers to other masters' queries the gateway may report
          MaySilence,              \* the gateway may stop confirming (once)
          ConfPerTwice,            \* confirmations for a send-twice command: 2 (LUBA) or 1 (SCI)
          FlushAfterConfirm,       \* variant: the raw-answer queue is (also) flushed when the frame has been confirmed
          FlushAt                  \* "acquired": send() flushes left-over answers once it holds the transaction lock (the
                                   \* code); "called": before it waits for the lock (seeded C16f)

VARIABLES pc, idx, sub, need, results, exc,
          lockHeld, lockOwner, waiters, woken, cancelledW,
          wire,        \* Seq(<<caller, index, "edt"|"cmd">>)
          confq,       \* _queue_tx_conf
          respq,       \* _queue_rx_raw_dali: Seq(tag)
          gw,          \* items the gateway has still to deliver: [kind : "conf"|"back"|"err", tag]
          stale, silent

vars == <<pc, idx, sub, need, results, exc, lockHeld, lockOwner, waiters, woken, cancelledW, wire, confq, respq, gw, stale, silent>>

None == "none"
NoRes == <<"none", 0>>          \* result of a command that expects no answer
NoAns == <<"noanswer", 0>>      \* the command's response type wrapping "no backward frame"
Cmd(c) == Unit[c][idx[c]]
FirstFrame(c, i) == IF Unit[c][i].dt THEN "edt" ELSE "cmd"

Init ==
    /\ pc = [c \in Callers |-> "idle"] /\ idx = [c \in Callers |-> 1] /\ sub = [c \in Callers |-> "cmd"]
    /\ need = [c \in Callers |-> 0] /\ results = [c \in Callers |-> <<>>] /\ exc = [c \in Callers |-> None]
    /\ lockHeld = FALSE /\ lockOwner = None /\ waiters = <<>> /\ woken = None /\ cancelledW = {}
    /\ wire = <<>> /\ confq = <<>> /\ respq = <<>> /\ gw = <<>> /\ stale = 0 /\ silent = FALSE

\* ---- asyncio.Lock (as in AsyncDriver) ---------------------------------------------------------------------------
Acquire(c) ==
    IF ~lockHeld /\ \A k \in 1..Len(waiters) : waiters[k] \in cancelledW
    THEN /\ lockHeld' = TRUE /\ lockOwner' = c /\ pc' = [pc EXCEPT ![c] = "crit"] /\ UNCHANGED <<waiters, woken, cancelledW>>
    ELSE /\ waiters' = Append(waiters, c) /\ pc' = [pc EXCEPT ![c] = "lockwait"] /\ UNCHANGED <<lockHeld, lockOwner, woken, cancelledW>>

ReleaseVars ==
    /\ lockHeld' = FALSE /\ lockOwner' = None
    /\ woken' = IF waiters # <<>> /\ woken = None /\ Head(waiters) \notin cancelledW THEN Head(waiters) ELSE woken
    /\ UNCHANGED <<waiters, cancelledW>>

Start(c) ==
    /\ pc[c] = "idle"
    /\ Acquire(c)
    /\ sub' = [sub EXCEPT ![c] = FirstFrame(c, idx[c])]
    /\ respq' = IF FlushAt = "called" /\ Mode[c] = "send" THEN <<>> ELSE respq
    /\ UNCHANGED <<idx, need, results, exc, wire, confq, gw, stale, silent>>

Grant(c) ==
    /\ pc[c] = "lockwait" /\ woken = c /\ ~lockHeld
    /\ lockHeld' = TRUE /\ lockOwner' = c /\ woken' = None /\ UNCHANGED cancelledW
    /\ waiters' = SelectSeq(waiters, LAMBDA x : x # c)
    /\ pc' = [pc EXCEPT ![c] = "crit"]
    /\ sub' = [sub EXCEPT ![c] = FirstFrame(c, idx[c])]
    /\ UNCHANGED <<idx, need, results, exc, wire, confq, respq, gw, stale, silent>>

\* ---- one frame: flush (at the start of a send() call), write, then wait for the confirmations -----------------------
\* what the gateway will report for the frame
Reports(c, i, s) ==
    LET n == IF s = "cmd" /\ Unit[c][i].twice THEN ConfPerTwice ELSE 1
        confs == [k \in 1..n |-> [kind |-> "conf", tag |-> <<c, i>>]]
        ans == IF s = "cmd" /\ Unit[c][i].query
               THEN (CASE Outcome[c][i] = "val" -> <<[kind |-> "back", tag |-> <<c, i>>]>>
                       [] Outcome[c][i] = "err" -> <<[kind |-> "err", tag |-> <<c, i>>]>>
                       [] OTHER -> <<>>)
               ELSE <<>>
    IN confs \o ans

\* is this frame the first of a send() call?  (run_sequence sends the device-type prefix with a send() of its own)
StartsSend(c) == Mode[c] = "sequence" \/ sub[c] = FirstFrame(c, idx[c])

WriteStep(c) ==
    /\ pc[c] = "crit"
    /\ respq' = IF StartsSend(c) /\ (FlushAt = "acquired" \/ Mode[c] = "sequence") THEN <<>> ELSE respq   \* reset_dali_response()
    /\ wire' = Append(wire, <<c, idx[c], sub[c]>>)
    /\ gw' = IF silent THEN gw ELSE gw \o Reports(c, idx[c], sub[c])
    /\ need' = [need EXCEPT ![c] = IF sub[c] = "cmd" /\ Cmd(c).twice THEN ConfPerTwice ELSE 1]
    /\ pc' = [pc EXCEPT ![c] = "confwait"]
    /\ UNCHANGED <<idx, sub, results, exc, lockHeld, lockOwner, waiters, woken, cancelledW, confq, stale, silent>>

\* the command is complete with result res: send() releases the lock after every command, run_sequence after the last
Complete(c, res) ==
    LET last == idx[c] = Len(Unit[c]) IN
    /\ results' = [results EXCEPT ![c] = Append(@, res)]
    /\ idx' = [idx EXCEPT ![c] = IF last THEN @ ELSE @ + 1]
    /\ IF Mode[c] = "send" \/ last
       THEN /\ ReleaseVars /\ pc' = [pc EXCEPT ![c] = IF last THEN "done" ELSE "idle"] /\ UNCHANGED sub
       ELSE /\ pc' = [pc EXCEPT ![c] = "crit"] /\ sub' = [sub EXCEPT ![c] = FirstFrame(c, idx[c] + 1)]
            /\ UNCHANGED <<lockHeld, lockOwner, waiters, woken, cancelledW>>

ConfStep(c) ==
    /\ pc[c] = "confwait" /\ confq # <<>>
    /\ confq' = Tail(confq)                      \* whatever confirmation is first counts (a mismatch is only logged)
    /\ IF need[c] > 1
       THEN /\ need' = [need EXCEPT ![c] = @ - 1]
            /\ UNCHANGED <<pc, idx, sub, results, exc, lockHeld, lockOwner, waiters, woken, cancelledW, respq>>
       ELSE /\ need' = [need EXCEPT ![c] = 0]
            /\ IF sub[c] = "edt"
               THEN /\ sub' = [sub EXCEPT ![c] = "cmd"] /\ pc' = [pc EXCEPT ![c] = "crit"]
                    /\ UNCHANGED <<idx, results, exc, lockHeld, lockOwner, waiters, woken, cancelledW, respq>>
               ELSE IF Cmd(c).query
               THEN /\ pc' = [pc EXCEPT ![c] = "respwait"]
                    /\ respq' = IF FlushAfterConfirm THEN <<>> ELSE respq
                    /\ UNCHANGED <<idx, sub, results, exc, lockHeld, lockOwner, waiters, woken, cancelledW>>
               ELSE /\ Complete(c, NoRes) /\ UNCHANGED <<exc, respq>>
    /\ UNCHANGED <<wire, gw, stale, silent>>

\* asyncio.TimeoutError out of send_dali_command: the gateway does not confirm
ConfTimeout(c) ==
    /\ pc[c] = "confwait" /\ confq = <<>>
    /\ ~\E k \in 1..Len(gw) : gw[k].kind = "conf"
    /\ exc' = [exc EXCEPT ![c] = "TimeoutError"] /\ pc' = [pc EXCEPT ![c] = "done"]
    /\ ReleaseVars
    /\ UNCHANGED <<idx, sub, need, results, wire, confq, respq, gw, stale, silent>>

OwnConfPending(c) == \E k \in 1..Len(gw) : gw[k].kind = "conf" /\ gw[k].tag = <<c, idx[c]>>
AnswerComing(c) == \E k \in 1..Len(gw) : gw[k].kind = "back" /\ gw[k].tag = <<c, idx[c]>>

RespStep(c) ==
    /\ pc[c] = "respwait" /\ respq # <<>>
    /\ respq' = Tail(respq)
    /\ Complete(c, Head(respq))
    /\ UNCHANGED <<need, exc, wire, confq, gw, stale, silent>>

RespTimeout(c) ==
    /\ pc[c] = "respwait" /\ respq = <<>>
    /\ OwnConfPending(c) \/ ~AnswerComing(c)
    /\ Complete(c, NoAns)
    /\ UNCHANGED <<need, exc, wire, confq, respq, gw, stale, silent>>

\* ---- cancellation (two steps, as in AsyncDriver) ---------------------------------------------------------------------
InQueue(c) == \E k \in 1..Len(waiters) : waiters[k] = c

CancelReq(c) ==
    /\ c \in Cancellable /\ pc[c] \in CancelAt
    /\ pc' = [pc EXCEPT ![c] = "cancelling"]
    /\ cancelledW' = IF pc[c] = "lockwait" /\ woken # c THEN cancelledW \cup {c} ELSE cancelledW
    /\ UNCHANGED <<idx, sub, need, results, exc, lockHeld, lockOwner, waiters, woken, wire, confq, respq, gw, stale, silent>>

CancelRun(c) ==
    /\ pc[c] = "cancelling"
    /\ exc' = [exc EXCEPT ![c] = "Cancelled"] /\ pc' = [pc EXCEPT ![c] = "done"]
    /\ IF InQueue(c)
       THEN LET rest == SelectSeq(waiters, LAMBDA x : x # c)
                w0 == IF woken = c THEN None ELSE woken
            IN /\ waiters' = rest /\ cancelledW' = cancelledW \ {c}
               /\ woken' = IF ~lockHeld /\ rest # <<>> /\ w0 = None /\ Head(rest) \notin cancelledW THEN Head(rest) ELSE w0
               /\ UNCHANGED <<lockHeld, lockOwner>>
       ELSE ReleaseVars
    /\ UNCHANGED <<idx, sub, need, results, wire, confq, respq, gw, stale, silent>>

\* ---- receiver and environment -------------------------------------------------------------------------------------
Deliver ==
    /\ gw # <<>>
    /\ LET it == Head(gw) IN
       /\ confq' = IF it.kind = "conf" THEN Append(confq, it.tag) ELSE confq
       \* (a framing error is logged and dropped; an answer to another master's query is remembered together with who
       \* held the transaction lock when it came in)
       /\ respq' = IF it.kind = "back"
                   THEN Append(respq, IF it.tag[1] = "other" THEN <<"other", it.tag[2], lockOwner>> ELSE it.tag)
                   ELSE respq
    /\ gw' = Tail(gw)
    /\ UNCHANGED <<pc, idx, sub, need, results, exc, lockHeld, lockOwner, waiters, woken, cancelledW, wire, stale, silent>>

\* an 8-bit frame that answers another master's query
StaleAnswer ==
    /\ stale < MaxStale
    /\ stale' = stale + 1
    /\ gw' = Append(gw, [kind |-> "back", tag |-> <<"other", stale + 1>>])
    /\ UNCHANGED <<pc, idx, sub, need, results, exc, lockHeld, lockOwner, waiters, woken, cancelledW, wire, confq, respq, silent>>

GoSilent ==
    /\ MaySilence /\ ~silent /\ silent' = TRUE
    /\ UNCHANGED <<pc, idx, sub, need, results, exc, lockHeld, lockOwner, waiters, woken, cancelledW, wire, confq, respq, gw, stale>>

Next == \/ \E c \in Callers : Start(c) \/ Grant(c) \/ WriteStep(c) \/ ConfStep(c) \/ ConfTimeout(c) \/ RespStep(c)
                              \/ RespTimeout(c) \/ CancelReq(c) \/ CancelRun(c)
        \/ Deliver \/ StaleAnswer \/ GoSilent

Fairness == /\ \A c \in Callers : WF_vars(Start(c)) /\ WF_vars(Grant(c)) /\ WF_vars(WriteStep(c)) /\ WF_vars(ConfStep(c))
                                  /\ WF_vars(ConfTimeout(c)) /\ WF_vars(RespStep(c)) /\ WF_vars(RespTimeout(c)) /\ WF_vars(CancelRun(c))
            /\ WF_vars(Deliver)
Spec == Init /\ [][Next]_vars /\ Fairness

\* ---- properties -----------------------------------------------------------------------------------------------------
AllDone == \A c \in Callers : pc[c] = "done"
TypeOK == /\ \A c \in Callers : pc[c] \in {"idle", "lockwait", "crit", "confwait", "respwait", "cancelling", "done"}
          /\ lockHeld => lockOwner \in Callers
WriteByOwner == \A c \in Callers : pc[c] \in {"confwait", "respwait"} => lockOwner = c

\* C15: a device-type prefix is immediately followed by its command; the frames of a sequence are contiguous
PrefixAdjacent ==
    \A k \in 1..Len(wire) :
        (wire[k][3] = "cmd" /\ Unit[wire[k][1]][wire[k][2]].dt) => k > 1 /\ wire[k - 1] = <<wire[k][1], wire[k][2], "edt">>
SeqContiguous ==
    \A c \in Callers : Mode[c] = "sequence" =>
        LET ks == {k \in 1..Len(wire) : wire[k][1] = c} IN
        \A a, b \in ks : \A m \in a..b : wire[m][1] = c
TxnAtomic == PrefixAdjacent /\ SeqContiguous

\* C16 / C17: nobody receives another command's data; without foreign answers and cancellations every query gets its own
NoCrossTalk ==
    \A c \in Callers : \A i \in 1..Len(results[c]) :
        LET r == results[c][i] IN
        r \in {NoRes, NoAns} \/ r = <<c, i>> \/ r[1] = "other"
ExactPairing ==
    \A c \in Callers : \A i \in 1..Len(results[c]) :
        results[c][i] = (IF ~Unit[c][i].query THEN NoRes ELSE IF Outcome[c][i] = "val" THEN <<c, i>> ELSE NoAns)
\* an answer that belongs to nobody can only be mistaken for one's own if it came in during one's own transaction (after
\* the flush): never one that arrived while somebody else held the lock, or nobody
OwnWindow ==
    \A c \in Callers : \A i \in 1..Len(results[c]) :
        results[c][i][1] = "other" => results[c][i][3] = c
CleanEnd == AllDone => ~lockHeld /\ waiters = <<>> /\ woken = None
EventuallyAllDone == <>AllDone
=============================================================================
