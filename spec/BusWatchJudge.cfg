SPECIFICATION Spec
INVARIANT Judge
CHECK_DEADLOCK FALSE
