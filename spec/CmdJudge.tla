------------------------------ MODULE CmdJudge ------------------------------
(* Judges tables recorded from the real command classes (harness/c01.py,      *)
(* c02.py, c03.py) against CmdCodec / StdTables / Events103.                  *)
(*                                                                            *)
(* decode cell  : -1 = exception, else nameIx*16 + flags                      *)
(*                flags: 1 frame bits equal, 2 length equal, 4 str() ok,      *)
(*                       8 result is a command object                         *)
(* ctor cell    : -1 = constructor raised, else frame*64 + rt                 *)
(*                rt: 1 decoded class same, 2 destination equal, 4 parameters *)
(*                    equal, 8 instance equal, 16 same text, 32 decoded frame *)
(*                    equal (not applicable bits are reported as 1)           *)
EXTENDS CmdCodec, Json, IOUtils, TLC

E == INSTANCE Events103

Recs == ndJsonDeserialize(IOEnv.SHARD)
Rows == ndJsonDeserialize(IOEnv.ROWS)
Names == ndJsonDeserialize(IOEnv.NAMES)[1]
PVals == ndJsonDeserialize(IOEnv.PVALS)

\* which property's clauses are judged: "c01" totality/bits/str/purity, "c02" legality + decode round trip,
\* "c03" frame = the standard's frame, names of standard frames, flags
Mode == IOEnv.MODE

VARIABLE i
Init == i \in 1..Len(Recs)
Next == UNCHANGED i
Spec == Init /\ [][Next]_i

MinOf(S) == CHOOSE x \in S : \A y \in S : x <= y
Fail(c, at) == [ok |-> FALSE, clause |-> c, at |-> at]
Pass == [ok |-> TRUE, clause |-> "", at |-> 0]

NoArg == 9999           \* "no parameter passed"
NonInt == -7777         \* a non-integer parameter
IBcast == -1000         \* INITIALISE broadcast
IUnaddr == -1001        \* INITIALISE unaddressed

Carriers == {"102.UnknownGearCommand", "103.UnknownDeviceCommand", "Command"}

\* ---- decode tables (C01; names = C03's converse clause) ----------------------
DecCellOK(c) == c >= 0 /\ c % 16 = 15
NameAt(k) == IF k \in 1..Len(Names) THEN Names[k] ELSE "?class-not-registered"
NameOK(c, n) == IF n = Unnamed THEN NameAt(c \div 16) \in UnknownNames     \* no name in the tables: a generic / unknown command
                ELSE n = "event" \/ NameAt(c \div 16) = n

Tbl(t) == CASE t = "gear" -> AllGearRows [] t = "gearspecial" -> GearSpecial102 [] t = "dev" -> Dev103
            [] t = "inst" -> Inst103 [] t = "devspecial" -> DevSpecial103

T2(x) == <<x[1], x[2]>>

\* ---- constructor tables (C02 + C03) -------------------------------------------
\* [legal |-> BOOLEAN, frame |-> Nat] for one (row, dest, inst, p)
CtorSem(t, r, d, ins, p) ==
    CASE t = "gear" ->
           IF HasFlag(r, "P")
           THEN [legal |-> GearDestLegal(d) /\ p \in 0..15,
                 frame |-> IF GearDestLegal(d) /\ p \in 0..15 THEN EncGearStd(r, GearDest(d), p) ELSE 0]
           ELSE [legal |-> GearDestLegal(d) /\ p = NoArg,
                 frame |-> IF GearDestLegal(d) THEN EncGearStd(r, GearDest(d), 0) ELSE 0]
      [] t = "dapc" ->
           [legal |-> GearDestLegal(d) /\ p \in 0..255,
            frame |-> IF GearDestLegal(d) /\ p \in 0..255 THEN EncDAPC(GearDest(d), p) ELSE 0]
      [] t = "gearspecial" ->
           IF HasFlag(r, "B") THEN [legal |-> p \in 0..255, frame |-> IF p \in 0..255 THEN EncGearSpecial(r, p) ELSE 0]
           ELSE IF HasFlag(r, "A") THEN
                [legal |-> p \in 0..63 \/ p = 255,
                 frame |-> IF p \in 0..63 \/ p = 255 THEN EncGearSpecial(r, ShortAddrByte(p)) ELSE 0]
           ELSE IF HasFlag(r, "I") THEN
                [legal |-> p \in 0..63 \/ p \in {IBcast, IUnaddr},
                 frame |-> CASE p = IBcast -> EncGearSpecial(r, 0) [] p = IUnaddr -> EncGearSpecial(r, 255)
                             [] p \in 0..63 -> EncGearSpecial(r, 2 * p + 1) [] OTHER -> 0]
           ELSE [legal |-> p = NoArg, frame |-> EncGearSpecial(r, 0)]
      [] t = "dev" -> [legal |-> DevDestLegal(d) /\ p = NoArg, frame |-> IF DevDestLegal(d) THEN EncDev(r, d) ELSE 0]
      [] t = "inst" ->
           [legal |-> DevDestLegal(d) /\ InstLegal(ins) /\ p = NoArg,
            frame |-> IF DevDestLegal(d) /\ InstLegal(ins) THEN EncInst(r, d, ins) ELSE 0]
      [] t = "devspecial" ->
           IF HasFlagS(r[5], "2") THEN [legal |-> p \in 0..65535,
                                         frame |-> IF p \in 0..65535 THEN EncDevSpecial(r, p \div 256, p % 256) ELSE 0]
           ELSE IF HasFlagS(r[5], "1") THEN [legal |-> p \in 0..255,
                                              frame |-> IF p \in 0..255 THEN EncDevSpecial(r, 0, p) ELSE 0]
           ELSE [legal |-> p = NoArg, frame |-> EncDevSpecial(r, 0, 0)]

\* skipped (the statement's one excluded combination): instance command with instance byte 0xFE
\* ... and "reserved" naming a byte that is not reserved (in range: the same frame as the instance it really is)
Excluded(t, ins) == t = "inst" /\ (ins = <<"device", 0>> \/ (ins[1] = "reserved" /\ ins[2] \in 0..255 /\ ~ReservedByte(ins[2])))

CtorCellOK(s, c) ==
    IF Mode = "c03" THEN (s.legal /\ c >= 0) => c \div 64 = s.frame
    ELSE IF s.legal THEN c >= 0 /\ c % 64 = 63 ELSE c = -1
CtorClause(s, c) == IF Mode = "c03" THEN "frame-differs-from-standard"
                    ELSE IF ~s.legal THEN "illegal-arguments-accepted"
                    ELSE IF c < 0 THEN "legal-arguments-rejected"
                    ELSE "decode-round-trip"

\* ---- event constructors ---------------------------------------------------------
EvtType(cls) == CASE cls = "303.OccupancyEvent" -> 3 [] cls = "304.LightEvent" -> 4 [] OTHER -> 1
EvtFixedData(cls) ==
    LET hits == {k \in 1..Len(E!PushButtonCodes) : E!PushButtonCodes[k][2] = cls} IN
    IF hits = {} THEN -1 ELSE E!PushButtonCodes[CHOOSE k \in hits : TRUE][1]
EvtSem(r, p) ==
    LET fixed == EvtFixedData(r.cls)
        dok == IF fixed >= 0 THEN p = NoArg
               ELSE IF r.cls = "303.OccupancyEvent" THEN p \in 0..15 ELSE p \in 0..1023
        fok == CASE r.scheme = "device" -> r.short \in 0..63
                 [] r.scheme = "device_instance" -> r.short \in 0..63 /\ r.inum \in 0..31
                 [] r.scheme = "device_group" -> r.group \in 0..31
                 [] r.scheme = "instance" -> r.inum \in 0..31
                 [] r.scheme = "instance_group" -> r.group \in 0..31
        d == IF fixed >= 0 THEN fixed ELSE p
    \* an event class that carries its own event code, given a data argument all the same: the library may refuse it or
    \* ignore it -- but if it builds an event, that event is the class's own (either |-> TRUE: both outcomes are fine)
    IN [legal |-> dok /\ fok,
        either |-> fixed >= 0 /\ p # NoArg /\ fok,
        frame |-> IF fok /\ (dok \/ fixed >= 0) THEN E!Encode(r.scheme, r.short, r.inum, r.group, EvtType(r.cls), d) ELSE 0]
EvtCellOK(s, c) == IF s.either THEN c = -1 \/ (c >= 0 /\ c \div 64 = s.frame /\ (Mode = "c03" \/ c % 64 = 63))
                   ELSE CtorCellOK(s, c)

Verdict(r) ==
    CASE r.kind = "dec16" ->
           LET cells == Rows[r.row]
               bad == {lb \in 0..255 : ~DecCellOK(cells[lb + 1])}
               badn == {lb \in 0..255 : ~NameOK(cells[lb + 1], Name16(r.hb * 256 + lb, r.dt))}
           IN IF Mode = "c01" /\ bad # {} THEN Fail("decode-total/bits/str", r.hb * 256 + MinOf(bad))
              ELSE IF Mode = "c03" /\ badn # {} THEN Fail("name-of-standard-frame", r.hb * 256 + MinOf(badn))
              ELSE Pass
      [] r.kind = "dec24" ->
           LET cells == Rows[r.row]
               obs == PVals[r.pv]
               bad == {k \in 1..Len(obs) : ~DecCellOK(cells[k])}
               badn == {k \in 1..Len(obs) : ~NameOK(cells[k], Name24(r.hi * 256 + obs[k]))}
           IN IF Mode = "c01" /\ bad # {} THEN Fail("decode-total/bits/str", r.hi * 256 + obs[MinOf(bad)])
              ELSE IF Mode = "c03" /\ badn # {} THEN Fail("name-of-standard-frame", r.hi * 256 + obs[MinOf(badn)])
              ELSE Pass
      [] r.kind = "decx" ->
           IF \E k \in 1..Len(r.cells) : ~DecCellOK(r.cells[k]) THEN Fail("decode-total/bits/str", r.len) ELSE Pass
      [] r.kind = "pure" ->
           \* events sorted by key: equal keys are adjacent, so functional consistency is an adjacent-pair check
           LET n == Len(r.ev)
               unsorted == {k \in 1..(n - 1) : r.ev[k].key > r.ev[k + 1].key}
               bad == {k \in 1..(n - 1) : r.ev[k].key = r.ev[k + 1].key /\ r.ev[k].cell # r.ev[k + 1].cell}
               badcell == {k \in 1..n : ~DecCellOK(r.ev[k].cell)}
           IN IF unsorted # {} THEN Fail("harness-sort", MinOf(unsorted))
              ELSE IF badcell # {} THEN Fail("decode-total/bits/str", r.ev[MinOf(badcell)].pos)
              ELSE IF bad # {} THEN Fail("decode-depends-on-history", r.ev[MinOf(bad)].pos)
              ELSE IF r.registry_before # r.registry_after THEN Fail("registry-mutated", 0)
              ELSE Pass
      [] r.kind = "ctor" ->
           LET cells == Rows[r.row]
               ps == PVals[r.pv]
               row == IF r.tbl = "dapc" THEN <<>> ELSE Tbl(r.tbl)[r.rowix]
               d == T2(r.dest)
               ins == T2(r.inst)
               bad == {k \in 1..Len(ps) : ~Excluded(r.tbl, ins) /\ ~CtorCellOK(CtorSem(r.tbl, row, d, ins, ps[k]), cells[k])}
           IN IF bad = {} THEN Pass
              ELSE LET k == MinOf(bad) IN Fail(CtorClause(CtorSem(r.tbl, row, d, ins, ps[k]), cells[k]), ps[k])
      [] r.kind = "evctor" ->
           LET cells == Rows[r.row]
               ps == PVals[r.pv]
               bad == {k \in 1..Len(ps) : ~EvtCellOK(EvtSem(r, ps[k]), cells[k])}
           IN IF bad = {} THEN Pass
              ELSE LET k == MinOf(bad) IN Fail(CtorClause(EvtSem(r, ps[k]), cells[k]), ps[k])
      [] r.kind = "flags" ->
           LET row == Tbl(r.tbl)[r.rowix]
               fl == IF r.tbl = "devspecial" THEN row[5] ELSE row[4]
               ans == IF r.tbl = "devspecial" THEN row[6] ELSE row[5]
               dt == IF r.tbl = "gear" THEN PartDT(row[1]) ELSE 0
           IN IF (r.tw = 1) # HasFlagS(fl, "T") THEN Fail("sendtwice", 0)
              ELSE IF (r.q = 1) # (ans # "-") THEN Fail("expects-answer", 0)
              ELSE IF ans # "-" /\ (r.yn = 1) # (ans = "yn") THEN Fail("yes/no-vs-value", 0)
              ELSE IF r.dt # dt THEN Fail("devicetype", r.dt)
              ELSE Pass

Judge == LET r == Recs[i]
             v == Verdict(r)
         IN v.ok \/ PrintT(<<"REJECT", r.id, v.clause, v.at>>)
=============================================================================
