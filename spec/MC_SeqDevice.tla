---------------------------- MODULE MC_SeqDevice ----------------------------
(* Model instance of SeqDevice: resolutions around every byte boundary with    *)
(* structured values, filters of units / enums of 8, 16 and 24 bits with stale *)
(* DTR contents, every scheme incl. invalid ones, small populations of control *)
(* devices (healthy, short address MASK, reset state, no / disabled instances) *)
(* and one fault (silence / framing error) at every answer position.           *)
EXTENDS SeqDevice

NoFault == [at |-> 0, kind |-> "none"]
Inst(en, ty, sch, flt, w, r, v) == [enabled |-> en, type |-> ty, scheme |-> sch, filter |-> flt, width |-> w, res |-> r, value |-> v]
Dev(sh, st, insts) == [short |-> sh, status |-> st, inst |-> insts]
Bus(devs, d, f) == [dev |-> devs, dtr0 |-> d, dtr1 |-> d, dtr2 |-> d, quiescent |-> FALSE, latch |-> <<>>, fault |-> f, nans |-> 0]
Faults(n) == {NoFault} \cup {[at |-> a, kind |-> fk] : a \in 1..n, fk \in {"silent", "err", "errsame"}}
Base(op) == [op |-> op, bus |-> Bus(<<>>, 0, NoFault), target |-> <<1, 0>>, req |-> <<0, 0, 0>>, fwidth |-> 8,
             resolution |-> -1, addresses |-> <<>>]

\* ---- input values ------------------------------------------------------------------------------------------------
Pat(r, which) == [j \in 1..r |-> CASE which = "ones" -> 1 [] which = "alt" -> j % 2 [] which = "msb" -> (IF j = 1 THEN 1 ELSE 0)
                                  [] which = "lsb" -> (IF j = r THEN 1 ELSE 0) [] OTHER -> (IF j % 3 = 0 THEN 1 ELSE 0)]
Resolutions == {1, 2, 7, 8, 9, 12, 15, 16, 17, 23, 24, 25, 31, 32}
InputScen ==
    {[Base("input") EXCEPT !.bus = Bus(<<Dev(3, 0, <<Inst(TRUE, 1, 0, <<0, 0, 0>>, 8, 8, <<1, 0, 0, 0, 0, 0, 0, 1>>),
                                                        Inst(TRUE, 4, 0, <<0, 0, 0>>, 8, r, Pat(r, w))>>)>>, 0, f),
                            !.target = <<1, 1>>, !.resolution = given]
       : r \in Resolutions, w \in {"ones", "alt", "msb", "lsb", "third"}, given \in {-1}, f \in {NoFault}}
    \cup UNION {{[Base("input") EXCEPT !.bus = Bus(<<Dev(3, 0, <<Inst(TRUE, 4, 0, <<0, 0, 0>>, 8, r, Pat(r, "alt"))>>)>>, 0, f),
                                       !.resolution = given]
                   : given \in {-1, r}, f \in Faults(5)} : r \in {1, 8, 9, 16, 17, 32}}

\* ---- filters ------------------------------------------------------------------------------------------------------
Reqs(fw) == {<<0, 0, 0>>, <<255, IF fw > 8 THEN 255 ELSE 0, IF fw > 16 THEN 255 ELSE 0>>,
             <<90, IF fw > 8 THEN 195 ELSE 0, IF fw > 16 THEN 129 ELSE 0>>}
FilterScen ==
    UNION {
      {[Base(op) EXCEPT !.bus = Bus(<<Dev(2, 0, <<Inst(TRUE, 1, 0, <<17, IF uw > 8 THEN 34 ELSE 0, IF uw > 16 THEN 51 ELSE 0>>, uw, 8,
                                                         <<0, 0, 0, 0, 0, 0, 0, 0>>)>>)>>, stale, f),
                         !.req = rq, !.fwidth = fw]
         : op \in {"setfilter", "queryfilter"}, uw \in {8, 16, 24}, rq \in Reqs(fw), stale \in {0, 255}, f \in Faults(3)}
      : fw \in {8, 16, 24} }
FilterScenOK == {s \in FilterScen : s.bus.dev[1].inst[1].width <= s.fwidth /\ (s.op = "setfilter" \/ (s.req = <<0, 0, 0>> /\ s.bus.dtr0 = 0))}

SchemeScen ==
    {[Base("setscheme") EXCEPT !.bus = Bus(<<Dev(2, 0, <<Inst(TRUE, 1, 4, <<0, 0, 0>>, 8, 8, <<0, 0, 0, 0, 0, 0, 0, 0>>)>>)>>, 9, f),
                               !.req = <<sch, 0, 0>>] : sch \in 0..6, f \in Faults(1)}

\* ---- discovery ------------------------------------------------------------------------------------------------------
V8 == <<0, 0, 0, 0, 0, 0, 0, 0>>
I(en, ty) == Inst(en, ty, 0, <<0, 0, 0>>, 8, 8, V8)
Pop1 == <<Dev(1, 0, <<I(TRUE, 1), I(FALSE, 3), I(TRUE, 4)>>), Dev(2, 4, <<I(TRUE, 1)>>), Dev(5, 64, <<I(TRUE, 3)>>)>>
Pop2 == <<Dev(0, 2, <<I(TRUE, 3)>>), Dev(3, 0, <<>>), Dev(5, 8, <<I(FALSE, 1), I(TRUE, 2)>>)>>
Pop3 == <<>>
DiscoverScen ==
    {[Base("discover") EXCEPT !.bus = Bus(pop, 0, f), !.addresses = ad]
       : pop \in {Pop1, Pop2}, ad \in {<<0, 1, 2, 3, 5>>, <<5, 1>>, <<>>}, f \in Faults(9)}
    \cup {[Base("discover") EXCEPT !.bus = Bus(Pop3, 0, NoFault), !.addresses = <<0, 1, 2>>]}

ScenAll == InputScen \cup FilterScenOK \cup SchemeScen \cup DiscoverScen
=============================================================================
