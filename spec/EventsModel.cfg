SPECIFICATION Spec
CONSTANT DataSet <- DataQuick
CONSTANT Chains = 64
INVARIANT FieldRoundTrip
INVARIANT Total
INVARIANT MapLaw
CHECK_DEADLOCK FALSE
