---------------------------- MODULE MemSeqJudge ----------------------------
(* Trace judge for C09 (memory reads) and C10 (memory writes): re-executes    *)
(* every yielded frame on MemUnit, checks the logged answers and projected    *)
(* state (environment check) and evaluates the property clauses.              *)
EXTENDS MemUnit, Json, IOUtils, SequencesExt

Recs == ndJsonDeserialize(IOEnv.SHARD)
Cells == ndJsonDeserialize(IOEnv.CELLS)

VARIABLE i
Init == i \in 1..Len(Recs)
Next == UNCHANGED i
Spec == Init /\ [][Next]_i

InitUnit(c) == [kind |-> c.kind, bank |-> c.bank, mem |-> c.mem, snap |-> <<>>, dtr0 |-> c.dtr0, dtr1 |-> c.dtr1,
                wes |-> c.wes = 1, unlock |-> c.unlock, nobble |-> c.nobble = 1, echoflip |-> c.echoflip = 1,
                fault |-> [at |-> c.fault[1], kind |-> c.fault[2]], nans |-> 0]

\* accumulator: u unit, k events seen, at/clause first environment mismatch, t0 memory when the first READ of a
\* location >= 2 was answered (<<>> before), snapbad: a later READ answer differed from t0, sawerr: some READ answer
\* was a framing error, badwrite: some WRITE MEMORY LOCATION was not confirmed with the value written
FoldStep(acc, e) ==
    IF acc.at # 0 THEN acc
    ELSE IF e.t = "tick" THEN [acc EXCEPT !.u = TLCEval(Tick(acc.u, e.ch)), !.k = @ + 1]
    ELSE LET u == acc.u
             k == acc.k + 1
             nm == ShortName(e.len, e.f)
             s == Step(u, e.len, e.f)
             isread == nm = "ReadMemoryLocation" /\ u.dtr1 = BankNumber(u.bank)
             loc == u.dtr0
             \* the snapshot: the image frozen by a latch command, else the memory when the first data read is answered
             t0 == IF s.u.snap # u.snap THEN s.u.snap
                   ELSE IF acc.t0 = <<>> /\ isread /\ loc >= 2 THEN u.mem ELSE acc.t0
             snapbad == acc.snapbad \/ (isread /\ loc >= 2 /\ acc.t0 # <<>> /\ s.resp[1] = "val" /\ s.resp[2] # acc.t0[loc + 1])
             sawerr == acc.sawerr \/ (isread /\ s.resp[1] = "err")
             badwrite == acc.badwrite \/ (nm = "WriteMemoryLocation" /\ s.resp # <<"val", Param(e.len, e.f)>>)
                                      \/ (nm \in {"WriteMemoryLocation", "WriteMemoryLocationNoReply"} /\ loc # 2 /\ s.u.mem = u.mem
                                          /\ u.mem[loc + 1] # Param(e.len, e.f))
             \* an accepted write after which DTR0 had not advanced
             noadv == acc.noadv \/ (nm \in {"WriteMemoryLocation", "WriteMemoryLocationNoReply"} /\ u.wes
                                    /\ u.dtr1 = BankNumber(u.bank) /\ u.dtr0 < 255 /\ s.u.dtr0 = u.dtr0)
             reads == IF isread THEN Append(acc.reads, <<loc, s.resp[1], s.resp[2]>>) ELSE acc.reads
         IN IF <<e.resp[1], e.resp[2]>> # s.resp THEN [acc EXCEPT !.k = k, !.at = k, !.clause = "env-answer"]
            ELSE IF e.dtr0 # s.u.dtr0 \/ (e.wes = 1) # s.u.wes \/ e.lock # s.u.mem[3]
            THEN [acc EXCEPT !.k = k, !.at = k, !.clause = "env-state"]
            ELSE [u |-> TLCEval(s.u), k |-> k, at |-> 0, clause |-> "", t0 |-> t0, snapbad |-> snapbad,
                  sawerr |-> sawerr, badwrite |-> badwrite, reads |-> reads, noadv |-> noadv]

Fold(r) == FoldLeft(FoldStep, [u |-> InitUnit(r.unit), k |-> 0, at |-> 0, clause |-> "", t0 |-> <<>>, snapbad |-> FALSE,
                               sawerr |-> FALSE, badwrite |-> FALSE, reads |-> <<>>, noadv |-> FALSE], r.ev)

RowIx(bank, name) == CHOOSE k \in 1..Len(Map) : Map[k][1] = bank /\ Map[k][2] = name
Fail(c, at) == [ok |-> FALSE, clause |-> c, at |-> at]
Pass == [ok |-> TRUE, clause |-> "", at |-> 0]

\* is location l readable in memory image m (index l+1), i.e. implemented and not beyond the last accessible one
Readable(m, l) == l < 255 /\ m[1] >= 0 /\ l <= m[1] /\ m[l + 1] >= 0

\* ticks applied to the initial image (what the memory must be afterwards, lock byte aside)
FinalExpected(r) ==
    FoldLeft(LAMBDA m, e : IF e.t = "tick" THEN Tick([mem |-> m], e.ch).mem ELSE m, r.unit.mem, r.ev)

SameExceptLock(a, b) == \A l \in 0..254 : l # 2 => a[l + 1] = b[l + 1]

DocumentedWriteExc == {"MemoryLocationNotWriteable", "MemoryWriteFailure", "ResponseError", "MemoryValueNotWriteable",
                       "MemoryLocationNotImplemented"}

\* what a value-level write stores: the bytes given, or -- for a literal -- the pattern of the value's kind: MASK is the
\* largest number of the width (all ones; 0x7f..ff for a signed quantity), TMASK the one below it; a number goes MSB
\* first, negative ones in two's complement (widths <= 3 here: TLC integers are 32 bit); <<>> = not representable
Pow256(w) == IF w = 1 THEN 256 ELSE IF w = 2 THEN 65536 ELSE 16777216
NumBytesW(v, w) == [j \in 1..w |-> (v \div (IF w - j = 0 THEN 1 ELSE IF w - j = 1 THEN 256 ELSE 65536)) % 256]
WD(r) == LET w == Len(r.locs) IN
         IF r.lit = "" THEN r.wdata
         ELSE IF r.lit = "MASK" THEN [j \in 1..w |-> IF j = 1 /\ r.signed = 1 THEN 127 ELSE 255]
         ELSE IF r.lit = "TMASK" THEN [j \in 1..w |-> IF j = w THEN (IF w = 1 /\ r.signed = 1 THEN 126 ELSE 254)
                                                      ELSE IF j = 1 /\ r.signed = 1 THEN 127 ELSE 255]
         ELSE IF r.signed = 1 THEN
              (IF r.num >= Pow256(w) \div 2 \/ r.num < 0 - Pow256(w) \div 2 THEN <<>>
               ELSE NumBytesW(IF r.num < 0 THEN Pow256(w) + r.num ELSE r.num, w))
         ELSE (IF r.num < 0 \/ r.num >= Pow256(w) THEN <<>> ELSE NumBytesW(r.num, w))

Verdict(r) ==
    LET fr == Fold(r)
        u0 == InitUnit(r.unit)
        fin == fr.u.mem
    IN
    IF fr.at # 0 THEN Fail(fr.clause, fr.at)
    ELSE
    CASE r.seq = "read" ->
           LET row == Map[RowIx(r.unit.bank, r.value)]
               locs == [j \in 1..row[4] |-> row[3] + j - 1]
               \* answer the unit owes to the j-th read of the value
               ans(j) == IF u0.fault.kind # "none" /\ u0.fault.at = j THEN (IF u0.fault.kind = "silent" THEN "silent" ELSE "err")
                         ELSE IF Readable(r.unit.mem, locs[j]) THEN "val" ELSE "silent"
               bad == {j \in 1..row[4] : ans(j) # "val"}
               first == IF bad = {} THEN 0 ELSE CHOOSE j \in bad : \A x \in bad : j <= x
               raw == [j \in 1..row[4] |-> r.unit.mem[locs[j] + 1]]
           IN IF first # 0 /\ ans(first) = "silent" THEN
                  (IF r.out.exc = "MemoryLocationNotImplemented" THEN Pass ELSE Fail("expected-MemoryLocationNotImplemented", first))
              ELSE IF first # 0 THEN
                  (IF r.out.exc = "ResponseError" THEN Pass ELSE Fail("expected-ResponseError", first))
              ELSE IF r.out.exc # "none" THEN Fail("unexpected-exception:" \o r.out.exc, 0)
              ELSE IF ~ValueOK(row, raw, Cells[r.out.cell]) THEN Fail("value-differs-from-stored-bytes", 0)
              ELSE IF fin # r.unit.mem THEN Fail("memory-changed", 0)
              ELSE IF Props(r.unit.bank).latch /\ fin[3] = 170 THEN Fail("left-latched", 0)
              ELSE Pass
      [] r.seq = "read_all" ->
           LET bank == r.unit.bank
               hdr == IF bank \in {"0", "0L"} THEN 1 ELSE 2           \* header locations 0..hdr are set aside
               src == IF fr.t0 = <<>> THEN r.unit.mem ELSE fr.t0       \* snapshot at the start of the data reads
               judged == {k \in RowsOf(bank) : Map[k][3] > hdr}
               present(k) == \A l \in LocsOf(Map[k]) : Readable(src, l) /\
                                 ~(\E j \in 1..Len(fr.reads) : fr.reads[j][1] = l /\ fr.reads[j][2] = "none")
               reported == {r.out.cells[j][1] : j \in 1..Len(r.out.cells)}
               cellOf(n) == Cells[r.out.cells[CHOOSE j \in 1..Len(r.out.cells) : r.out.cells[j][1] = n][2]]
               rawOf(k) == [j \in 1..Map[k][4] |-> src[Map[k][3] + j]]
               missing == {k \in judged : present(k) /\ Map[k][2] \notin reported}
               extra == {k \in judged : ~present(k) /\ Map[k][2] \in reported}
               wrong == {k \in judged : present(k) /\ Map[k][2] \in reported /\ ~ValueOK(Map[k], rawOf(k), cellOf(Map[k][2]))}
           IN IF fr.sawerr THEN (IF r.out.exc # "ResponseError" THEN Fail("expected-ResponseError", 0)
                                 ELSE IF Props(bank).latch /\ fin[3] = 170 THEN Fail("left-latched-after-failed-read", 0)
                                 ELSE IF ~SameExceptLock(fin, FinalExpected(r)) THEN Fail("memory-changed-by-failed-read", 0)
                                 ELSE Pass)
              \* no answer to the read of location 0: the bank does not exist for this unit
              ELSE IF \E j \in 1..Len(fr.reads) : fr.reads[j][1] = 0 /\ fr.reads[j][2] = "none"
                   THEN (IF r.out.exc = "MemoryLocationNotImplemented" THEN Pass ELSE Fail("expected-MemoryLocationNotImplemented", 0))
              ELSE IF r.out.exc # "none" THEN Fail("unexpected-exception:" \o r.out.exc, 0)
              ELSE IF fr.snapbad THEN Fail("not-a-snapshot", 0)
              ELSE IF missing # {} THEN Fail("value-missing:" \o Map[CHOOSE k \in missing : TRUE][2], 0)
              ELSE IF extra # {} THEN Fail("value-with-unimplemented-location-reported:" \o Map[CHOOSE k \in extra : TRUE][2], 0)
              ELSE IF wrong # {} THEN Fail("value-differs-from-snapshot:" \o Map[CHOOSE k \in wrong : TRUE][2], 0)
              ELSE IF ~SameExceptLock(fin, FinalExpected(r)) THEN Fail("memory-changed", 0)
              ELSE IF Props(bank).latch /\ fin[3] = 170 THEN Fail("left-latched", 0)
              ELSE Pass
      [] r.seq = "write-bad" ->
           \* data that is no byte string (an int, a bool, None, a float, text): refused, nothing sent, nothing changed
           IF r.out.exc # "none" /\ Len(r.ev) = 0 THEN Pass ELSE Fail("non-bytes-data-not-refused-before-sending", Len(r.ev))
      [] r.seq = "write" /\ r.locs # <<>> /\ r.lit # "" /\ WD(r) = <<>> ->
           \* a number that does not fit the value: refused before anything is sent
           IF r.out.exc # "none" /\ Len(r.ev) = 0 THEN Pass ELSE Fail("unrepresentable-number-not-refused", Len(r.ev))
      [] r.seq = "write" /\ r.locs # <<>> ->
           \* a value declared by the user of the library: its locations in the order given (they need not be contiguous or
           \* ascending); access types are those the bank's map gives these locations
           LET n == Len(WD(r))
               typ(j) == TypeOfLoc(r.unit.bank, r.locs[j])
               writable == \A j \in 1..Len(r.locs) : Writable(typ(j))
               lockable == \E j \in 1..Len(r.locs) : Lockable(typ(j))
               mine == {r.locs[j] : j \in 1..n}
               stored == /\ \A j \in 1..n : fin[r.locs[j] + 1] = WD(r)[j]
                         /\ \A l \in 0..254 : (l # 2 /\ l \notin mine) => fin[l + 1] = r.unit.mem[l + 1]
               \* a DTR0 that did not advance is harmless when the next location is set explicitly anyway: it must be
               \* reported only if the data did not arrive (clause above); it may be reported (last step)
               faulty == fr.badwrite \/ u0.nobble \/ fr.noadv
           IN IF ~writable THEN
                  (IF r.out.exc = "MemoryValueNotWriteable" /\ Len(r.ev) = 0 THEN Pass
                   ELSE Fail("read-only-value-not-refused-before-sending", Len(r.ev)))
              ELSE IF r.out.exc = "none" THEN
                  (IF ~stored THEN Fail("failed-write-reported-as-success", 0)
                   ELSE IF fr.badwrite /\ r.ignore # 1 THEN Fail("fault-not-reported", 0)
                   ELSE IF lockable /\ fin[3] = 85 THEN Fail("left-unlocked", 0)
                   ELSE Pass)
              ELSE IF r.out.exc \notin DocumentedWriteExc THEN Fail("undocumented-exception:" \o r.out.exc, 0)
              ELSE IF ~faulty /\ r.legal = 1 THEN Fail("spurious-failure:" \o r.out.exc, 0)
              ELSE Pass
      [] r.seq = "write" ->
           LET row == Map[RowIx(r.unit.bank, r.value)]
               writable == \A l \in LocsOf(row) : Writable(TypeAt(row, l))
               \* the write opens the lock byte: a lockable location, or force_unlock (then the lock byte is part of the deal:
               \* written 0x55 and 0xFF again)
               lockable == (\E l \in LocsOf(row) : Lockable(TypeAt(row, l))) \/ (r.force = 1 /\ Props(r.unit.bank).lock)
               n == Len(r.wdata)
               stored == /\ \A j \in 1..n : fin[row[3] + j] = r.wdata[j]
                         /\ \A l \in 0..254 : (l # 2 /\ (l < row[3] \/ l >= row[3] + n)) => fin[l + 1] = r.unit.mem[l + 1]
                         /\ ((~lockable /\ 2 \notin LocsOf(row)) => fin[3] = r.unit.mem[3])
               faulty == fr.badwrite \/ u0.nobble \/ fr.noadv
           IN IF ~writable THEN
                  (IF r.out.exc = "MemoryValueNotWriteable" /\ Len(r.ev) = 0 THEN Pass
                   ELSE Fail("read-only-value-not-refused-before-sending", Len(r.ev)))
              ELSE IF r.out.exc = "none" THEN
                  (IF r.ignore = 1 THEN
                       \* feedback ignored: failures need not be noticed, but a healthy unit holds the data and the bank is
                       \* locked again in any case
                       (IF lockable /\ fin[3] = 85 THEN Fail("left-unlocked", 0)
                        ELSE IF ~faulty /\ r.legal = 1 /\ ~stored THEN Fail("data-not-stored-although-unit-healthy", 0)
                        ELSE Pass)
                   ELSE IF ~stored THEN Fail("failed-write-reported-as-success", 0)
                   ELSE IF faulty THEN Fail("fault-not-reported", 0)
                   ELSE IF lockable /\ fin[3] = 85 THEN Fail("left-unlocked", 0)
                   ELSE Pass)
              ELSE IF r.out.exc \notin DocumentedWriteExc THEN Fail("undocumented-exception:" \o r.out.exc, 0)
              ELSE IF ~faulty /\ r.legal = 1 THEN Fail("spurious-failure:" \o r.out.exc, 0)
              ELSE Pass

Judge == LET r == Recs[i]
             v == Verdict(r)
         IN v.ok \/ PrintT(<<"REJECT", r.id, v.clause, v.at>>)
=============================================================================
