----------------------------- MODULE ColourJudge -----------------------------
(* Trace judge for C14 (DT8 colour sequences): re-executes every yielded      *)
(* frame on Gear209 and evaluates the clauses.                                *)
EXTENDS Gear209, Json, IOUtils, SequencesExt

Recs == ndJsonDeserialize(IOEnv.SHARD)

VARIABLE i
Init == i \in 1..Len(Recs)
Next == UNCHANGED i
Spec == Init /\ [][Next]_i

InitUnit(c) == [tempTc |-> c.tempTc, tc |-> c.tc, activated |-> FALSE, limits |-> c.limits, report |-> c.report,
                sel |-> c.sel, dtr0 |-> c.dtr0, dtr1 |-> c.dtr1, dtr2 |-> c.dtr2, level |-> c.level,
                fault |-> [at |-> c.fault[1], kind |-> c.fault[2]], nans |-> 0, pend |-> -1]

FoldStep(acc, e) ==
    IF acc.at # 0 THEN acc
    ELSE LET s == Step(acc.u, e.f, e.dt)
             k == acc.k + 1
             hit == acc.u.fault.kind # "none" /\ acc.u.nans + 1 = acc.u.fault.at /\ s.u.nans = acc.u.fault.at
         IN IF <<e.resp[1], e.resp[2]>> # s.resp THEN [acc EXCEPT !.k = k, !.at = k, !.clause = "env-answer"]
            ELSE [u |-> s.u, k |-> k, at |-> 0, clause |-> "", hadfault |-> acc.hadfault \/ hit]

Fold(r) == FoldLeft(FoldStep, [u |-> InitUnit(r.unit), k |-> 0, at |-> 0, clause |-> "", hadfault |-> FALSE], r.ev)

Fail(c, at) == [ok |-> FALSE, clause |-> c, at |-> at]
Pass == [ok |-> TRUE, clause |-> "", at |-> 0]

\* every frame must be for device type 8 when it is an application extended command of part 209
DTOK(r) == \A k \in 1..Len(r.ev) : (r.ev[k].f % 256 >= 224 /\ BitOfInt(r.ev[k].f, 8) = 1 /\ GearOf7(r.ev[k].f \div 512) # None)
                                     => r.ev[k].dt = 8

\* the library's enumerations against the tables (names and codes)
EnumVerdict(r) ==
    LET q == {<<r.query[k][1], r.query[k][2]>> : k \in 1..Len(r.query)}
        l == {<<r.limit[k][1], r.limit[k][2]>> : k \in 1..Len(r.limit)}
    IN IF q # QuerySelectorNames THEN
           Fail("query-selector-names-differ-from-209-table-11",
                LET d == (q \ QuerySelectorNames) \cup (QuerySelectorNames \ q) IN (CHOOSE x \in d : TRUE)[2])
       ELSE IF l # LimitSelectorNames THEN Fail("limit-selector-names-differ-from-209", 0)
       ELSE IF {x[2] : x \in q} # QuerySelectors THEN Fail("selector-codes-differ-from-209-table-11", 0)
       ELSE Pass

Verdict(r) == IF r.seq = "enums" THEN EnumVerdict(r) ELSE
    LET fr == Fold(r)
        u0 == InitUnit(r.unit)
        n == Len(r.ev)
    IN
    IF fr.at # 0 THEN Fail(fr.clause, fr.at)
    ELSE
    CASE r.seq = "set" ->
           IF r.legal = 0 THEN (IF r.out.exc # "none" /\ n = 0 THEN Pass ELSE Fail("illegal-value-not-refused-before-sending", n))
           ELSE IF r.out.exc # "none" THEN Fail("raised:" \o r.out.exc, n)
           ELSE IF ~DTOK(r) THEN Fail("dt8-command-without-device-type-8", 0)
           ELSE IF r.addressed = 1 /\ ~(fr.u.tc = r.value /\ fr.u.activated) THEN Fail("unit-tc-differs-from-request", fr.u.tc)
           ELSE IF r.addressed = 0 /\ fr.u.tc # u0.tc THEN Fail("unaddressed-unit-changed", 0)
           ELSE Pass
      [] r.seq = "limit" ->
           IF r.legal = 0 THEN (IF r.out.exc # "none" /\ n = 0 THEN Pass ELSE Fail("illegal-value-not-refused-before-sending", n))
           ELSE IF r.out.exc # "none" THEN Fail("raised:" \o r.out.exc, n)
           ELSE IF ~DTOK(r) THEN Fail("dt8-command-without-device-type-8", 0)
           ELSE IF r.addressed = 1 /\ fr.u.limits # [u0.limits EXCEPT ![r.selector + 1] = r.value]
                THEN Fail("limit-not-stored-under-selector", r.selector)
           ELSE IF fr.u.tc # u0.tc THEN Fail("tc-changed", 0)
           ELSE Pass
      [] r.seq = "query" ->
           IF r.legal = 0 THEN (IF r.out.exc # "none" /\ n = 0 THEN Pass ELSE Fail("non-selector-not-refused-before-sending", n))
           ELSE IF r.selector \notin QuerySelectors THEN Fail("selector-not-in-209-table-11", r.selector)
           ELSE IF r.out.exc # "none" THEN Fail("raised:" \o r.out.exc, n)
           \* the two bytes of the value are the 2nd and 3rd answers (after QUERY ACTUAL LEVEL, whose own answer is
           \* not part of the value)
           ELSE IF (fr.hadfault /\ u0.fault.at \in {2, 3}) \/ u0.report \div 256 = 255 THEN
                (IF r.out.ret = -1 THEN Pass ELSE Fail("value-returned-without-a-clean-answer", r.out.ret))
           ELSE IF r.out.ret # u0.report THEN Fail("wrong-colour-value", r.out.ret)
           ELSE Pass

Judge == LET r == Recs[i]
             v == Verdict(r)
         IN v.ok \/ PrintT(<<"REJECT", r.id, v.clause, v.at>>)
=============================================================================
