-------------------------- MODULE SeqCommissioning --------------------------
(* Implementation-shaped model of dali.sequences.Commissioning (one label per *)
(* yield) composed with the Gear102 bus model.  TLC explores every stream of  *)
(* random draws within the bound and checks the clauses of C07.               *)
(*                                                                            *)
(* Assumption of the property ("clashing units eventually draw different      *)
(* values"): from randomise round K on, the draws of the units still taking   *)
(* part in the search are pairwise different.                                 *)
EXTENDS Gear102, CommClauses

CONSTANTS Configs,      \* set of [shorts, storeOK, permitted, readdress, dryrun]
          RandVals,     \* random addresses a unit may draw
          K,            \* rounds in which clashes are allowed
          SkipSame      \* "no": every probe sends all three search-address bytes (the code); "exact": bytes the gear already
                        \* hold are not sent again (a correct optimisation); "afterfind": the same with the slip of the
                        \* seeded change C07f -- after a find the remembered value is the next address to look at

Cfg(sh, ok, perm, re, dry) == [shorts |-> sh, storeOK |-> ok, permitted |-> perm, readdress |-> re, dryrun |-> dry]
ConfigsSmall ==
    {Cfg(sh, <<TRUE, TRUE>>, perm, re, dry) :
        sh \in {<<255, 255>>, <<255, 0>>, <<1, 1>>}, perm \in {<<0, 1, 2>>, <<1>>}, re \in BOOLEAN, dry \in BOOLEAN}
    \cup {Cfg(<<255, 255>>, <<FALSE, TRUE>>, <<0, 1>>, re, FALSE) : re \in BOOLEAN}
RandValsSmall == {0, 1, 16777215}
ConfigsFull ==
    {Cfg(sh, <<TRUE, TRUE, TRUE>>, perm, re, dry) :
        sh \in {<<255, 255, 255>>, <<255, 0, 255>>, <<0, 0, 255>>, <<1, 255, 0>>},
        perm \in {<<0, 1, 2>>, <<2, 0>>, <<1>>, <<>>}, re \in BOOLEAN, dry \in BOOLEAN}
    \cup {Cfg(<<255, 255, 0>>, ok, <<0, 1, 2>>, re, FALSE) :
             ok \in {<<FALSE, TRUE, TRUE>>, <<TRUE, FALSE, TRUE>>, <<TRUE, TRUE, FALSE>>}, re \in BOOLEAN}
    \cup {Cfg(<<>>, <<>>, <<0>>, re, FALSE) : re \in BOOLEAN}
RandValsFull == {0, 1, 8388608, 16777215}
ConfigsFinding == {Cfg(<<255, 255, 255>>, <<TRUE, TRUE, TRUE>>, <<0, 1, 2>>, FALSE, FALSE)}
RandValsFinding == {1, 5, 7}
\* random addresses on byte boundaries of the search address: 0x123456, 0xFFFEFF, 0xFFFF80
ConfigsBytes == {Cfg(<<255, 255, 255>>, <<TRUE, TRUE, TRUE>>, perm, re, FALSE) : perm \in {<<0, 1, 2>>, <<5, 6>>}, re \in BOOLEAN}
RandValsBytes == {1193046, 16776959, 16777088}

NoneV == -1
Clash == -3
Top == 16777215

RowOf(tbl, nm) == tbl[CHOOSE i \in 1..Len(tbl) : tbl[i][2] = nm]
Sp(nm, b) == EncGearSpecial(RowOf(GearSpecial102, nm), b)
Std(nm, dest) == EncGearStd(RowOf(Gear102, nm), dest, 0)

InitBus(c) == [gear |-> [k \in 1..Len(c.shorts) |->
                           [short |-> c.shorts[k], rand |-> 0, init |-> "DISABLED", storeOK |-> c.storeOK[k], stuckdel |-> FALSE,
                            groups |-> {}, dts |-> <<>>, dtpos |-> 0]],
               search |-> 0, dtr0 |-> 0]

Enabled(b) == {k \in 1..Len(b.gear) : b.gear[k].init = "ENABLED"}
Active(b) == {k \in 1..Len(b.gear) : b.gear[k].init # "DISABLED"}
\* draws: only units that will actually randomise choose; from round K on injective over the searching units
DrawChoices(b, round) ==
    {d \in [1..Len(b.gear) -> RandVals \cup {0}] :
        /\ \A k \in 1..Len(b.gear) : k \notin Active(b) => d[k] = 0
        /\ \A k \in Active(b) : d[k] \in RandVals
        /\ round >= K => \A x, y \in Enabled(b) : x # y => d[x] # d[y]}
NoDraw(b) == [k \in 1..Len(b.gear) |-> 0]

InSeq(x, s) == \E j \in 1..Len(s) : s[j] = x
Without(s, x) == SelectSeq(s, LAMBDA y : y # x)

(* --algorithm Commissioning {
  variables cfg \in Configs,
            bus = InitBus(cfg),
            avail = cfg.permitted,
            a = 0, finished = FALSE, low = 0, high = Top, res = NoneV,
            resp = <<"none", 0>>, count = 0, rounds = 0, outcome = "running",
            witness = FALSE, newaddr = -1, drawlog = <<>>, cmdlog = <<>>,
            cur = NoneV;      \* SkipSame: the search address the sequence believes the gear hold

  macro Yield(f) {
      with (s = Step(bus, f, NoDraw(bus))) { bus := s.bus; resp := s.resp; };
      count := count + 1;
      cmdlog := Append(cmdlog, f);
  }

  procedure find_next(lo, hi)
    variables r = <<"none", 0>>;
  {
    fn1: if (SkipSame = "no" \/ cur = NoneV \/ cur \div 65536 # hi \div 65536) { Yield(Sp("SearchaddrH", hi \div 65536)); };
    fn2: if (SkipSame = "no" \/ cur = NoneV \/ (cur \div 256) % 256 # (hi \div 256) % 256) { Yield(Sp("SearchaddrM", (hi \div 256) % 256)); };
    fn3: Yield(Sp("SearchaddrL", hi % 256));
         cur := hi;
    fn4: Yield(Sp("Compare", 0));
         r := resp;
    fn5: if (lo = hi) {
             if (r[1] # "none") { res := IF r[1] = "err" THEN Clash ELSE lo } else { res := NoneV };
             return;
         } else if (r[1] # "none") {
             call find_next(lo, (lo + hi) \div 2);
    fn6:     if (res # NoneV) { return } else {
                 call find_next(((lo + hi) \div 2) + 1, hi);
    fn7:         return;
             }
         } else { res := NoneV; return; }
  }

  {
    m0: if (cfg.readdress) {
            if (~cfg.dryrun) {
    m1:         Yield(Sp("DTR0", 255));
    m2:         Yield(Std("SetShortAddress", <<"gbcast", 0>>));
            }
        } else {
    m3:     while (a < 64) {
                if (InSeq(a, avail)) {
                    Yield(Std("QueryControlGearPresent", <<"gshort", a>>));
                    if (resp[1] # "none") { avail := Without(avail, a) };
                };
                a := a + 1;
            }
        };
    m5: Yield(Sp("Terminate", 0));
    m6: Yield(Sp("Initialise", IF cfg.readdress THEN 0 ELSE 255));
    m7: while (~finished) {
            with (d \in DrawChoices(bus, rounds)) {
                with (s = Step(bus, Sp("Randomise", 0), d)) { bus := s.bus; resp := s.resp; };
                drawlog := Append(drawlog, d);
            };
            count := count + 1;
            cmdlog := Append(cmdlog, Sp("Randomise", 0));
            rounds := rounds + 1;
            low := 0;
            high := Top;
            cur := NoneV;
    m8:     while (low # NoneV) {
                call find_next(low, high);
    m9:         if (res = Clash) { low := NoneV; goto m7; }
                else if (res = NoneV) { finished := TRUE; low := NoneV; }
                else {
                    low := res;
                    if (avail # <<>>) {
                        newaddr := Head(avail);
                        avail := Tail(avail);
                        if (~cfg.dryrun) {
                            witness := witness \/ \E k \in 1..Len(bus.gear) :
                                           bus.gear[k].init = "WITHDRAWN" /\ bus.gear[k].rand = bus.search;
    m10:                    Yield(Sp("ProgramShortAddress", 2 * newaddr + 1));
    m11:                    Yield(Sp("VerifyShortAddress", 2 * newaddr + 1));
                            if (resp[1] = "none") { outcome := "ProgramShortAddressFailure"; goto Done; };
                        };
                    };
    m12:            Yield(Sp("Withdraw", 0));
                    if (low < high) { low := low + 1 } else { low := NoneV; finished := TRUE };
                    if (SkipSame = "afterfind" /\ low # NoneV) { cur := low };
                }
            }
        };
    m13: Yield(Sp("Terminate", 0));
         outcome := "ok";
  }
} *)
\* BEGIN TRANSLATION
CONSTANT defaultInitValue
VARIABLES pc, cfg, bus, avail, a, finished, low, high, res, resp, count, 
          rounds, outcome, witness, newaddr, drawlog, cmdlog, cur, stack, lo, 
          hi, r

vars == << pc, cfg, bus, avail, a, finished, low, high, res, resp, count, 
           rounds, outcome, witness, newaddr, drawlog, cmdlog, cur, stack, lo, 
           hi, r >>

Init == (* Global variables *)
        /\ cfg \in Configs
        /\ bus = InitBus(cfg)
        /\ avail = cfg.permitted
        /\ a = 0
        /\ finished = FALSE
        /\ low = 0
        /\ high = Top
        /\ res = NoneV
        /\ resp = <<"none", 0>>
        /\ count = 0
        /\ rounds = 0
        /\ outcome = "running"
        /\ witness = FALSE
        /\ newaddr = -1
        /\ drawlog = <<>>
        /\ cmdlog = <<>>
        /\ cur = NoneV
        (* Procedure find_next *)
        /\ lo = defaultInitValue
        /\ hi = defaultInitValue
        /\ r = <<"none", 0>>
        /\ stack = << >>
        /\ pc = "m0"

fn1 == /\ pc = "fn1"
       /\ IF SkipSame = "no" \/ cur = NoneV \/ cur \div 65536 # hi \div 65536
             THEN /\ LET s == Step(bus, (Sp("SearchaddrH", hi \div 65536)), NoDraw(bus)) IN
                       /\ bus' = s.bus
                       /\ resp' = s.resp
                  /\ count' = count + 1
                  /\ cmdlog' = Append(cmdlog, (Sp("SearchaddrH", hi \div 65536)))
             ELSE /\ TRUE
                  /\ UNCHANGED << bus, resp, count, cmdlog >>
       /\ pc' = "fn2"
       /\ UNCHANGED << cfg, avail, a, finished, low, high, res, rounds, 
                       outcome, witness, newaddr, drawlog, cur, stack, lo, hi, 
                       r >>

fn2 == /\ pc = "fn2"
       /\ IF SkipSame = "no" \/ cur = NoneV \/ (cur \div 256) % 256 # (hi \div 256) % 256
             THEN /\ LET s == Step(bus, (Sp("SearchaddrM", (hi \div 256) % 256)), NoDraw(bus)) IN
                       /\ bus' = s.bus
                       /\ resp' = s.resp
                  /\ count' = count + 1
                  /\ cmdlog' = Append(cmdlog, (Sp("SearchaddrM", (hi \div 256) % 256)))
             ELSE /\ TRUE
                  /\ UNCHANGED << bus, resp, count, cmdlog >>
       /\ pc' = "fn3"
       /\ UNCHANGED << cfg, avail, a, finished, low, high, res, rounds, 
                       outcome, witness, newaddr, drawlog, cur, stack, lo, hi, 
                       r >>

fn3 == /\ pc = "fn3"
       /\ LET s == Step(bus, (Sp("SearchaddrL", hi % 256)), NoDraw(bus)) IN
            /\ bus' = s.bus
            /\ resp' = s.resp
       /\ count' = count + 1
       /\ cmdlog' = Append(cmdlog, (Sp("SearchaddrL", hi % 256)))
       /\ cur' = hi
       /\ pc' = "fn4"
       /\ UNCHANGED << cfg, avail, a, finished, low, high, res, rounds, 
                       outcome, witness, newaddr, drawlog, stack, lo, hi, r >>

fn4 == /\ pc = "fn4"
       /\ LET s == Step(bus, (Sp("Compare", 0)), NoDraw(bus)) IN
            /\ bus' = s.bus
            /\ resp' = s.resp
       /\ count' = count + 1
       /\ cmdlog' = Append(cmdlog, (Sp("Compare", 0)))
       /\ r' = resp'
       /\ pc' = "fn5"
       /\ UNCHANGED << cfg, avail, a, finished, low, high, res, rounds, 
                       outcome, witness, newaddr, drawlog, cur, stack, lo, hi >>

fn5 == /\ pc = "fn5"
       /\ IF lo = hi
             THEN /\ IF r[1] # "none"
                        THEN /\ res' = (IF r[1] = "err" THEN Clash ELSE lo)
                        ELSE /\ res' = NoneV
                  /\ pc' = Head(stack).pc
                  /\ r' = Head(stack).r
                  /\ lo' = Head(stack).lo
                  /\ hi' = Head(stack).hi
                  /\ stack' = Tail(stack)
             ELSE /\ IF r[1] # "none"
                        THEN /\ /\ hi' = ((lo + hi) \div 2)
                                /\ lo' = lo
                                /\ stack' = << [ procedure |->  "find_next",
                                                 pc        |->  "fn6",
                                                 r         |->  r,
                                                 lo        |->  lo,
                                                 hi        |->  hi ] >>
                                             \o stack
                             /\ r' = <<"none", 0>>
                             /\ pc' = "fn1"
                             /\ res' = res
                        ELSE /\ res' = NoneV
                             /\ pc' = Head(stack).pc
                             /\ r' = Head(stack).r
                             /\ lo' = Head(stack).lo
                             /\ hi' = Head(stack).hi
                             /\ stack' = Tail(stack)
       /\ UNCHANGED << cfg, bus, avail, a, finished, low, high, resp, count, 
                       rounds, outcome, witness, newaddr, drawlog, cmdlog, cur >>

fn6 == /\ pc = "fn6"
       /\ IF res # NoneV
             THEN /\ pc' = Head(stack).pc
                  /\ r' = Head(stack).r
                  /\ lo' = Head(stack).lo
                  /\ hi' = Head(stack).hi
                  /\ stack' = Tail(stack)
             ELSE /\ /\ hi' = hi
                     /\ lo' = ((lo + hi) \div 2) + 1
                     /\ stack' = << [ procedure |->  "find_next",
                                      pc        |->  "fn7",
                                      r         |->  r,
                                      lo        |->  lo,
                                      hi        |->  hi ] >>
                                  \o stack
                  /\ r' = <<"none", 0>>
                  /\ pc' = "fn1"
       /\ UNCHANGED << cfg, bus, avail, a, finished, low, high, res, resp, 
                       count, rounds, outcome, witness, newaddr, drawlog, 
                       cmdlog, cur >>

fn7 == /\ pc = "fn7"
       /\ pc' = Head(stack).pc
       /\ r' = Head(stack).r
       /\ lo' = Head(stack).lo
       /\ hi' = Head(stack).hi
       /\ stack' = Tail(stack)
       /\ UNCHANGED << cfg, bus, avail, a, finished, low, high, res, resp, 
                       count, rounds, outcome, witness, newaddr, drawlog, 
                       cmdlog, cur >>

find_next == fn1 \/ fn2 \/ fn3 \/ fn4 \/ fn5 \/ fn6 \/ fn7

m0 == /\ pc = "m0"
      /\ IF cfg.readdress
            THEN /\ IF ~cfg.dryrun
                       THEN /\ pc' = "m1"
                       ELSE /\ pc' = "m5"
            ELSE /\ pc' = "m3"
      /\ UNCHANGED << cfg, bus, avail, a, finished, low, high, res, resp, 
                      count, rounds, outcome, witness, newaddr, drawlog, 
                      cmdlog, cur, stack, lo, hi, r >>

m3 == /\ pc = "m3"
      /\ IF a < 64
            THEN /\ IF InSeq(a, avail)
                       THEN /\ LET s == Step(bus, (Std("QueryControlGearPresent", <<"gshort", a>>)), NoDraw(bus)) IN
                                 /\ bus' = s.bus
                                 /\ resp' = s.resp
                            /\ count' = count + 1
                            /\ cmdlog' = Append(cmdlog, (Std("QueryControlGearPresent", <<"gshort", a>>)))
                            /\ IF resp'[1] # "none"
                                  THEN /\ avail' = Without(avail, a)
                                  ELSE /\ TRUE
                                       /\ avail' = avail
                       ELSE /\ TRUE
                            /\ UNCHANGED << bus, avail, resp, count, cmdlog >>
                 /\ a' = a + 1
                 /\ pc' = "m3"
            ELSE /\ pc' = "m5"
                 /\ UNCHANGED << bus, avail, a, resp, count, cmdlog >>
      /\ UNCHANGED << cfg, finished, low, high, res, rounds, outcome, witness, 
                      newaddr, drawlog, cur, stack, lo, hi, r >>

m1 == /\ pc = "m1"
      /\ LET s == Step(bus, (Sp("DTR0", 255)), NoDraw(bus)) IN
           /\ bus' = s.bus
           /\ resp' = s.resp
      /\ count' = count + 1
      /\ cmdlog' = Append(cmdlog, (Sp("DTR0", 255)))
      /\ pc' = "m2"
      /\ UNCHANGED << cfg, avail, a, finished, low, high, res, rounds, outcome, 
                      witness, newaddr, drawlog, cur, stack, lo, hi, r >>

m2 == /\ pc = "m2"
      /\ LET s == Step(bus, (Std("SetShortAddress", <<"gbcast", 0>>)), NoDraw(bus)) IN
           /\ bus' = s.bus
           /\ resp' = s.resp
      /\ count' = count + 1
      /\ cmdlog' = Append(cmdlog, (Std("SetShortAddress", <<"gbcast", 0>>)))
      /\ pc' = "m5"
      /\ UNCHANGED << cfg, avail, a, finished, low, high, res, rounds, outcome, 
                      witness, newaddr, drawlog, cur, stack, lo, hi, r >>

m5 == /\ pc = "m5"
      /\ LET s == Step(bus, (Sp("Terminate", 0)), NoDraw(bus)) IN
           /\ bus' = s.bus
           /\ resp' = s.resp
      /\ count' = count + 1
      /\ cmdlog' = Append(cmdlog, (Sp("Terminate", 0)))
      /\ pc' = "m6"
      /\ UNCHANGED << cfg, avail, a, finished, low, high, res, rounds, outcome, 
                      witness, newaddr, drawlog, cur, stack, lo, hi, r >>

m6 == /\ pc = "m6"
      /\ LET s == Step(bus, (Sp("Initialise", IF cfg.readdress THEN 0 ELSE 255)), NoDraw(bus)) IN
           /\ bus' = s.bus
           /\ resp' = s.resp
      /\ count' = count + 1
      /\ cmdlog' = Append(cmdlog, (Sp("Initialise", IF cfg.readdress THEN 0 ELSE 255)))
      /\ pc' = "m7"
      /\ UNCHANGED << cfg, avail, a, finished, low, high, res, rounds, outcome, 
                      witness, newaddr, drawlog, cur, stack, lo, hi, r >>

m7 == /\ pc = "m7"
      /\ IF ~finished
            THEN /\ \E d \in DrawChoices(bus, rounds):
                      /\ LET s == Step(bus, Sp("Randomise", 0), d) IN
                           /\ bus' = s.bus
                           /\ resp' = s.resp
                      /\ drawlog' = Append(drawlog, d)
                 /\ count' = count + 1
                 /\ cmdlog' = Append(cmdlog, Sp("Randomise", 0))
                 /\ rounds' = rounds + 1
                 /\ low' = 0
                 /\ high' = Top
                 /\ cur' = NoneV
                 /\ pc' = "m8"
            ELSE /\ pc' = "m13"
                 /\ UNCHANGED << bus, low, high, resp, count, rounds, drawlog, 
                                 cmdlog, cur >>
      /\ UNCHANGED << cfg, avail, a, finished, res, outcome, witness, newaddr, 
                      stack, lo, hi, r >>

m8 == /\ pc = "m8"
      /\ IF low # NoneV
            THEN /\ /\ hi' = high
                    /\ lo' = low
                    /\ stack' = << [ procedure |->  "find_next",
                                     pc        |->  "m9",
                                     r         |->  r,
                                     lo        |->  lo,
                                     hi        |->  hi ] >>
                                 \o stack
                 /\ r' = <<"none", 0>>
                 /\ pc' = "fn1"
            ELSE /\ pc' = "m7"
                 /\ UNCHANGED << stack, lo, hi, r >>
      /\ UNCHANGED << cfg, bus, avail, a, finished, low, high, res, resp, 
                      count, rounds, outcome, witness, newaddr, drawlog, 
                      cmdlog, cur >>

m9 == /\ pc = "m9"
      /\ IF res = Clash
            THEN /\ low' = NoneV
                 /\ pc' = "m7"
                 /\ UNCHANGED << avail, finished, witness, newaddr >>
            ELSE /\ IF res = NoneV
                       THEN /\ finished' = TRUE
                            /\ low' = NoneV
                            /\ pc' = "m8"
                            /\ UNCHANGED << avail, witness, newaddr >>
                       ELSE /\ low' = res
                            /\ IF avail # <<>>
                                  THEN /\ newaddr' = Head(avail)
                                       /\ avail' = Tail(avail)
                                       /\ IF ~cfg.dryrun
                                             THEN /\ witness' = (witness \/ \E k \in 1..Len(bus.gear) :
                                                                     bus.gear[k].init = "WITHDRAWN" /\ bus.gear[k].rand = bus.search)
                                                  /\ pc' = "m10"
                                             ELSE /\ pc' = "m12"
                                                  /\ UNCHANGED witness
                                  ELSE /\ pc' = "m12"
                                       /\ UNCHANGED << avail, witness, newaddr >>
                            /\ UNCHANGED finished
      /\ UNCHANGED << cfg, bus, a, high, res, resp, count, rounds, outcome, 
                      drawlog, cmdlog, cur, stack, lo, hi, r >>

m12 == /\ pc = "m12"
       /\ LET s == Step(bus, (Sp("Withdraw", 0)), NoDraw(bus)) IN
            /\ bus' = s.bus
            /\ resp' = s.resp
       /\ count' = count + 1
       /\ cmdlog' = Append(cmdlog, (Sp("Withdraw", 0)))
       /\ IF low < high
             THEN /\ low' = low + 1
                  /\ UNCHANGED finished
             ELSE /\ low' = NoneV
                  /\ finished' = TRUE
       /\ IF SkipSame = "afterfind" /\ low' # NoneV
             THEN /\ cur' = low'
             ELSE /\ TRUE
                  /\ cur' = cur
       /\ pc' = "m8"
       /\ UNCHANGED << cfg, avail, a, high, res, rounds, outcome, witness, 
                       newaddr, drawlog, stack, lo, hi, r >>

m10 == /\ pc = "m10"
       /\ LET s == Step(bus, (Sp("ProgramShortAddress", 2 * newaddr + 1)), NoDraw(bus)) IN
            /\ bus' = s.bus
            /\ resp' = s.resp
       /\ count' = count + 1
       /\ cmdlog' = Append(cmdlog, (Sp("ProgramShortAddress", 2 * newaddr + 1)))
       /\ pc' = "m11"
       /\ UNCHANGED << cfg, avail, a, finished, low, high, res, rounds, 
                       outcome, witness, newaddr, drawlog, cur, stack, lo, hi, 
                       r >>

m11 == /\ pc = "m11"
       /\ LET s == Step(bus, (Sp("VerifyShortAddress", 2 * newaddr + 1)), NoDraw(bus)) IN
            /\ bus' = s.bus
            /\ resp' = s.resp
       /\ count' = count + 1
       /\ cmdlog' = Append(cmdlog, (Sp("VerifyShortAddress", 2 * newaddr + 1)))
       /\ IF resp'[1] = "none"
             THEN /\ outcome' = "ProgramShortAddressFailure"
                  /\ pc' = "Done"
             ELSE /\ pc' = "m12"
                  /\ UNCHANGED outcome
       /\ UNCHANGED << cfg, avail, a, finished, low, high, res, rounds, 
                       witness, newaddr, drawlog, cur, stack, lo, hi, r >>

m13 == /\ pc = "m13"
       /\ LET s == Step(bus, (Sp("Terminate", 0)), NoDraw(bus)) IN
            /\ bus' = s.bus
            /\ resp' = s.resp
       /\ count' = count + 1
       /\ cmdlog' = Append(cmdlog, (Sp("Terminate", 0)))
       /\ outcome' = "ok"
       /\ pc' = "Done"
       /\ UNCHANGED << cfg, avail, a, finished, low, high, res, rounds, 
                       witness, newaddr, drawlog, cur, stack, lo, hi, r >>

(* Allow infinite stuttering to prevent deadlock on termination. *)
Terminating == pc = "Done" /\ UNCHANGED vars

Next == find_next \/ m0 \/ m3 \/ m1 \/ m2 \/ m5 \/ m6 \/ m7 \/ m8 \/ m9
           \/ m12 \/ m10 \/ m11 \/ m13
           \/ Terminating

Spec == Init /\ [][Next]_vars

Termination == <>(pc = "Done")

\* END TRANSLATION

\* ---- the clauses of C07 (CommClauses) at termination ---------------------------
AtEnd == pc = "Done"
FinalShorts == Shorts(bus)
InvP1 == AtEnd => P1(cfg, Inits(bus), outcome)
InvP2 == AtEnd /\ ~witness => P2(cfg, FinalShorts, outcome)
InvP3 == AtEnd /\ ~witness => P3(cfg, FinalShorts, outcome)
InvP3NoExclusion == AtEnd => P3(cfg, FinalShorts, outcome)       \* expected to FAIL: the known finding
InvP4 == AtEnd /\ ~witness => P4(cfg, FinalShorts)
InvP5 == AtEnd => P5(cfg, outcome)
InvP6 == P6(cfg, count, K + 1)
Terminates == <>(pc = "Done")
\* scenario export for replay on the real generator (used with -simulate)
Export == AtEnd => PrintT(<<"SCEN", cfg, drawlog, outcome, FinalShorts, witness, count>>)
=============================================================================
