SPECIFICATION Spec
CONSTANT Vals = {0, 1, 2, 3, 100, 253, 254, 255}
CONSTANT PHM = 3
CONSTANT Quirks = FALSE
CONSTANT Export = FALSE
INVARIANT TypeOK
INVARIANT LimitsOrdered
INVARIANT LevelInLimits
PROPERTY ZeroSceneIsOff
PROPERTY MaskKeeps
PROPERTY OnlyOffGoesDark
CHECK_DEADLOCK FALSE
