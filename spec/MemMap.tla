------------------------------ MODULE MemMap ------------------------------
(* The memory map of IEC 62386-102 (bank 0, 2014 and legacy 2009 layout),     *)
(* DiiA part 251 (bank 1), part 252 (banks 202-204) and part 253 (banks       *)
(* 205-207), and the interpretation rules of the values (C11); also used by   *)
(* the memory access unit model (C09, C10).                                   *)
(*                                                                            *)
(* Row: <<bank, Name, first location, width, access type(s), decoder, min,    *)
(*        max, MASK supported, TMASK supported, src>>                         *)
(*   access type: one letter for all locations or one per location:           *)
(*     R ROM, r RAM-RO, W RAM-RW, n NVM-RO, N NVM-RW, L NVM-RW lockable       *)
(*   decoder: num (unsigned, MSB first) | ver1 | ver2 | str | bin | temp      *)
(*     (value - 60) | fixed:<e> (number x 10^e) | scaled (first byte: signed  *)
(*     power of ten -6..6, rest: number) | cct | ldt                          *)
(*   min: -1 = none; max: "-" none, a decimal number, or "W-3" = 2^(8w)-3     *)
(*     where w = number of bytes of the number (all-ones = MASK, all-ones - 1 *)
(*     = TMASK, so the largest valid value is all-ones - 2)                   *)
(*   src: "std" layout and flags stated from the documents; "doc" the MASK /  *)
(*     TMASK / limit columns could only be confirmed against the library      *)
(* Bank "0L" is bank 0 in the layout of IEC 62386-102:2009.                   *)
EXTENDS Naturals, Integers, Sequences, FiniteSets, TLC

Map == <<
  <<"0","LastAddress",0,1,"R","num",-1,"-",FALSE,FALSE,"std">>,
  <<"0","LastMemoryBank",2,1,"R","num",-1,"-",FALSE,FALSE,"std">>,
  <<"0","GTIN",3,6,"R","num",-1,"-",FALSE,FALSE,"std">>,
  <<"0","FirmwareVersion",9,2,"R","ver2",-1,"-",FALSE,FALSE,"std">>,
  <<"0","IdentificationNumber",11,8,"R","num",-1,"-",FALSE,FALSE,"std">>,
  <<"0","HardwareVersion",19,2,"R","ver2",-1,"-",FALSE,FALSE,"std">>,
  <<"0","Part101Version",21,1,"R","ver1",-1,"-",FALSE,FALSE,"std">>,
  <<"0","Part102Version",22,1,"R","ver1",-1,"-",FALSE,FALSE,"std">>,
  <<"0","Part103Version",23,1,"R","ver1",-1,"-",FALSE,FALSE,"std">>,
  <<"0","DeviceUnitCount",24,1,"R","num",-1,"64",FALSE,FALSE,"std">>,
  <<"0","GearUnitCount",25,1,"R","num",-1,"64",FALSE,FALSE,"std">>,
  <<"0","UnitIndex",26,1,"R","num",-1,"-",FALSE,FALSE,"std">>,
  <<"0L","LastAddress",0,1,"R","num",-1,"-",FALSE,FALSE,"std">>,
  <<"0L","LastMemoryBank_legacy",2,1,"R","num",-1,"-",FALSE,FALSE,"std">>,
  <<"0L","GTIN_legacy",3,6,"R","num",-1,"-",FALSE,FALSE,"std">>,
  <<"0L","FirmwareVersion_legacy",9,2,"R","ver2",-1,"-",FALSE,FALSE,"std">>,
  <<"0L","IdentifictionNumber_legacy",11,4,"R","num",-1,"-",FALSE,FALSE,"std">>,
  <<"1","LastAddress",0,1,"R","num",-1,"-",FALSE,FALSE,"std">>,
  <<"1","LockByte",2,1,"W","num",-1,"-",FALSE,FALSE,"std">>,
  <<"1","ManufacturerGTIN",3,6,"L","num",-1,"-",FALSE,FALSE,"std">>,
  <<"1","LuminaireID",9,8,"L","num",-1,"-",FALSE,FALSE,"std">>,
  <<"1","ContentFormatID",17,2,"L","num",-1,"-",FALSE,FALSE,"std">>,
  <<"1","YearOfManufacture",19,1,"L","num",-1,"99",TRUE,FALSE,"std">>,
  <<"1","WeekOfManufacture",20,1,"L","num",1,"53",TRUE,FALSE,"std">>,
  <<"1","InputPowerNominal",21,2,"L","num",-1,"-",TRUE,FALSE,"std">>,
  <<"1","InputPowerMinimumDim",23,2,"L","num",-1,"-",TRUE,FALSE,"std">>,
  <<"1","MainsVoltageMinimum",25,2,"L","num",90,"480",TRUE,FALSE,"std">>,
  <<"1","MainsVoltageMaximum",27,2,"L","num",90,"480",TRUE,FALSE,"std">>,
  <<"1","LightOutputNominal",29,3,"L","num",-1,"-",TRUE,FALSE,"std">>,
  <<"1","CRI",32,1,"L","num",-1,"100",TRUE,FALSE,"std">>,
  <<"1","CCT",33,2,"L","cct",-1,"17000",TRUE,FALSE,"std">>,
  <<"1","LightDistributionType",35,1,"L","ldt",-1,"-",TRUE,FALSE,"std">>,
  <<"1","LuminaireColor",36,24,"L","str",-1,"-",FALSE,FALSE,"std">>,
  <<"1","LuminaireIdentification",60,60,"L","str",-1,"-",FALSE,FALSE,"std">>,
  <<"202","LastAddress",0,1,"R","num",-1,"-",FALSE,FALSE,"std">>,
  <<"202","LockByte",2,1,"W","num",-1,"-",FALSE,FALSE,"std">>,
  <<"202","ActiveBankVersion",3,1,"R","num",-1,"-",FALSE,FALSE,"std">>,
  <<"202","ActiveEnergy",4,7,"Rnnnnnn","scaled",-1,"W-3",FALSE,TRUE,"std">>,
  <<"202","ActivePower",11,5,"Rrrrr","scaled",-1,"W-3",FALSE,TRUE,"std">>,
  <<"203","LastAddress",0,1,"R","num",-1,"-",FALSE,FALSE,"std">>,
  <<"203","LockByte",2,1,"W","num",-1,"-",FALSE,FALSE,"std">>,
  <<"203","ApparentBankVersion",3,1,"R","num",-1,"-",FALSE,FALSE,"std">>,
  <<"203","ApparentEnergy",4,7,"Rnnnnnn","scaled",-1,"W-3",FALSE,TRUE,"std">>,
  <<"203","ApparentPower",11,5,"Rrrrr","scaled",-1,"W-3",FALSE,TRUE,"std">>,
  <<"204","LastAddress",0,1,"R","num",-1,"-",FALSE,FALSE,"std">>,
  <<"204","LockByte",2,1,"W","num",-1,"-",FALSE,FALSE,"std">>,
  <<"204","LoadsideBankVersion",3,1,"R","num",-1,"-",FALSE,FALSE,"std">>,
  <<"204","ActiveEnergyLoadside",4,7,"Rnnnnnn","scaled",-1,"W-3",FALSE,TRUE,"std">>,
  <<"204","ActivePowerLoadside",11,5,"Rrrrr","scaled",-1,"W-3",FALSE,TRUE,"std">>,
  <<"205","LastAddress",0,1,"R","num",-1,"-",FALSE,FALSE,"std">>,
  <<"205","LockByte",2,1,"W","num",-1,"-",FALSE,FALSE,"std">>,
  <<"205","ControlGearDiagnosticBankVersion",3,1,"R","num",-1,"-",FALSE,FALSE,"std">>,
  <<"205","ControlGearOperatingTime",4,4,"n","num",-1,"W-3",FALSE,TRUE,"doc">>,
  <<"205","ControlGearStartCounter",8,3,"n","num",-1,"W-3",FALSE,TRUE,"doc">>,
  <<"205","ControlGearExternalSupplyVoltage",11,2,"r","fixed:-1",-1,"W-3",TRUE,TRUE,"doc">>,
  <<"205","ControlGearExternalSupplyVoltageFrequency",13,1,"r","num",-1,"W-3",TRUE,TRUE,"doc">>,
  <<"205","ControlGearPowerFactor",14,1,"r","fixed:-2",-1,"100",TRUE,TRUE,"doc">>,
  <<"205","ControlGearOverallFailureCondition",15,1,"r","bin",-1,"-",FALSE,TRUE,"doc">>,
  <<"205","ControlGearOverallFailureConditionCounter",16,1,"n","num",-1,"W-3",FALSE,TRUE,"doc">>,
  <<"205","ControlGearExternalSupplyUndervoltage",17,1,"r","bin",-1,"-",TRUE,TRUE,"doc">>,
  <<"205","ControlGearExternalSupplyUndervoltageCounter",18,1,"n","num",-1,"W-3",TRUE,TRUE,"doc">>,
  <<"205","ControlGearExternalSupplyOvervoltage",19,1,"r","bin",-1,"-",TRUE,TRUE,"doc">>,
  <<"205","ControlGearExternalSupplyOvervoltageCounter",20,1,"n","num",-1,"W-3",TRUE,TRUE,"doc">>,
  <<"205","ControlGearOutputPowerLimitation",21,1,"r","bin",-1,"-",TRUE,TRUE,"doc">>,
  <<"205","ControlGearOutputPowerLimitationCounter",22,1,"n","num",-1,"W-3",TRUE,TRUE,"doc">>,
  <<"205","ControlGearThermalDerating",23,1,"r","bin",-1,"-",TRUE,TRUE,"doc">>,
  <<"205","ControlGearThermalDeratingCounter",24,1,"n","num",-1,"W-3",TRUE,TRUE,"doc">>,
  <<"205","ControlGearThermalShutdown",25,1,"r","bin",-1,"-",TRUE,TRUE,"doc">>,
  <<"205","ControlGearThermalShutdownCounter",26,1,"n","num",-1,"W-3",TRUE,TRUE,"doc">>,
  <<"205","ControlGearTemperature",27,1,"r","temp",-1,"W-3",FALSE,TRUE,"doc">>,
  <<"205","ControlGearOutputCurrentPercent",28,1,"r","num",-1,"100",FALSE,TRUE,"doc">>,
  <<"206","LastAddress",0,1,"R","num",-1,"-",FALSE,FALSE,"std">>,
  <<"206","LockByte",2,1,"W","num",-1,"-",FALSE,FALSE,"std">>,
  <<"206","LightSourceDiagnosticBankVersion",3,1,"R","num",-1,"-",FALSE,FALSE,"std">>,
  <<"206","LightSourceStartCounterResettable",4,3,"N","num",-1,"W-3",FALSE,TRUE,"doc">>,
  <<"206","LightSourceStartCounter",7,3,"n","num",-1,"W-3",FALSE,TRUE,"doc">>,
  <<"206","LightSourceOnTimeResettable",10,4,"N","num",-1,"W-3",FALSE,TRUE,"doc">>,
  <<"206","LightSourceOnTime",14,4,"n","num",-1,"W-3",FALSE,TRUE,"doc">>,
  <<"206","LightSourceVoltage",18,2,"r","fixed:-1",-1,"W-3",FALSE,TRUE,"doc">>,
  <<"206","LightSourceCurrent",20,2,"r","fixed:-3",-1,"W-3",FALSE,TRUE,"doc">>,
  <<"206","LightSourceOverallFailureCondition",22,1,"r","bin",-1,"-",FALSE,TRUE,"doc">>,
  <<"206","LightSourceOverallFailureConditionCounter",23,1,"n","num",-1,"W-3",FALSE,TRUE,"doc">>,
  <<"206","LightSourceShortCircuit",24,1,"r","bin",-1,"-",TRUE,TRUE,"doc">>,
  <<"206","LightSourceShortCircuitCounter",25,1,"n","num",-1,"W-3",TRUE,TRUE,"doc">>,
  <<"206","LightSourceOpenCircuit",26,1,"r","bin",-1,"-",TRUE,TRUE,"doc">>,
  <<"206","LightSourceOpenCircuitCounter",27,1,"n","num",-1,"W-3",TRUE,TRUE,"doc">>,
  <<"206","LightSourceThermalDerating",28,1,"r","bin",-1,"-",TRUE,TRUE,"doc">>,
  <<"206","LightSourceThermalDeratingCounter",29,1,"n","num",-1,"W-3",TRUE,TRUE,"doc">>,
  <<"206","LightSourceThermalShutdown",30,1,"r","bin",-1,"-",TRUE,TRUE,"doc">>,
  <<"206","LightSourceThermalShutdownCounter",31,1,"n","num",-1,"W-3",TRUE,TRUE,"doc">>,
  <<"206","LightSourceTemperature",32,1,"r","temp",-1,"W-3",TRUE,TRUE,"doc">>,
  <<"207","LastAddress",0,1,"R","num",-1,"-",FALSE,FALSE,"std">>,
  <<"207","LockByte",2,1,"W","num",-1,"-",FALSE,FALSE,"std">>,
  <<"207","LuminaireMaintenanceBankVersion",3,1,"R","num",-1,"-",FALSE,FALSE,"std">>,
  <<"207","RatedMedianUsefulLifeOfLuminaire",4,1,"L","fixed:3",-1,"W-3",TRUE,TRUE,"doc">>,
  <<"207","InternalControlGearReferenceTemperature",5,1,"L","temp",-1,"W-3",TRUE,TRUE,"doc">>,
  <<"207","RatedMedianUsefulLightSourceStarts",6,2,"L","fixed:2",-1,"W-3",TRUE,TRUE,"doc">> >>

\* bank -> [lock, latch]: whether location 2 is a lock byte (0x55 unlocks lockable locations) and whether
\* writing 0xAA to it latches the bank (DiiA 252/253)
BankProps == [b0 |-> [lock |-> FALSE, latch |-> FALSE], b0L |-> [lock |-> FALSE, latch |-> FALSE],
              b1 |-> [lock |-> TRUE, latch |-> FALSE],
              b202 |-> [lock |-> FALSE, latch |-> TRUE], b203 |-> [lock |-> FALSE, latch |-> TRUE],
              b204 |-> [lock |-> FALSE, latch |-> TRUE],
              b205 |-> [lock |-> TRUE, latch |-> TRUE], b206 |-> [lock |-> TRUE, latch |-> TRUE],
              b207 |-> [lock |-> TRUE, latch |-> FALSE]]
Props(bank) == CASE bank = "0" -> BankProps.b0 [] bank = "0L" -> BankProps.b0L [] bank = "1" -> BankProps.b1
                 [] bank = "202" -> BankProps.b202 [] bank = "203" -> BankProps.b203 [] bank = "204" -> BankProps.b204
                 [] bank = "205" -> BankProps.b205 [] bank = "206" -> BankProps.b206 [] bank = "207" -> BankProps.b207
BankNumber(bank) == CASE bank \in {"0", "0L"} -> 0 [] bank = "1" -> 1 [] bank = "202" -> 202 [] bank = "203" -> 203
                      [] bank = "204" -> 204 [] bank = "205" -> 205 [] bank = "206" -> 206 [] bank = "207" -> 207
Banks == {"0", "0L", "1", "202", "203", "204", "205", "206", "207"}

RowsOf(bank) == {i \in 1..Len(Map) : Map[i][1] = bank}
LocsOf(r) == r[3]..(r[3] + r[4] - 1)
TypeAt(r, loc) == IF Len(r[5]) = 1 THEN r[5] ELSE SubSeq(r[5], loc - r[3] + 1, loc - r[3] + 1)
Writable(t) == t \in {"W", "N", "L"}
Lockable(t) == t = "L"

\* ---- interpretation of raw bytes (sequence of 0..255, most significant first) -------------------
AllFF(b) == \A i \in 1..Len(b) : b[i] = 255
FFsThen(b, last) == Len(b) >= 1 /\ b[Len(b)] = last /\ \A i \in 1..(Len(b) - 1) : b[i] = 255

\* lexicographic comparison of equal-length big-endian byte strings
RECURSIVE LeqBytes(_, _)
LeqBytes(a, b) == IF a = <<>> THEN TRUE
                  ELSE IF a[1] < b[1] THEN TRUE
                  ELSE IF a[1] > b[1] THEN FALSE ELSE LeqBytes(Tail(a), Tail(b))
\* small number (< 2^31) as big-endian bytes of the given width
BytesOf(n, w) == [i \in 1..w |-> (n \div (256 ^ (w - i))) % 256]
\* value of a short byte string (width <= 3)
RECURSIVE ValOf(_)
ValOf(b) == IF b = <<>> THEN 0 ELSE b[Len(b)] + 256 * ValOf(SubSeq(b, 1, Len(b) - 1))

NumBytes(r, raw) == IF r[6] = "scaled" THEN Tail(raw) ELSE raw

\* decimal text of a limit -> number (limits are < 2^31)
Digit(c) == CHOOSE d \in 0..9 : ToString(d) = c
RECURSIVE DecVal(_)
DecVal(s) == IF s = "" THEN 0 ELSE Digit(SubSeq(s, Len(s), Len(s))) + 10 * DecVal(SubSeq(s, 1, Len(s) - 1))

InRange(r, nb) ==
    LET w == Len(nb)
        maxok == IF r[8] = "-" THEN TRUE
                 ELSE IF r[8] = "W-3" THEN ~(AllFF(nb) \/ FFsThen(nb, 254))
                 ELSE IF w <= 3 THEN ValOf(nb) <= DecVal(r[8])
                 ELSE LeqBytes(nb, BytesOf(DecVal(r[8]), w))
        minok == IF r[7] = -1 THEN TRUE ELSE IF w <= 3 THEN ValOf(nb) >= r[7] ELSE TRUE
    IN maxok /\ minok

ScaleValid(s) == s <= 6 \/ s >= 250

\* the flag an interpretation must report, "" when the bytes are a value.
\* "mask?" / "tmask?" / "invalid?": the statement leaves the precedence open (invalid scale byte together with a
\* MASK/TMASK pattern) -- either reading is accepted
Flag(r, raw) ==
    LET nb == NumBytes(r, raw)
        isMask == r[9] /\ AllFF(nb)
        isTMask == r[10] /\ FFsThen(nb, 254)
        dec == r[6]
    IN IF dec = "scaled" /\ ~ScaleValid(raw[1]) THEN (IF isMask \/ isTMask THEN "invalid-or-mask" ELSE "Invalid")
       ELSE IF isMask THEN "MASK"
       ELSE IF isTMask THEN "TMASK"
       ELSE IF dec \in {"num", "temp", "scaled"} \/ SubSeq(dec, 1, 3) = "fix" THEN (IF InRange(r, nb) THEN "" ELSE "Invalid")
       ELSE IF dec = "cct" THEN (IF raw = <<255, 254>> \/ InRange(r, nb) THEN "" ELSE "Invalid")
       ELSE IF dec = "bin" THEN (IF raw[1] \in {0, 1} THEN "" ELSE "Invalid")
       ELSE IF dec = "str" THEN
            LET nul == {i \in 1..Len(raw) : raw[i] = 0}
                upto == IF nul = {} THEN Len(raw) ELSE (CHOOSE i \in nul : \A j \in nul : i <= j) - 1
            IN IF \E i \in 1..upto : raw[i] >= 128 THEN "Invalid" ELSE ""
       ELSE ""

\* the text bytes of a string value: up to the first NUL
StrBytes(raw) ==
    LET nul == {i \in 1..Len(raw) : raw[i] = 0}
        upto == IF nul = {} THEN Len(raw) ELSE (CHOOSE i \in nul : \A j \in nul : i <= j) - 1
    IN SubSeq(raw, 1, upto)

FixedExp(dec) == CASE dec = "fixed:-1" -> -1 [] dec = "fixed:-2" -> -2 [] dec = "fixed:-3" -> -3
                   [] dec = "fixed:2" -> 2 [] dec = "fixed:3" -> 3
Pow10(n) == 10 ^ n
SignedByte(b) == IF b >= 128 THEN b - 256 ELSE b

\* digits (most significant first) -> big-endian bytes of the given width, by Horner in base 256
MulAdd(bytes, m, a) ==       \* bytes * m + a on a big-endian byte string (overflow dropped)
    LET w == Len(bytes)
        step(acc, i) == LET k == w + 1 - i
                            t == bytes[k] * m + acc.carry
                        IN [out |-> [acc.out EXCEPT ![k] = t % 256], carry |-> t \div 256]
        RECURSIVE Go(_, _)
        Go(acc, i) == IF i > w THEN acc ELSE Go(step(acc, i), i + 1)
    IN Go([out |-> bytes, carry |-> a], 1).out
RECURSIVE DigitsToBytes(_, _, _)
DigitsToBytes(ds, k, acc) == IF k > Len(ds) THEN acc ELSE DigitsToBytes(ds, k + 1, MulAdd(acc, 10, ds[k]))
Zeros(w) == [i \in 1..w |-> 0]
RECURSIVE Times10(_, _)
Times10(b, k) == IF k = 0 THEN b ELSE Times10(MulAdd(b, 10, 0), k - 1)

\* Is the recorded interpretation c of raw bytes right for row r?
\* c = [k |-> "flag"|"int"|"dec"|"str"|"bool"|"text"|"exc", flag, neg, bytes (big-endian, width of the number),
\*      digits, exp, small (integer for k = "int" when it fits), s (string)]
ValueOK(r, raw, c) ==
    LET f == Flag(r, raw)
        dec == r[6]
        nb == NumBytes(r, raw)
    IN IF c.k = "exc" THEN FALSE
       ELSE IF f = "invalid-or-mask" THEN c.k = "flag" /\ c.flag \in {"Invalid", "MASK", "TMASK"}
       ELSE IF f # "" THEN c.k = "flag" /\ c.flag = f
       ELSE
       CASE dec = "num" -> c.k = "int" /\ ~c.neg /\ c.bytes = nb
         [] dec = "cct" -> IF raw = <<255, 254>> THEN c.k = "text" ELSE c.k = "int" /\ ~c.neg /\ c.bytes = nb
         [] dec = "temp" -> c.k = "int" /\ c.small = raw[1] - 60
         [] dec = "bin" -> c.k = "bool" /\ c.small = raw[1]
         [] dec = "ldt" -> c.k = "text"
         [] dec = "ver1" -> IF raw[1] = 255 THEN c.k = "text"
                            ELSE c.k = "text" /\ c.s = ToString(raw[1] \div 4) \o "." \o ToString(raw[1] % 4)
         [] dec = "ver2" -> c.k = "text" /\ c.s = ToString(raw[1]) \o "." \o ToString(raw[2])
         [] dec = "str" -> c.k = "str" /\ c.bytes = StrBytes(raw)
         [] dec = "scaled" ->
              \* value = number x 10^scale, reported as decimal digits and exponent
              \* (a Decimal's digits/exponent are not canonical: compare number x 10^scale with digits x 10^exp
              \*  in 12-byte arithmetic)
              LET sc == SignedByte(raw[1])
                  N == Zeros(12 - Len(nb)) \o nb
                  D == DigitsToBytes(c.digits, 1, Zeros(12))
              IN /\ c.k = "dec" /\ ~c.neg /\ Len(c.digits) <= 22
                 /\ IF c.exp <= sc THEN D = Times10(N, sc - c.exp) ELSE N = Times10(D, c.exp - sc)
         [] OTHER ->  \* fixed:<e>: number x 10^e; c = digits x 10^exp with number < 2^31
              LET e == FixedExp(dec)
                  n == ValOf(nb)
                  m == ValOf(DigitsToBytes(c.digits, 1, Zeros(4)))
              IN /\ c.k \in {"dec", "int"} /\ ~c.neg
                 /\ IF c.k = "int" THEN e >= 0 /\ c.small = n * Pow10(e)
                    ELSE IF c.exp >= e THEN m * Pow10(c.exp - e) = n ELSE m = n * Pow10(e - c.exp)

\* ---- well-formedness of the map (checked by TLC in MemMapModel) ---------------------------------
NoOverlap == \A i, j \in 1..Len(Map) : i # j /\ Map[i][1] = Map[j][1] => LocsOf(Map[i]) \cap LocsOf(Map[j]) = {}
LockableOnlyWithLock == \A i \in 1..Len(Map) : \A loc \in LocsOf(Map[i]) :
    Lockable(TypeAt(Map[i], loc)) => Props(Map[i][1]).lock
TypesWellFormed == \A i \in 1..Len(Map) : Len(Map[i][5]) \in {1, Map[i][4]} /\
    \A loc \in LocsOf(Map[i]) : TypeAt(Map[i], loc) \in {"R", "r", "W", "n", "N", "L"}
=============================================================================
