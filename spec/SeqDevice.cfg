SPECIFICATION Spec
CONSTANT Scenarios <- ScenAll
CONSTANT defaultInitValue = 0
INVARIANT InputOK
INVARIANT SetFilterOK
INVARIANT QueryFilterOK
INVARIANT SetSchemeOK
INVARIANT DiscoverOK
INVARIANT Bounded
CHECK_DEADLOCK FALSE
