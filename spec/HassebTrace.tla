----------------------------- MODULE HassebTrace -----------------------------
(* Trace validation of the real hasseb driver against HassebDriver (events as *)
(* in AsyncTrace / SerialTrace: lock, frames written with the outcome the     *)
(* fake bus assigned, answer reports read, cancellations, completion with the *)
(* values returned); taking the answer out of the slot is a silent step.      *)
EXTENDS HassebDriver, Json, IOUtils

Scn == JsonDeserialize(IOEnv.TRACE)
Trace == Scn.events
TrCallers == {Scn.callers[k].name : k \in 1..Len(Scn.callers)}
CallerRec(c) == Scn.callers[CHOOSE k \in 1..Len(Scn.callers) : Scn.callers[k].name = c]
TrUnit == [c \in TrCallers |-> [k \in 1..Len(CallerRec(c).unit) |->
             [dt |-> CallerRec(c).unit[k].dt # 0, twice |-> CallerRec(c).unit[k].twice = 1, query |-> CallerRec(c).unit[k].query = 1]]]
TrMode == [c \in TrCallers |-> CallerRec(c).mode]
TrAnyAwait == {"lockwait", "respwait"}
CmdWrites(c) == SelectSeq([k \in 1..Len(Trace) |-> k], LAMBDA k : Trace[k].ev = "write" /\ Trace[k].c = c /\ Trace[k].kind = "cmd")
OutOf(c, i) == Trace[CmdWrites(c)[i]]

VARIABLE l
tvars == <<vars, l>>
TraceInit == Init /\ l = 1
Ev == Trace[l]
Is(k) == l <= Len(Trace) /\ Ev.ev = k
Adv == l' = l + 1

\* what a caller sees for a result of the model: the report the device made for that command
Seen(r) == IF r = NoRes THEN <<"none", 0>>
           ELSE LET o == OutOf(r[1], r[2]) IN
                IF o.outcome = "val" THEN <<"val", o.value>> ELSE IF o.outcome = "none" THEN <<"noanswer", 0>> ELSE <<"err", 255>>

TraceNext ==
    \/ Is("acq_call") /\ Start(Ev.c) /\ Adv
    \/ Is("acq_got") /\ Grant(Ev.c) /\ Adv
    \/ Is("write") /\ WriteStep(Ev.c) /\ wire'[Len(wire')][3] = Ev.kind /\ Adv
    \/ Is("deliver") /\ Deliver /\ Adv
    \/ Is("cancel_req") /\ CancelReq(Ev.c) /\ Adv
    \/ Is("cancel") /\ CancelRun(Ev.c) /\ Adv
    \/ Is("done") /\ pc[Ev.c] = "done" /\ exc[Ev.c] = Ev.exc
                  /\ (Mode[Ev.c] = "send" \/ Ev.exc = "none" =>
                        /\ Len(results[Ev.c]) = Ev.nres
                        /\ \A i \in 1..Ev.nres : Seen(results[Ev.c][i]) = <<Ev.res[i][1], Ev.res[i][2]>>)
                  /\ UNCHANGED vars /\ Adv
    \/ (\E c \in Callers : RespStep(c)) /\ UNCHANGED l

TraceSpec == TraceInit /\ [][TraceNext]_tvars
Consumed == l = Len(Trace) + 1
NotConsumed == ~Consumed
ASSUME TLCSet(1, 0)
Progress == TLCSet(1, IF l > TLCGet(1) THEN l ELSE TLCGet(1))
Report == PrintT(<<"MAXL", TLCGet(1), Len(Trace)>>)
=============================================================================
