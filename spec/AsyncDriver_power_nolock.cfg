SPECIFICATION Spec
CONSTANT Callers <- CallersP
CONSTANT Unit <- UnitP
CONSTANT Mode <- ModeP
CONSTANT ExcOn <- ExcAllP
CONSTANT Cancellable <- NoCancel
CONSTANT MaxLoss = 0
CONSTANT MaxSeq = 4
CONSTANT FixedCancel = TRUE
CONSTANT Limit <- NoLimit
CONSTANT PowerLocked = FALSE
INVARIANT TxnAtomic
CHECK_DEADLOCK FALSE

