----------------------------- MODULE DevSeqJudge -----------------------------
(* Trace judge for C13 (control-device sequences): re-executes every yielded  *)
(* frame on the Dev103 model (environment check) and evaluates the clauses.   *)
EXTENDS Dev103, Json, IOUtils, SequencesExt

Recs == ndJsonDeserialize(IOEnv.SHARD)

VARIABLE i
Init == i \in 1..Len(Recs)
Next == UNCHANGED i
Spec == Init /\ [][Next]_i

MkInst(x) == [enabled |-> x.enabled = 1, type |-> x.type, scheme |-> x.scheme, filter |-> x.filter, width |-> x.width,
              res |-> x.res, value |-> x.value]
MkDev(d) == [short |-> d.short, status |-> d.status, inst |-> [k \in 1..Len(d.inst) |-> MkInst(d.inst[k])]]
InitBus(b) == [dev |-> [k \in 1..Len(b.dev) |-> MkDev(b.dev[k])], dtr0 |-> b.dtr0, dtr1 |-> b.dtr1, dtr2 |-> b.dtr2,
               quiescent |-> FALSE, latch |-> <<>>, fault |-> [at |-> b.fault[1], kind |-> b.fault[2]], nans |-> 0]

FoldStep(acc, e) ==
    IF acc.at # 0 THEN acc
    ELSE LET s == Step(acc.bus, e.f)
             k == acc.k + 1
             hit == acc.bus.fault.kind # "none" /\ s.bus.nans = acc.bus.fault.at /\ acc.bus.nans + 1 = acc.bus.fault.at
         IN IF <<e.resp[1], e.resp[2]>> # s.resp THEN [acc EXCEPT !.k = k, !.at = k, !.clause = "env-answer"]
            ELSE [bus |-> TLCEval(s.bus), k |-> k, at |-> 0, clause |-> "", hadfault |-> acc.hadfault \/ hit,
                  lastresp |-> s.resp]

Fold(r) == FoldLeft(FoldStep, [bus |-> InitBus(r.bus), k |-> 0, at |-> 0, clause |-> "", hadfault |-> FALSE,
                               lastresp |-> <<"none", 0>>], r.ev)

Fail(c, at) == [ok |-> FALSE, clause |-> c, at |-> at]
Pass == [ok |-> TRUE, clause |-> "", at |-> 0]

\* "a skip, a None result or DALISequenceError - never a wrong value or an unrelated exception"
FaultOutcomeOK(r) == (r.out.exc = "none" /\ r.out.ret.k = "none") \/ r.out.exc = "DALISequenceError"

PadLeft(bits, n) == IF Len(bits) >= n THEN bits ELSE [j \in 1..(n - Len(bits)) |-> 0] \o bits

Verdict(r) ==
    LET fr == Fold(r)
        b0 == InitBus(r.bus)
        n == Len(r.ev)
    IN
    IF fr.at # 0 THEN Fail(fr.clause, fr.at)
    ELSE IF r.seq # "abandon" /\ r.out.exc \notin {"none", "DALISequenceError", "ValueError"} THEN Fail("unrelated-exception:" \o r.out.exc, n)
    ELSE
    CASE r.seq = "abandon" ->
           \* the caller gave the sequence up part-way (closed it, or its task was cancelled): the sequence ends there --
           \* no further command, and no exception of its own in place of the caller's
           IF r.out.exc # "none" THEN Fail("abandoning-the-sequence:" \o r.out.exc, n) ELSE Pass
      [] r.seq = "input" ->
           LET x == b0.dev[r.target[1]].inst[r.target[2] + 1] IN
           IF fr.hadfault THEN (IF FaultOutcomeOK(r) THEN Pass ELSE Fail("fault-gave-a-value", n))
           ELSE IF r.out.exc # "none" THEN Fail("raised:" \o r.out.exc, n)
           ELSE IF r.out.ret.k # "int" \/ PadLeft(r.out.ret.bits, x.res) # x.value THEN Fail("wrong-input-value", x.res)
           ELSE Pass
      [] r.seq = "setfilter" ->
           LET x0 == b0.dev[r.target[1]].inst[r.target[2] + 1]
               x == fr.bus.dev[r.target[1]].inst[r.target[2] + 1]
           IN IF fr.hadfault THEN (IF FaultOutcomeOK(r) THEN Pass ELSE Fail("fault-gave-a-value", n))
              ELSE IF r.out.exc # "none" THEN Fail("raised:" \o r.out.exc, n)
              ELSE IF x.filter # MaskToWidth(r.req, x0.width) THEN Fail("instance-filter-differs-from-request", 0)
              ELSE IF r.out.ret.k # "int" \/ r.out.ret.bytes # x.filter THEN Fail("return-differs-from-unit", 0)
              ELSE Pass
      [] r.seq = "queryfilter" ->
           LET x == b0.dev[r.target[1]].inst[r.target[2] + 1] IN
           IF fr.hadfault THEN (IF FaultOutcomeOK(r) THEN Pass ELSE Fail("fault-gave-a-value", n))
           ELSE IF r.out.exc # "none" THEN Fail("raised:" \o r.out.exc, n)
           ELSE IF r.out.ret.k # "int" \/ r.out.ret.bytes # x.filter THEN Fail("return-differs-from-unit", 0)
           ELSE Pass
      [] r.seq = "setscheme" ->
           LET x == fr.bus.dev[r.target[1]].inst[r.target[2] + 1] IN
           IF r.req[1] \notin 0..4 THEN
               (IF r.out.exc = "ValueError" /\ n = 0 THEN Pass ELSE Fail("invalid-scheme-not-refused-before-sending", n))
           ELSE IF r.out.exc # "none" THEN Fail("raised:" \o r.out.exc, n)
           ELSE IF fr.hadfault THEN
               (IF r.out.ret.k = "none" \/ (r.out.ret.k = "resp" /\ <<r.out.ret.raw[1], r.out.ret.raw[2]>> = fr.lastresp)
                THEN Pass ELSE Fail("fault-gave-a-value", n))
           ELSE IF x.scheme # r.req[1] THEN Fail("instance-scheme-differs-from-request", 0)
           ELSE IF r.out.ret.k # "resp" \/ <<r.out.ret.raw[1], r.out.ret.raw[2]>> # <<"val", x.scheme>>
                THEN Fail("return-differs-from-unit", 0)
           ELSE Pass
      [] r.seq = "discover" ->
           LET got == {<<m[1], m[2], m[3]>> : m \in {r.out.ret.map[j] : j \in 1..Len(r.out.ret.map)}}
               scanned(d) == d.short \in {r.scan[j] : j \in 1..Len(r.scan)}
               \* status bits 2 (short address is MASK) and 6 (reset state): whether such a device is "healthy" is
               \* left open -- neither required nor forbidden
               open(d) == (d.status \div 4) % 2 = 1 \/ (d.status \div 64) % 2 = 1
               must == UNION {{<<d.short, k - 1, d.inst[k].type>> : k \in {j \in 1..Len(d.inst) : d.inst[j].enabled}}
                              : d \in {b0.dev[j] : j \in {q \in 1..Len(b0.dev) : scanned(b0.dev[q]) /\ ~open(b0.dev[q])}}}
               may == must \cup UNION {{<<d.short, k - 1, d.inst[k].type>> : k \in {j \in 1..Len(d.inst) : d.inst[j].enabled}}
                              : d \in {b0.dev[j] : j \in {q \in 1..Len(b0.dev) : scanned(b0.dev[q])}}}
               \* entries the mapper held before the scan stay, unless the scan finds an enabled instance under the same key
               pre == {<<r.preload[j][1], r.preload[j][2], r.preload[j][3]>> : j \in 1..Len(r.preload)}
               mustKeys == {<<m[1], m[2]>> : m \in must}
               \* (with a fault in the scan an instance may have been skipped, so its earlier entry may still be there)
               kept == {p \in pre : fr.hadfault \/ <<p[1], p[2]>> \notin mustKeys}
               firstOK == n >= 1 /\ Name24(r.ev[1].f) = "103.StartQuiescentMode" /\ DevOf7(r.ev[1].f \div 131072) = <<"dbcast", 0>>
               lastOK == n >= 2 /\ Name24(r.ev[n].f) = "103.StopQuiescentMode" /\ DevOf7(r.ev[n].f \div 131072) = <<"dbcast", 0>>
           IN IF r.out.exc # "none" THEN Fail("raised:" \o r.out.exc, n)
              ELSE IF ~firstOK \/ ~lastOK THEN Fail("scan-not-bracketed-by-quiescent-mode", n)
              ELSE IF ~(got \subseteq (may \cup kept)) THEN Fail("wrong-or-disabled-instance-recorded", 0)
              ELSE IF ~fr.hadfault /\ ~(must \subseteq got) THEN Fail("enabled-instance-missing", 0)
              ELSE Pass

Judge == LET r == Recs[i]
             v == Verdict(r)
         IN v.ok \/ PrintT(<<"REJECT", r.id, v.clause, v.at>>)
=============================================================================
