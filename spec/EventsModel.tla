---------------------------- MODULE EventsModel ----------------------------
(* Spec-side theorems of Events103 on the whole event space: one TLC state    *)
(* per 13-bit header (bits 23..17 and 15..10), all 1024 data values inside.   *)
(* Plus the instance-map state machine for a small universe.                  *)
EXTENDS Events103, TLC

VARIABLES h, map     \* h: header 0..8191; map: instance map over a small universe

Hdr(x, d) == (x \div 64) * 131072 + (x % 64) * 1024 + d       \* bit 16 = 0

Shorts == {0, 63}
Inums == {0, 31}
Types == {1, 3, 4, 7}
Keys == {<<s, n>> : s \in Shorts, n \in Inums}

CONSTANT DataSet, Chains    \* data values tried per header; number of parallel header chains

\* Chains initial states, each walking h, h+Chains, ... so that TLC's workers share the invariant evaluation
Init == h \in 0..(Chains - 1) /\ map = <<>>
\* the map only evolves for one representative header (keeps the graph small)
AddType == \E k \in Keys : \E t \in Types :
              map' = [x \in DOMAIN map \cup {k} |-> IF x = k THEN t ELSE map[x]]
Clear == map' = <<>>
Step == map = <<>> /\ h + Chains <= 8191 /\ h' = h + Chains /\ UNCHANGED map
Next == (h = 0 /\ (AddType \/ Clear) /\ UNCHANGED h) \/ Step
Spec == Init /\ [][Next]_<<h, map>>

EmptyMap == <<>>
DataAll == 0..1023
DataQuick == 0..17 \cup {31, 32, 255, 256, 511, 512, 1022, 1023}

\* field round trip: decoding the encoding of the decoded fields gives the frame back
FieldRoundTrip ==
    \A d \in {0, 1, 15, 16, 512, 1023} :
       LET f == Hdr(h, d)
           fl == Fields(f)
       IN fl.scheme # "reserved" =>
            Encode(fl.scheme, fl.short, fl.inum, IF fl.scheme = "device_group" THEN fl.dgroup ELSE fl.igroup,
                   fl.itype, fl.data) = f

\* totality, and data is carried
Total == \A d \in DataSet :
    LET r == Decode(Hdr(h, d), EmptyMap) IN
    /\ r.cls \in {Unknown, Ambiguous, NotEvent, "303.OccupancyEvent", "304.LightEvent"}
                 \cup {PushButtonCodes[i][2] : i \in 1..Len(PushButtonCodes)}
    /\ (r.cls \in {Unknown, Ambiguous, "304.LightEvent", "303.OccupancyEvent"} => r.data = d)
    /\ (r.cls = NotEvent) = (Scheme(Hdr(h, d)) = "reserved")

\* map resolution equals the instance scheme carrying the type; retry = decode with the map
MapLaw == \A s \in Shorts : \A n \in Inums : \A d \in {0, 1, 5, 15, 16, 700} :
    LET f == Encode("device_instance", s, n, 0, 0, d)
        r == Decode(f, map)
    IN IF <<s, n>> \in DOMAIN map
       THEN SameEvent(r, Decode(Encode("instance", 0, n, 0, map[<<s, n>>], d), EmptyMap)) /\ r.short = s /\ r.inum = n
       ELSE r.cls = Ambiguous /\ r.data = d /\ r.short = s /\ r.inum = n
=============================================================================
