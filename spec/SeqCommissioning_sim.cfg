SPECIFICATION Spec
CONSTANT Configs <- ConfigsFull
CONSTANT RandVals <- RandValsFull
CONSTANT K = 2
CONSTANT defaultInitValue = 0
INVARIANT Export
CHECK_DEADLOCK FALSE
