----------------------------- MODULE AddrCodec -----------------------------
(* C04 -- address byte and instance byte codec of IEC 62386-102 7.2 and      *)
(* IEC 62386-103 7.2.1.  Frames are naturals (16 or 24 bits).                *)
(*                                                                           *)
(* An address is <<kind, n>> with kind in                                    *)
(*   "gshort" 0..63, "ggroup" 0..15, "gbcast", "gunaddr"      (16-bit frames) *)
(*   "dshort" 0..63, "dgroup" 0..31, "dbcast", "dunaddr"      (24-bit frames) *)
(* an instance is <<kind, n>> with kind in "number","group","type",          *)
(*   "fnumber","fgroup","ftype" (n in 0..31), "fbroadcast","broadcast",      *)
(*   "fdevice","device" (n = 0), "reserved" (n = the byte).                  *)
EXTENDS Bits

None == <<"none", 0>>

GearAddrs == {<<"gshort", n>> : n \in 0..63} \cup {<<"ggroup", n>> : n \in 0..15}
             \cup {<<"gbcast", 0>>, <<"gunaddr", 0>>}
DevAddrs == {<<"dshort", n>> : n \in 0..63} \cup {<<"dgroup", n>> : n \in 0..31}
            \cup {<<"dbcast", 0>>, <<"dunaddr", 0>>}
AddrInstKinds == {"number", "group", "type", "fnumber", "fgroup", "ftype"}
Instances == {<<k, n>> : k \in AddrInstKinds, n \in 0..31}
             \cup {<<"fbroadcast", 0>>, <<"broadcast", 0>>, <<"fdevice", 0>>, <<"device", 0>>}

IsGear(a) == a[1] \in {"gshort", "ggroup", "gbcast", "gunaddr"}
RequiredSize(a) == IF IsGear(a) THEN 16 ELSE 24

\* the 7 address bits (Y AAAAAA of the address byte YAAAAAAS)
Addr7(a) == CASE a[1] \in {"gshort", "dshort"} -> a[2]
              [] a[1] = "ggroup" -> 64 + a[2]           \* 100 gggg
              [] a[1] = "dgroup" -> 64 + a[2]           \* 10 ggggg
              [] a[1] \in {"gbcast", "dbcast"} -> 127
              [] a[1] \in {"gunaddr", "dunaddr"} -> 126

\* partition of the 7 address bits, 16-bit frames (102 Table 1)
GearOf7(x) == IF x < 64 THEN <<"gshort", x>>
              ELSE IF x < 80 THEN <<"ggroup", x - 64>>
              ELSE IF x = 127 THEN <<"gbcast", 0>>
              ELSE IF x = 126 THEN <<"gunaddr", 0>>
              ELSE None                                 \* special commands / reserved
\* 24-bit command frames (103 Table 1); bit 16 = 0 marks an event frame
DevOf7(x) == IF x < 64 THEN <<"dshort", x>>
             ELSE IF x < 96 THEN <<"dgroup", x - 64>>
             ELSE IF x = 127 THEN <<"dbcast", 0>>
             ELSE IF x = 126 THEN <<"dunaddr", 0>>
             ELSE None

AddrFromFrame(len, f) ==
    IF len = 16 THEN GearOf7(f \div 512)
    ELSE IF len = 24 THEN (IF BitOfInt(f, 16) = 1 THEN DevOf7(f \div 131072) ELSE None)
    ELSE None

\* writes only bits 15..9 (gear) / 23..17 (device)
AddAddr(a, f) == IF IsGear(a) THEN (f % 512) + 512 * Addr7(a)
                 ELSE (f % 131072) + 131072 * Addr7(a)

InstByte(i) == CASE i[1] = "number" -> i[2]
                 [] i[1] = "group" -> 128 + i[2]
                 [] i[1] = "type" -> 192 + i[2]
                 [] i[1] = "fnumber" -> 32 + i[2]
                 [] i[1] = "fgroup" -> 160 + i[2]
                 [] i[1] = "ftype" -> 96 + i[2]
                 [] i[1] = "fbroadcast" -> 253
                 [] i[1] = "broadcast" -> 255
                 [] i[1] = "fdevice" -> 252
                 [] i[1] = "device" -> 254
                 [] i[1] = "reserved" -> i[2]

InstOfByte(b) == LET fl == b \div 32
                     p == b % 32
                 IN CASE fl = 0 -> <<"number", p>>
                      [] fl = 4 -> <<"group", p>>
                      [] fl = 6 -> <<"type", p>>
                      [] fl = 1 -> <<"fnumber", p>>
                      [] fl = 5 -> <<"fgroup", p>>
                      [] fl = 3 -> <<"ftype", p>>
                      [] b = 253 -> <<"fbroadcast", 0>>
                      [] b = 255 -> <<"broadcast", 0>>
                      [] b = 252 -> <<"fdevice", 0>>
                      [] b = 254 -> <<"device", 0>>
                      [] OTHER -> <<"reserved", b>>

InstFromFrame(len, f) == IF len = 24 THEN InstOfByte((f \div 256) % 256) ELSE None

\* writes only bits 15..8
AddInst(i, f) == (f \div 65536) * 65536 + 256 * InstByte(i) + (f % 256)

\* equality: kind and number agree
AddrEq(a, b) == a = b
=============================================================================
