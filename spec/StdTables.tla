----------------------------- MODULE StdTables -----------------------------
(* Command tables of IEC 62386, transcribed by hand (not derived from the   *)
(* library): part 102 Tables 15/16, part 103 Tables 21/22 and instance      *)
(* commands, application extended commands of parts 202, 205, 206, 207,     *)
(* 209, instance-type commands of parts 301, 303, 304.                      *)
(*                                                                          *)
(* Row: <<part, Name, opcode, flags, answer, src>>                          *)
(*   Name   - the standard's ALL CAPS name in the library's documented      *)
(*            CamelCase convention                                          *)
(*   flags  - "T" send twice, "P" 4-bit parameter in the low opcode nibble  *)
(*   answer - "-" none | "yn" yes/no | "val" 8-bit value |                  *)
(*            "mask" 8-bit value where the standard defines 255 as MASK |   *)
(*            "bm:<table>" 8 named bits | "en:<enum>" enumerated value      *)
(*   src    - "std": row stated from the standard independently;            *)
(*            "doc": could only be confirmed against the library's prose    *)
(*            (acts as a pin against change, see DESIGN.md section 4)       *)
EXTENDS Naturals, Integers, Sequences

\* device type that must be enabled before an application extended command
PartDeviceType == [p102 |-> 0, p202 |-> 1, p205 |-> 4, p206 |-> 5, p207 |-> 6, p209 |-> 8]

\* ---- part 102, Table 15: standard commands (address byte + selector bit 1) --
Gear102 == <<
  <<"102","Off",0,"","-","std">>, <<"102","Up",1,"","-","std">>, <<"102","Down",2,"","-","std">>,
  <<"102","StepUp",3,"","-","std">>, <<"102","StepDown",4,"","-","std">>,
  <<"102","RecallMaxLevel",5,"","-","std">>, <<"102","RecallMinLevel",6,"","-","std">>,
  <<"102","StepDownAndOff",7,"","-","std">>, <<"102","OnAndStepUp",8,"","-","std">>,
  <<"102","EnableDAPCSequence",9,"","-","std">>, <<"102","GoToLastActiveLevel",10,"","-","std">>,
  <<"102","ContinuousUp",11,"","-","doc">>, <<"102","ContinuousDown",12,"","-","doc">>,
  <<"102","GoToScene",16,"P","-","std">>,
  <<"102","Reset",32,"T","-","std">>, <<"102","StoreActualLevelInDTR0",33,"T","-","std">>,
  <<"102","SavePersistentVariables",34,"T","-","std">>, <<"102","SetOperatingMode",35,"T","-","std">>,
  <<"102","ResetMemoryBank",36,"T","-","std">>, <<"102","IdentifyDevice",37,"T","-","std">>,
  <<"102","SetMaxLevel",42,"T","-","std">>, <<"102","SetMinLevel",43,"T","-","std">>,
  <<"102","SetSystemFailureLevel",44,"T","-","std">>, <<"102","SetPowerOnLevel",45,"T","-","std">>,
  <<"102","SetFadeTime",46,"T","-","std">>, <<"102","SetFadeRate",47,"T","-","std">>,
  <<"102","SetExtendedFadeTime",48,"T","-","std">>,
  <<"102","SetScene",64,"TP","-","std">>, <<"102","RemoveFromScene",80,"TP","-","std">>,
  <<"102","AddToGroup",96,"TP","-","std">>, <<"102","RemoveFromGroup",112,"TP","-","std">>,
  <<"102","SetShortAddress",128,"T","-","std">>, <<"102","EnableWriteMemory",129,"T","-","std">>,
  <<"102","QueryStatus",144,"","bm:GearStatus","std">>,
  <<"102","QueryControlGearPresent",145,"","yn","std">>, <<"102","QueryLampFailure",146,"","yn","std">>,
  <<"102","QueryLampPowerOn",147,"","yn","std">>, <<"102","QueryLimitError",148,"","yn","std">>,
  <<"102","QueryResetState",149,"","yn","std">>, <<"102","QueryMissingShortAddress",150,"","yn","std">>,
  <<"102","QueryVersionNumber",151,"","val","std">>, <<"102","QueryContentDTR0",152,"","val","std">>,
  <<"102","QueryDeviceType",153,"","val","std">>, <<"102","QueryPhysicalMinimum",154,"","val","std">>,
  <<"102","QueryPowerFailure",155,"","yn","std">>,
  <<"102","QueryContentDTR1",156,"","val","std">>, <<"102","QueryContentDTR2",157,"","val","std">>,
  <<"102","QueryOperatingMode",158,"","val","std">>, <<"102","QueryLightSourceType",159,"","val","std">>,
  <<"102","QueryActualLevel",160,"","mask","std">>, <<"102","QueryMaxLevel",161,"","val","std">>,
  <<"102","QueryMinLevel",162,"","val","std">>, <<"102","QueryPowerOnLevel",163,"","mask","std">>,
  <<"102","QuerySystemFailureLevel",164,"","mask","std">>,
  <<"102","QueryFadeTimeFadeRate",165,"","val","std">>,
  <<"102","QueryManufacturerSpecificMode",166,"","yn","std">>,
  <<"102","QueryNextDeviceType",167,"","val","std">>, <<"102","QueryExtendedFadeTime",168,"","val","std">>,
  <<"102","QueryControlGearFailure",170,"","yn","std">>,
  <<"102","QuerySceneLevel",176,"P","mask","std">>,
  <<"102","QueryGroupsZeroToSeven",192,"","val","std">>, <<"102","QueryGroupsEightToFifteen",193,"","val","std">>,
  <<"102","QueryRandomAddressH",194,"","val","std">>, <<"102","QueryRandomAddressM",195,"","val","std">>,
  <<"102","QueryRandomAddressL",196,"","val","std">>, <<"102","ReadMemoryLocation",197,"","val","std">>,
  <<"102","QueryExtendedVersionNumber",255,"","val","std">> >>

\* ---- part 102, Table 16: special commands.  opcode = the whole address byte; --
\* flags: "T" twice, "B" the second byte is an 8-bit parameter, "A" the second
\* byte is a short address in the form 0AAAAAA1 or 0xFF (MASK), "I" INITIALISE
\* (0x00 all, 0xFF unaddressed, 0AAAAAA1 one address); no flag: second byte 0x00
GearSpecial102 == <<
  <<"102","Terminate",161,"","-","std">>, <<"102","DTR0",163,"B","-","std">>,
  <<"102","Initialise",165,"TI","-","std">>, <<"102","Randomise",167,"T","-","std">>,
  <<"102","Compare",169,"","yn","std">>, <<"102","Withdraw",171,"","-","std">>,
  <<"102","Ping",173,"","-","std">>,
  <<"102","SearchaddrH",177,"B","-","std">>, <<"102","SearchaddrM",179,"B","-","std">>,
  <<"102","SearchaddrL",181,"B","-","std">>,
  <<"102","ProgramShortAddress",183,"A","-","std">>, <<"102","VerifyShortAddress",185,"A","yn","std">>,
  <<"102","QueryShortAddress",187,"","mask","std">>,
  <<"102","EnableDeviceType",193,"B","-","std">>, <<"102","DTR1",195,"B","-","std">>,
  <<"102","DTR2",197,"B","-","std">>,
  <<"102","WriteMemoryLocation",199,"B","val","std">>,
  <<"102","WriteMemoryLocationNoReply",201,"B","-","std">> >>

\* ---- application extended commands (opcode 224..255 after ENABLE DEVICE TYPE) --
Gear202 == <<
  <<"202","Rest",224,"T","-","std">>, <<"202","Inhibit",225,"T","-","std">>,
  <<"202","ReLightResetInhibit",226,"T","-","std">>, <<"202","StartFunctionTest",227,"T","-","std">>,
  <<"202","StartDurationTest",228,"T","-","std">>, <<"202","StopTest",229,"T","-","std">>,
  <<"202","ResetFunctionTestDoneFlag",230,"T","-","std">>, <<"202","ResetDurationTestDoneFlag",231,"T","-","std">>,
  <<"202","ResetLampTime",232,"T","-","std">>, <<"202","StoreDTRAsEmergencyLevel",233,"T","-","std">>,
  <<"202","StoreTestDelayTimeHighByte",234,"T","-","std">>, <<"202","StoreTestDelayTimeLowByte",235,"T","-","std">>,
  <<"202","StoreFunctionTestInterval",236,"T","-","std">>, <<"202","StoreDurationTestInterval",237,"T","-","std">>,
  <<"202","StoreTestExecutionTimeout",238,"T","-","std">>, <<"202","StoreProlongTime",239,"T","-","std">>,
  <<"202","StartIdentification",240,"T","-","std">>,
  <<"202","QueryBatteryCharge",241,"","mask","std">>, <<"202","QueryTestTiming",242,"","val","std">>,
  <<"202","QueryDurationTestResult",243,"","val","std">>, <<"202","QueryLampEmergencyTime",244,"","val","std">>,
  <<"202","QueryLampTotalOperationTime",245,"","val","std">>, <<"202","QueryEmergencyLevel",246,"","mask","std">>,
  <<"202","QueryEmergencyMinLevel",247,"","mask","std">>, <<"202","QueryEmergencyMaxLevel",248,"","mask","std">>,
  <<"202","QueryRatedDuration",249,"","val","std">>,
  <<"202","QueryEmergencyMode",250,"","bm:EmergencyMode","std">>,
  <<"202","QueryEmergencyFeatures",251,"","bm:EmergencyFeatures","std">>,
  <<"202","QueryEmergencyFailureStatus",252,"","bm:EmergencyFailureStatus","std">>,
  <<"202","QueryEmergencyStatus",253,"","bm:EmergencyStatus","std">>,
  <<"202","PerformDTRSelectedFunction",254,"T","-","std">>,
  <<"202","QueryExtendedVersionNumber",255,"","val","std">> >>

Gear205 == <<
  <<"205","ReferenceSystemPower",224,"T","-","doc">>, <<"205","SelectDimmingCurve",225,"T","-","doc">>,
  <<"205","QueryDimmingCurve",238,"","val","doc">>, <<"205","QueryDimmerStatus",239,"","bm:DimmerStatus","doc">>,
  <<"205","QueryFeatures",240,"","bm:DimmerFeatures","doc">>,
  <<"205","QueryFailureStatus",241,"","bm:DimmerFailureStatus","doc">>,
  <<"205","QueryDimmerTemperature",242,"","val","doc">>, <<"205","QueryRMSSupplyVoltage",243,"","val","doc">>,
  <<"205","QuerySupplyFrequency",244,"","val","doc">>, <<"205","QueryRMSLoadVoltage",245,"","val","doc">>,
  <<"205","QueryRMSLoadCurrent",246,"","val","doc">>, <<"205","QueryRealLoadPower",247,"","val","doc">>,
  <<"205","QueryLoadRating",248,"","val","doc">>, <<"205","QueryReferenceRunning",249,"","yn","doc">>,
  <<"205","QueryReferenceMeasurementFailed",250,"","yn","doc">>,
  <<"205","QueryExtendedVersionNumber",255,"","val","std">> >>

Gear206 == <<
  <<"206","SetOutputRange1To10V",224,"T","-","doc">>, <<"206","SetOutputRange0To10V",225,"T","-","doc">>,
  <<"206","SwitchOnInternalPullUp",226,"T","-","doc">>, <<"206","SwitchOffInternalPullUp",227,"T","-","doc">>,
  <<"206","StoreDtrAsPhysicalMinimum",228,"T","-","doc">>, <<"206","SelectDimmingCurve",229,"T","-","doc">>,
  <<"206","ResetConverterSettings",230,"T","-","doc">>,
  <<"206","QueryDimmingCurve",238,"","val","doc">>, <<"206","QueryOutputLevel",239,"","val","doc">>,
  <<"206","QueryConverterFeatures",240,"","bm:ConverterFeatures","doc">>,
  <<"206","QueryFailureStatus",241,"","bm:ConverterFailureStatus","doc">>,
  <<"206","QueryConverterStatus",242,"","bm:ConverterStatus","doc">>,
  <<"206","QueryExtendedVersionNumber",255,"","val","std">> >>

Gear207 == <<
  <<"207","ReferenceSystemPower",224,"T","-","std">>, <<"207","EnableCurrentProtector",225,"T","-","std">>,
  <<"207","DisableCurrentProtector",226,"T","-","std">>, <<"207","SelectDimmingCurve",227,"T","-","std">>,
  <<"207","StoreDTRAsFastFadeTime",228,"T","-","std">>,
  <<"207","QueryGearType",237,"","bm:LEDGearType","std">>, <<"207","QueryDimmingCurve",238,"","val","std">>,
  <<"207","QueryPossibleOperatingModes",239,"","bm:LEDPossibleOperatingModes","std">>,
  <<"207","QueryFeatures",240,"","bm:LEDFeatures","std">>,
  <<"207","QueryFailureStatus",241,"","bm:LEDFailureStatus","std">>,
  <<"207","QueryShortCircuit",242,"","yn","std">>, <<"207","QueryOpenCircuit",243,"","yn","std">>,
  <<"207","QueryLoadDecrease",244,"","yn","std">>, <<"207","QueryLoadIncrease",245,"","yn","std">>,
  <<"207","QueryCurrentProtectorActive",246,"","yn","std">>, <<"207","QueryThermalShutDown",247,"","yn","std">>,
  <<"207","QueryThermalOverload",248,"","yn","std">>, <<"207","QueryReferenceRunning",249,"","yn","std">>,
  <<"207","QueryReferenceMeasurementFailed",250,"","yn","std">>,
  <<"207","QueryCurrentProtectorEnabled",251,"","yn","std">>,
  <<"207","QueryOperatingMode",252,"","bm:LEDOperatingMode","std">>,
  <<"207","QueryFastFadeTime",253,"","val","std">>, <<"207","QueryMinFastFadeTime",254,"","val","std">>,
  <<"207","QueryExtendedVersionNumber",255,"","val","std">> >>

Gear209 == <<
  <<"209","SetTemporaryXCoordinate",224,"","-","std">>, <<"209","SetTemporaryYCoordinate",225,"","-","std">>,
  <<"209","Activate",226,"","-","std">>,
  <<"209","XCoordinateStepUp",227,"","-","std">>, <<"209","XCoordinateStepDown",228,"","-","std">>,
  <<"209","YCoordinateStepUp",229,"","-","std">>, <<"209","YCoordinateStepDown",230,"","-","std">>,
  <<"209","SetTemporaryColourTemperature",231,"","-","std">>,
  <<"209","ColourTemperatureTcStepCooler",232,"","-","std">>, <<"209","ColourTemperatureTcStepWarmer",233,"","-","std">>,
  <<"209","SetTemporaryPrimaryNDimLevel",234,"","-","std">>, <<"209","SetTemporaryRGBDimLevel",235,"","-","std">>,
  <<"209","SetTemporaryWAFDimLevel",236,"","-","std">>, <<"209","SetTemporaryRGBWAFControl",237,"","-","std">>,
  <<"209","CopyReportToTemporary",238,"","-","std">>,
  <<"209","StoreTYPrimaryN",240,"T","-","std">>, <<"209","StoreXYCoordinatePrimaryN",241,"T","-","std">>,
  <<"209","StoreColourTemperatureTcLimit",242,"T","-","std">>, <<"209","StoreGearFeaturesStatus",243,"T","-","std">>,
  <<"209","AssignColourToLinkedChannel",245,"T","-","std">>, <<"209","StartAutoCalibration",246,"","-","doc">>,
  <<"209","QueryGearFeaturesStatus",247,"","bm:ColourGearFeaturesStatus","std">>,
  <<"209","QueryColourStatus",248,"","bm:ColourStatus","std">>,
  <<"209","QueryColourTypeFeatures",249,"","bm:ColourTypeFeatures","std">>,
  <<"209","QueryColourValue",250,"","mask","std">>,
  <<"209","QueryRBGWAFControl",251,"","bm:RGBWAFControl","std">>,
  <<"209","QueryAssignedColour",252,"","en:AssignedColour","std">>,
  <<"209","QueryExtendedVersionNumber",255,"","val","std">> >>

\* ---- part 103, Table 21: device commands (instance byte 0xFE) ---------------
Dev103 == <<
  <<"103","IdentifyDevice",0,"T","-","std">>, <<"103","ResetPowerCycleSeen",1,"T","-","std">>,
  <<"103","Reset",16,"T","-","std">>, <<"103","ResetMemoryBank",17,"T","-","std">>,
  <<"103","SetShortAddress",20,"T","-","std">>, <<"103","EnableWriteMemory",21,"T","-","std">>,
  <<"103","EnableApplicationController",22,"T","-","std">>, <<"103","DisableApplicationController",23,"T","-","std">>,
  <<"103","SetOperatingMode",24,"T","-","std">>,
  <<"103","AddToDeviceGroupsZeroToFifteen",25,"T","-","std">>,
  <<"103","AddToDeviceGroupsSixteenToThirtyOne",26,"T","-","std">>,
  <<"103","RemoveFromDeviceGroupsZeroToFifteen",27,"T","-","std">>,
  <<"103","RemoveFromDeviceGroupsSixteenToThirtyOne",28,"T","-","std">>,
  <<"103","StartQuiescentMode",29,"T","-","std">>, <<"103","StopQuiescentMode",30,"T","-","std">>,
  <<"103","EnablePowerCycleNotification",31,"T","-","std">>, <<"103","DisablePowerCycleNotification",32,"T","-","std">>,
  <<"103","SavePersistentVariables",33,"T","-","std">>,
  <<"103","QueryDeviceStatus",48,"","bm:DeviceStatus","std">>,
  <<"103","QueryApplicationControllerError",49,"","val","std">>, <<"103","QueryInputDeviceError",50,"","val","std">>,
  <<"103","QueryMissingShortAddress",51,"","yn","std">>, <<"103","QueryVersionNumber",52,"","val","std">>,
  <<"103","QueryNumberOfInstances",53,"","val","std">>,
  <<"103","QueryContentDTR0",54,"","val","std">>, <<"103","QueryContentDTR1",55,"","val","std">>,
  <<"103","QueryContentDTR2",56,"","val","std">>,
  <<"103","QueryRandomAddressH",57,"","val","std">>, <<"103","QueryRandomAddressM",58,"","val","std">>,
  <<"103","QueryRandomAddressL",59,"","val","std">>, <<"103","ReadMemoryLocation",60,"","val","std">>,
  <<"103","QueryApplicationControlEnabled",61,"","yn","std">>, <<"103","QueryOperatingMode",62,"","val","std">>,
  <<"103","QueryManufacturerSpecificMode",63,"","yn","std">>, <<"103","QueryQuiescentMode",64,"","yn","std">>,
  <<"103","QueryDeviceGroupsZeroToSeven",65,"","val","std">>, <<"103","QueryDeviceGroupsEightToFifteen",66,"","val","std">>,
  <<"103","QueryDeviceGroupsSixteenToTwentyThree",67,"","val","std">>,
  <<"103","QueryDeviceGroupsTwentyFourToThirtyOne",68,"","val","std">>,
  <<"103","QueryPowerCycleNotification",69,"","yn","std">>,
  <<"103","QueryDeviceCapabilities",70,"","bm:DeviceCapabilities","std">>,
  <<"103","QueryExtendedVersionNumber",71,"","val","std">>, <<"103","QueryResetState",72,"","yn","std">> >>

\* ---- part 103 instance commands and parts 301/303/304 (any instance byte) ----
Inst103 == <<
  <<"103","SetEventPriority",97,"T","-","std">>, <<"103","EnableInstance",98,"T","-","std">>,
  <<"103","DisableInstance",99,"T","-","std">>, <<"103","SetPrimaryInstanceGroup",100,"T","-","std">>,
  <<"103","SetInstanceGroup1",101,"T","-","std">>, <<"103","SetInstanceGroup2",102,"T","-","std">>,
  <<"103","SetEventScheme",103,"T","-","std">>, <<"103","SetEventFilter",104,"T","-","std">>,
  <<"103","QueryInstanceType",128,"","val","std">>, <<"103","QueryResolution",129,"","val","std">>,
  <<"103","QueryInstanceError",130,"","val","std">>,
  <<"103","QueryInstanceStatus",131,"","bm:InstanceStatus","std">>,
  <<"103","QueryEventPriority",132,"","val","std">>, <<"103","QueryInstanceEnabled",134,"","yn","std">>,
  <<"103","QueryPrimaryInstanceGroup",136,"","val","std">>, <<"103","QueryInstanceGroup1",137,"","val","std">>,
  <<"103","QueryInstanceGroup2",138,"","val","std">>,
  <<"103","QueryEventScheme",139,"","en:EventScheme","std">>,
  <<"103","QueryInputValue",140,"","val","std">>, <<"103","QueryInputValueLatch",141,"","val","std">>,
  <<"103","QueryFeatureType",142,"","val","std">>, <<"103","QueryNextFeatureType",143,"","val","std">>,
  <<"103","QueryEventFilterZeroToSeven",144,"","val","std">>,
  <<"103","QueryEventFilterEightToFifteen",145,"","val","std">>,
  <<"103","QueryEventFilterSixteenToTwentyThree",146,"","val","std">>,
  <<"301","SetShortTimer",0,"T","-","std">>, <<"301","SetDoubleTimer",1,"T","-","std">>,
  <<"301","SetRepeatTimer",2,"T","-","std">>, <<"301","SetStuckTimer",3,"T","-","std">>,
  <<"301","QueryShortTimer",10,"","val","std">>, <<"301","QueryShortTimerMin",11,"","val","std">>,
  <<"301","QueryDoubleTimer",12,"","val","std">>, <<"301","QueryDoubleTimerMin",13,"","val","std">>,
  <<"301","QueryRepeatTimer",14,"","val","std">>, <<"301","QueryStuckTimer",15,"","val","std">>,
  <<"303","CatchMovement",32,"","-","std">>, <<"303","SetHoldTimer",33,"T","-","std">>,
  <<"303","SetReportTimer",34,"T","-","std">>, <<"303","SetDeadtimeTimer",35,"T","-","std">>,
  <<"303","CancelHoldTimer",36,"","-","std">>,
  <<"303","QueryDeadtimeTimer",44,"","val","std">>, <<"303","QueryHoldTimer",45,"","val","std">>,
  <<"303","QueryReportTimer",46,"","val","std">>, <<"303","QueryCatching",47,"","yn","std">>,
  <<"304","SetReportTimer",48,"T","-","std">>, <<"304","SetHysteresis",49,"T","-","std">>,
  <<"304","SetDeadtimeTimer",50,"T","-","std">>, <<"304","SetHysteresisMin",51,"T","-","std">>,
  <<"304","QueryHysteresisMin",60,"","val","std">>, <<"304","QueryDeadtimeTimer",61,"","val","std">>,
  <<"304","QueryReportTimer",62,"","val","std">>, <<"304","QueryHysteresis",63,"","val","std">> >>

\* ---- part 103, Table 22: special commands.                                  --
\* Row: <<part, Name, addressByte, instanceByte (or -1 = parameter), flags, answer, src>>
\* flags: "T" twice, "1" opcode byte is a parameter, "2" instance and opcode bytes
\* are parameters; no digit: opcode byte 0x00
DevSpecial103 == <<
  <<"103","Terminate",193,0,"","-","std">>, <<"103","Initialise",193,1,"T1","-","std">>,
  <<"103","Randomise",193,2,"T","-","std">>, <<"103","Compare",193,3,"","yn","std">>,
  <<"103","Withdraw",193,4,"","-","std">>,
  <<"103","SearchAddrH",193,5,"1","-","std">>, <<"103","SearchAddrM",193,6,"1","-","std">>,
  <<"103","SearchAddrL",193,7,"1","-","std">>,
  <<"103","ProgramShortAddress",193,8,"1","-","std">>, <<"103","VerifyShortAddress",193,9,"1","yn","std">>,
  <<"103","QueryShortAddress",193,10,"","val","std">>,
  <<"103","WriteMemoryLocation",193,32,"1","val","std">>, <<"103","WriteMemoryLocationNoReply",193,33,"1","-","std">>,
  <<"103","DTR0",193,48,"1","-","std">>, <<"103","DTR1",193,49,"1","-","std">>,
  <<"103","DTR2",193,50,"1","-","std">>, <<"103","SendTestframe",193,51,"1","-","std">>,
  <<"103","DirectWriteMemory",197,-1,"2","val","std">>,
  <<"103","DTR1DTR0",199,-1,"2","-","std">>, <<"103","DTR2DTR1",201,-1,"2","-","std">> >>

\* ---- named bits of bitmap answers, least significant bit first ("" = unnamed) --
\* positions are the standard's; spelling is the library's display text (pinned)
BitNames ==
  [ GearStatus |-> <<"ballast status","lamp failure","arc power on","limit error","fade ready","reset state",
                     "missing short address","power failure">>,
    EmergencyMode |-> <<"rest mode","normal mode","emergency mode","extended emergency mode","function test",
                        "duration test","hardwired inhibit active","hardwired switch on">>,
    EmergencyFeatures |-> <<"integral emergency control gear","maintained control gear",
                            "switched maintained control gear","auto test capability","adjustable emergency level",
                            "hardwired inhibit supported","physical selection supported",
                            "re-light in rest mode supported">>,
    EmergencyFailureStatus |-> <<"circuit failure","battery duration failure","battery failure",
                                 "emergency lamp failure","function test max delay exceeded",
                                 "duration test max delay exceeded","function test failed","duration test failed">>,
    EmergencyStatus |-> <<"inhibit mode","function test done and result valid","duration test done and result valid",
                          "battery fully charged","function test pending","duration test pending",
                          "identification active","physically selected">>,
    DimmerStatus |-> <<"leading edge mode running","trailing edge mode running","reference measurement running","",
                       "non-logarithmic dimming curve active">>,
    DimmerFeatures |-> <<"load over-current shutdown can be queried","open circuit detection can be queried",
                         "detection of load decrease can be queried","detection of load increase can be queried","",
                         "thermal shutdown can be queried","thermal overload with output level reduction can be queried",
                         "physical selection supported">>,
    DimmerFailureStatus |-> <<"load over-current shutdown","open circuit detected","load decrease detected",
                              "load increase detected","","thermal shutdown",
                              "thermal overload with output level reduction","reference measurement failed">>,
    ConverterFeatures |-> <<"0V - 10V output selectable","internal pull-up selectable",
                            "detection of output fault selectable","mains relay","output level can be queried",
                            "non-logarithmic dimming curve supported",
                            "physical selection / lamp fail detection by loss out output supported",
                            "physical selection switch supported">>,
    ConverterFailureStatus |-> <<"output fault detected">>,
    ConverterStatus |-> <<"0-10V operation","internal pull-up on","non-logarithmic dimming curve active">>,
    LEDGearType |-> <<"LED power supply integrated","LED module integrated","a.c. supply possible",
                      "d.c. supply possible">>,
    LEDPossibleOperatingModes |-> <<"PWM mode is possible","AM mode is possible","output is current controlled",
                                    "high current pulse mode">>,
    LEDFeatures |-> <<"short circuit detection can be queried","open circuit detection can be queried",
                      "detection of load decrease can be queried","detection of load increase can be queried",
                      "current protector is implemented and can be queried","thermal shut down can be queried",
                      "light level reduction due to over temperature can be queried","physical selection supported">>,
    LEDFailureStatus |-> <<"short circuit","open circuit","load decrease","load increase","current protector active",
                           "thermal shut down","thermal overload with light level reduction",
                           "reference measurement failed">>,
    LEDOperatingMode |-> <<"PWM mode active","AM mode active","output is current controlled",
                           "high current pulse mode is active","non-logarithmic dimming curve active">>,
    ColourGearFeaturesStatus |-> <<"auto activation enabled","reserved 1","reserved 2","reserved 3","reserved 4",
                                   "reserved 5","auto calibration supported","auto calibration recovery supported">>,
    ColourStatus |-> <<"xy colour point out of range","colour temperature Tc out of range","auto calibration running",
                       "auto calibration successful","colour type xy active","colour type colour temperature Tc active",
                       "colour type primary N active","colour type RGBWAF active">>,
    ColourTypeFeatures |-> <<"xy capable","Tc capable","primary N bit 0","primary N bit 1","primary N bit 2",
                             "RGBWAF channels bit 0","RGBWAF channels bit 1","RGBWAF channels bit 2">>,
    RGBWAFControl |-> <<"channel 0 red","channel 1 green","channel 2 blue","channel 3 white","channel 4 amber",
                        "channel 5 freecolour","control type bit 0","control type bit 1">>,
    DeviceStatus |-> <<"input device error","quiescent mode enabled","short address is mask",
                       "application controller active","application controller error","power cycle seen",
                       "reset state">>,
    DeviceCapabilities |-> <<"application controller present","number instances greater than zero",
                             "application controller always active">>,
    InstanceStatus |-> <<"instance error","instance active">> ]

\* ---- enumerated answers: code -> member name; strict = undefined codes must be
\* rejected with ValueError; otherwise 255 may read as MASK and other undefined
\* codes as a non-integer marker
Enums ==
  [ EventScheme |-> [names |-> <<"instance","device","device_instance","device_group","instance_group">>,
                     strict |-> TRUE],
    AssignedColour |-> [names |-> <<"not_assigned","red","green","blue","white","amber","freecolour">>,
                        strict |-> FALSE] ]

AllGearRows == Gear102 \o Gear202 \o Gear205 \o Gear206 \o Gear207 \o Gear209
AllRows6 == AllGearRows \o GearSpecial102 \o Dev103 \o Inst103
=============================================================================
