--------------------------- MODULE MC_AsyncDriver ---------------------------
(* Model-checking instances of AsyncDriver (constants as definitions).        *)
EXTENDS AsyncDriver

C(dt, tw, q) == [dt |-> dt, twice |-> tw, query |-> q]
Dapc == C(FALSE, FALSE, FALSE)
Cfg == C(FALSE, TRUE, FALSE)
Qry == C(FALSE, FALSE, TRUE)
QryDT == C(TRUE, FALSE, TRUE)
CfgDT == C(TRUE, TRUE, FALSE)

\* 2 callers: a 3-command sequence with a send-twice command and a query vs a single send with a device type
Callers2 == {"A", "B"}
Unit2 == [c \in Callers2 |-> IF c = "A" THEN <<Dapc, Cfg, Qry>> ELSE <<QryDT>>]
Mode2 == [c \in Callers2 |-> IF c = "A" THEN "sequence" ELSE "send"]
ExcAll2 == [c \in Callers2 |-> TRUE]
ExcOffB == [c \in Callers2 |-> c = "A"]

\* 3 callers: sequence, cancellable send of two commands, send with device type
Callers3 == {"A", "B", "C"}
Unit3 == [c \in Callers3 |-> CASE c = "A" -> <<Qry, CfgDT>> [] c = "B" -> <<Qry, Dapc>> [] c = "C" -> <<QryDT>>]
Mode3 == [c \in Callers3 |-> IF c = "A" THEN "sequence" ELSE "send"]
ExcAll3 == [c \in Callers3 |-> TRUE]
ExcOffBC == [c \in Callers3 |-> c = "A"]
NoCancel == {}
CancelB == {"B"}
CancelAB == {"A", "B"}
NoLimit == -1

\* a power-supply caller next to a sequence (with a device-type command inside) and a single send with a device type
CallersP == {"A", "P", "B"}
UnitP == [c \in CallersP |-> CASE c = "A" -> <<Dapc, QryDT, Qry>> [] c = "P" -> <<Dapc, Dapc>> [] c = "B" -> <<QryDT>>]
ModeP == [c \in CallersP |-> CASE c = "A" -> "sequence" [] c = "P" -> "power" [] c = "B" -> "send"]
ExcAllP == [c \in CallersP |-> TRUE]
=============================================================================
