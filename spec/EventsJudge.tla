----------------------------- MODULE EventsJudge -----------------------------
(* Judges event decoding recorded from the real library (harness/c12.py)      *)
(* against Events103.                                                         *)
EXTENDS Events103, Json, IOUtils, TLC, Sequences

Recs == ndJsonDeserialize(IOEnv.SHARD)
Rows == ndJsonDeserialize(IOEnv.ROWS)
Names == ndJsonDeserialize(IOEnv.NAMES)[1]

VARIABLE i
Init == i \in 1..Len(Recs)
Next == UNCHANGED i
Spec == Init /\ [][Next]_i

AllKeys == (0..63) \X (0..31)
\* map id t + 1: every key resolves to instance type t (what a unit answers to QUERY INSTANCE TYPE is a byte: also 32..255)
MapOf(id) == IF id <= 0 THEN <<>> ELSE [k \in AllKeys |-> id - 1]

Hdr(x, d) == (x \div 64) * 131072 + (x % 64) * 1024 + d

MinOf(S) == CHOOSE x \in S : \A y \in S : x <= y
Fail(c, at) == [ok |-> FALSE, clause |-> c, at |-> at]
Pass == [ok |-> TRUE, clause |-> "", at |-> 0]

\* a recorded result <<nameIx, short, inum, dgroup, igroup, itype, data>> against a Decode record
ResOK(res, exp) ==
    /\ res[1] \in DOMAIN Names /\ Names[res[1]] = exp.cls      \* -1: the decoder raised
    /\ res[2] = exp.short /\ res[3] = exp.inum /\ res[4] = exp.dgroup /\ res[5] = exp.igroup
    /\ res[6] = exp.itype /\ res[7] = exp.data

\* fold of a map history
RECURSIVE FoldMap(_, _, _)
FoldMap(map, evs, k) ==
    IF k > Len(evs) THEN Pass
    ELSE LET e == evs[k] IN
         CASE e.op = "add" ->
                FoldMap([x \in DOMAIN map \cup {<<e.s, e.n>>} |-> IF x = <<e.s, e.n>> THEN e.t ELSE map[x]], evs, k + 1)
           [] e.op = "clear" -> FoldMap(<<>>, evs, k + 1)
           [] e.op = "same" -> IF e.eq = 1 THEN FoldMap(map, evs, k + 1) ELSE Fail("earlier-result-changed-afterwards", k)
           [] e.op = "decode" ->
                IF ResOK(e.res, Decode(e.f, map)) THEN FoldMap(map, evs, k + 1) ELSE Fail("decode-with-map", k)
           [] e.op = "retry" ->
                \* the ambiguous event was obtained by decoding e.f without a map
                LET exp == Decode(e.f, map) IN
                IF exp.cls = Ambiguous THEN (IF e.still = 1 THEN FoldMap(map, evs, k + 1) ELSE Fail("retry-should-stay-ambiguous", k))
                ELSE IF e.still = 0 /\ ResOK(e.res, exp) THEN FoldMap(map, evs, k + 1) ELSE Fail("retry", k)

Verdict(r) ==
    CASE r.kind = "evt" ->
           LET cells == Rows[r.row]
               map == MapOf(r.map)
               exp0 == Decode(Hdr(r.hdr, 0), map)
               bad == {d \in 0..1023 :
                         LET exp == Decode(Hdr(r.hdr, d), map)
                             c == cells[d + 1]
                         IN ~(c >= 0 /\ Names[c \div 2048] = exp.cls /\ (c % 2048) - 1 = exp.data)}
           IN IF bad # {} THEN Fail("class/data", Hdr(r.hdr, MinOf(bad)))
              ELSE IF r.hfsame # 1 THEN Fail("source-fields-vary-with-data", Hdr(r.hdr, 0))
              ELSE IF ~(r.hf[1] = exp0.short /\ r.hf[2] = exp0.inum /\ r.hf[3] = exp0.dgroup
                        /\ r.hf[4] = exp0.igroup) THEN Fail("source-fields", Hdr(r.hdr, 0))
              ELSE IF \E d \in {0, 16, 1023} : r.types[IF d = 0 THEN 1 ELSE IF d = 16 THEN 2 ELSE 3] # Decode(Hdr(r.hdr, d), map).itype
                   THEN Fail("instance-type", Hdr(r.hdr, 0))
              ELSE Pass
      [] r.kind = "maphist" -> FoldMap(<<>>, r.ev, 1)

Judge == LET r == Recs[i]
             v == Verdict(r)
         IN v.ok \/ PrintT(<<"REJECT", r.id, v.clause, v.at>>)
=============================================================================
