------------------------------ MODULE BusWatch ------------------------------
(* C20 -- what subscribers must be told about bus traffic.                    *)
(* Property-level timed transducer from the history of frames a gateway       *)
(* reports (its own and other masters') to the sequence of reports            *)
(* (command, response, failed-flag):                                          *)
(*  - the device type announced by ENABLE DEVICE TYPE applies to exactly the  *)
(*    next forward frame;                                                     *)
(*  - a query is reported with the backward frame that follows it, or with    *)
(*    "no answer" on timeout (200 ms) / "no frame" / another forward frame;   *)
(*  - a send-twice command is reported once: good when the identical repeat   *)
(*    arrives in time, failed when it is missing, different or replaced by a  *)
(*    backward frame;                                                         *)
(*  - everything else is reported at once.                                    *)
(* Inputs: <<time (us), kind, bits, value>>, kind in "fwd","back","err",      *)
(* "none","end".  Emissions: <<time, frame, bits, resp kind, resp value,      *)
(* failed>>, resp kind "nil" (no response object), "none", "val", "err".      *)
EXTENDS CmdCodec, SequencesExt, TLC

Timeout == 200000

\* flags of a named frame from the tables: <<sent twice, expects an answer>>
FlagsOfName(nm) ==
    LET g == {k \in 1..Len(AllRows6) : QName(AllRows6[k]) = nm}
        s == {k \in 1..Len(DevSpecial103) : QName(DevSpecial103[k]) = nm}
    IN IF g # {} THEN LET r == AllRows6[CHOOSE k \in g : TRUE] IN <<HasFlag(r, "T"), r[5] # "-">>
       ELSE IF s # {} THEN LET r == DevSpecial103[CHOOSE k \in s : TRUE] IN <<HasFlagS(r[5], "T"), r[6] # "-">>
       ELSE <<FALSE, FALSE>>
\* gear and device tables share names (102.DTR0 / 103.DTR0 are distinct qualified names), 16-bit frames only look
\* at gear rows, 24-bit frames at device rows
NameOf(bits, f, dt) == IF bits = 16 THEN Name16(f, dt) ELSE IF bits = 24 THEN Name24(f) ELSE Unnamed
Flags(bits, f, dt) == LET nm == NameOf(bits, f, dt) IN
                      IF nm \in {Unnamed, "event", "102.DAPC"} THEN <<FALSE, FALSE>> ELSE FlagsOfName(nm)
IsEDT(bits, f) == bits = 16 /\ f \div 256 = 193

NoPend == [on |-> FALSE, f |-> 0, bits |-> 0, mode |-> "", since |-> 0, dt |-> 0]
Init0 == [pend |-> NoPend, dt |-> 0, out |-> <<>>]

Emit(s, t, p, rk, rv, failed) == [s EXCEPT !.out = Append(@, <<t, p.f, p.bits, rk, rv, failed, p.dt>>), !.pend = NoPend]

\* a new forward frame with nothing pending
NewFrame(s, t, bits, f) ==
    LET fl == Flags(bits, f, s.dt)
        dt2 == IF IsEDT(bits, f) THEN f % 256 ELSE 0
        p == [on |-> TRUE, f |-> f, bits |-> bits, mode |-> IF fl[1] THEN "repeat" ELSE "answer", since |-> t, dt |-> s.dt]
    IN IF fl[1] \/ fl[2] THEN [s EXCEPT !.pend = p, !.dt = dt2]
       ELSE [Emit(s, t, p, "nil", 0, FALSE) EXCEPT !.dt = dt2]

Step(s0, inp) ==
    LET t == inp[1]
        kind == inp[2]
        bits == inp[3]
        v == inp[4]
        \* 0. a timeout comes first
        s == IF s0.pend.on /\ t - s0.pend.since > Timeout
             THEN (IF s0.pend.mode = "repeat" THEN Emit(s0, s0.pend.since + Timeout, s0.pend, "nil", 0, TRUE)
                   ELSE Emit(s0, s0.pend.since + Timeout, s0.pend, "none", 0, FALSE))
             ELSE s0
        p == s.pend
    IN
    CASE kind = "fwd" ->
           IF ~p.on THEN NewFrame(s, t, bits, v)
           ELSE IF p.mode = "repeat" THEN
                (IF p.f = v /\ p.bits = bits THEN Emit(s, t, p, "nil", 0, FALSE)
                 ELSE NewFrame(Emit(s, t, p, "nil", 0, TRUE), t, bits, v))
           ELSE NewFrame(Emit(s, t, p, "none", 0, FALSE), t, bits, v)
      [] kind \in {"back", "err"} ->
           IF ~p.on THEN s
           ELSE IF p.mode = "repeat" THEN Emit(s, t, p, "nil", 0, TRUE)
           ELSE Emit(s, t, p, IF kind = "back" THEN "val" ELSE "err", IF kind = "back" THEN v ELSE 255, FALSE)
      [] kind = "none" ->
           IF ~p.on THEN s
           ELSE IF p.mode = "repeat" THEN Emit(s, t, p, "nil", 0, TRUE)
           ELSE Emit(s, t, p, "none", 0, FALSE)
      [] OTHER -> s          \* "end": only the timeout rule

Run(inputs) == FoldLeft(Step, Init0, inputs).out
=============================================================================
