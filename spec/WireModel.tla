------------------------------ MODULE WireModel ------------------------------
(* Spec-side theorems of WireFormats: checksums verify, every packet carries   *)
(* the frame bits recoverably, sequence-number automaton (1..255, wrap 255->1) *)
(* stays in range without immediate repetition (its whole state graph).         *)
EXTENDS WireFormats

VARIABLES sn, f
Init == sn \in 1..255 /\ f \in {0, 1, 255, 256, 41216, 65535}
Next == sn' = (IF sn = 255 THEN 1 ELSE sn + 1) /\ UNCHANGED f
Spec == Init /\ [][Next]_<<sn, f>>

SeqInRange == sn \in 1..255
NoRepeat == [][sn' # sn]_<<sn, f>>

Checksums == \A tw \in BOOLEAN :
    /\ LET c == LubaCmd(16, f, tw, 0) IN XorAll(SubSeq(c, 2, Len(c) - 1)) = c[Len(c)] /\ Len(c) = 11
    /\ LET c == SciCmd(16, f, tw) IN XorAll(SubSeq(c, 1, 4)) = c[5]
    /\ LET c == TridonicCmd(sn, 16, f, tw) IN Len(c) = 64 /\ c[7] * 256 + c[8] = f
=============================================================================
