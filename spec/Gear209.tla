------------------------------ MODULE Gear209 ------------------------------
(* A colour-temperature (Tc) control gear of IEC 62386-209 as far as the      *)
(* sequences of C14 go.  One unit with short address 5, member of group 2.    *)
(* u: [tempTc, tc, activated, limits : 4 values (selector 0 coolest,          *)
(*     1 warmest, 2 physical coolest, 3 physical warmest), report : the 16-bit *)
(*     value QUERY COLOUR VALUE reports for selector sel, sel, dtr0, dtr1,     *)
(*     dtr2, level, fault : [at, kind], nans]                                  *)
EXTENDS CmdCodec, TLC

Silent == <<"none", 0>>
UnitShort == 5
UnitGroup == 2

Addressed(f) == GearOf7(f \div 512) \in {<<"gshort", UnitShort>>, <<"ggroup", UnitGroup>>, <<"gbcast", 0>>}

Faulted(u, ans) ==
    IF u.fault.kind # "none" /\ u.nans + 1 = u.fault.at
    THEN (IF u.fault.kind = "silent" THEN Silent
          ELSE IF u.fault.kind = "errsame" /\ ans[1] = "val" THEN <<"err", ans[2]>>     \* garbled, same data bits
          ELSE <<"err", 255>>)
    ELSE ans

\* dt: the device type enabled for this frame (0 = none).
\* A configuration command (STORE COLOUR TEMPERATURE Tc LIMIT here) takes effect only when it is received twice in a row
\* (IEC 62386-102 9.3: the identical frame again, nothing in between): u.pend is the configuration frame that is waiting
\* for its repeat (-1 = none).  Senders know which commands these are from the command's send-twice flag.
StepNow(u, f, dt) ==
    LET nm == Name16(f, dt)
        lb == f % 256
        Q(v) == [u |-> [u EXCEPT !.nans = @ + 1], resp |-> Faulted(u, <<"val", v>>)]
    IN
    CASE nm = "102.DTR0" -> [u |-> [u EXCEPT !.dtr0 = lb], resp |-> Silent]
      [] nm = "102.DTR1" -> [u |-> [u EXCEPT !.dtr1 = lb], resp |-> Silent]
      [] nm = "102.DTR2" -> [u |-> [u EXCEPT !.dtr2 = lb], resp |-> Silent]
      [] nm = "209.SetTemporaryColourTemperature" /\ Addressed(f) ->
           [u |-> [u EXCEPT !.tempTc = u.dtr1 * 256 + u.dtr0], resp |-> Silent]
      [] nm = "209.Activate" /\ Addressed(f) ->
           [u |-> [u EXCEPT !.tc = u.tempTc, !.activated = TRUE], resp |-> Silent]
      [] nm = "209.StoreColourTemperatureTcLimit" /\ Addressed(f) ->
           [u |-> IF u.dtr2 \in 0..3 THEN [u EXCEPT !.limits[u.dtr2 + 1] = u.dtr1 * 256 + u.dtr0] ELSE u,
            resp |-> Silent]
      [] nm = "209.QueryColourValue" /\ Addressed(f) ->
           \* answers the MSB of the selected value and leaves its LSB in DTR0
           LET v == IF u.dtr0 = u.sel THEN u.report ELSE 65535 IN
           [u |-> [u EXCEPT !.nans = @ + 1, !.dtr0 = v % 256], resp |-> Faulted(u, <<"val", v \div 256>>)]
      [] nm = "102.QueryContentDTR0" /\ Addressed(f) -> Q(u.dtr0)
      [] nm = "102.QueryActualLevel" /\ Addressed(f) -> Q(u.level)
      [] OTHER -> [u |-> u, resp |-> Silent]

Step(u, f, dt) ==
    IF Name16(f, dt) = "209.StoreColourTemperatureTcLimit" /\ Addressed(f)
    THEN (IF u.pend = f THEN LET r == StepNow(u, f, dt) IN [u |-> [r.u EXCEPT !.pend = -1], resp |-> r.resp]
          ELSE [u |-> [u EXCEPT !.pend = f], resp |-> Silent])
    ELSE LET r == StepNow(u, f, dt) IN [u |-> [r.u EXCEPT !.pend = -1], resp |-> r.resp]

\* the selectors of QUERY COLOUR VALUE (209 Table 11)
QuerySelectors == (0..15) \cup (64..82) \cup (128..131) \cup (192..208) \cup (224..240)

\* names of the selectors (IEC 62386-209 Table 11, QUERY COLOUR VALUE) and of the Tc limits (Table 7, DTR2 of STORE COLOUR
\* TEMPERATURE Tc LIMIT), spelled as the library spells its enumeration members; the limit a query selector reports is the
\* one stored under the limit selector of the same name
QuerySelectorNames == {
    <<"XCoordinate", 0>>, <<"YCoordinate", 1>>, <<"ColourTemperatureTC", 2>>, <<"PrimaryNDimLevel0", 3>>,
    <<"PrimaryNDimLevel1", 4>>, <<"PrimaryNDimLevel2", 5>>, <<"PrimaryNDimLevel3", 6>>, <<"PrimaryNDimLevel4", 7>>,
    <<"PrimaryNDimLevel5", 8>>, <<"RedDimLevel", 9>>, <<"GreenDimLevel", 10>>, <<"BlueDimLevel", 11>>,
    <<"WhiteDimLevel", 12>>, <<"AmberDimLevel", 13>>, <<"FreecolourDimLevel", 14>>, <<"RGBWAFControl", 15>>,
    <<"XCoordinatePrimaryN0", 64>>, <<"YCoordinatePrimaryN0", 65>>, <<"TYPrimaryN0", 66>>, <<"XCoordinatePrimaryN1", 67>>,
    <<"YCoordinatePrimaryN1", 68>>, <<"TYPrimaryN1", 69>>, <<"XCoordinatePrimaryN2", 70>>, <<"YCoordinatePrimaryN2", 71>>,
    <<"TYPrimaryN2", 72>>, <<"XCoordinatePrimaryN3", 73>>, <<"YCoordinatePrimaryN3", 74>>, <<"TYPrimaryN3", 75>>,
    <<"XCoordinatePrimaryN4", 76>>, <<"YCoordinatePrimaryN4", 77>>, <<"TYPrimaryN4", 78>>, <<"XCoordinatePrimaryN5", 79>>,
    <<"YCoordinatePrimaryN5", 80>>, <<"TYPrimaryN5", 81>>, <<"NumberOfPrimaries", 82>>, <<"ColourTemperatureTcCoolest", 128>>,
    <<"ColourTemperatureTcPhysicalCoolest", 129>>, <<"ColourTemperatureTcWarmest", 130>>, <<"ColourTemperatureTcPhysicalWarmest", 131>>, <<"TemporaryXCoordinate", 192>>,
    <<"TemporaryYCoordinate", 193>>, <<"TemporaryColourTemperature", 194>>, <<"TemporaryPrimaryNDimLevel0", 195>>, <<"TemporaryPrimaryNDimLevel1", 196>>,
    <<"TemporaryPrimaryNDimLevel2", 197>>, <<"TemporaryPrimaryNDimLevel3", 198>>, <<"TemporaryPrimaryNDimLevel4", 199>>, <<"TemporaryPrimaryNDimLevel5", 200>>,
    <<"TemporaryRedDimLevel", 201>>, <<"TemporaryGreenDimLevel", 202>>, <<"TemporaryBlueDimLevel", 203>>, <<"TemporaryWhiteDimLevel", 204>>,
    <<"TemporaryAmberDimLevel", 205>>, <<"TemporaryFreecolourDimLevel", 206>>, <<"TemporaryRgbwafControl", 207>>, <<"TemporaryColourType", 208>>,
    <<"ReportXCoordinate", 224>>, <<"ReportYCoordinate", 225>>, <<"ReportColourTemperatureTc", 226>>, <<"ReportPrimaryNDimLevel0", 227>>,
    <<"ReportPrimaryNDimLevel1", 228>>, <<"ReportPrimaryNDimLevel2", 229>>, <<"ReportPrimaryNDimLevel3", 230>>, <<"ReportPrimaryNDimLevel4", 231>>,
    <<"ReportPrimaryNDimLevel5", 232>>, <<"ReportRedDimLevel", 233>>, <<"ReportGreenDimLevel", 234>>, <<"ReportBlueDimLevel", 235>>,
    <<"ReportWhiteDimLevel", 236>>, <<"ReportAmberDimLevel", 237>>, <<"ReportFreecolourDimLevel", 238>>, <<"ReportRgbwafControl", 239>>,
    <<"ReportColourType", 240>>}
LimitSelectorNames == {<<"TcCoolest", 0>>, <<"TcWarmest", 1>>, <<"TcPhysicalCoolest", 2>>, <<"TcPhysicalWarmest", 3>>}
\* query selector that reads back limit selector k
LimitQuery == [k \in 0..3 |-> CASE k = 0 -> 128 [] k = 1 -> 130 [] k = 2 -> 129 [] k = 3 -> 131]
=============================================================================
