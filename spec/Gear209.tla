------------------------------ MODULE Gear209 ------------------------------
(* A colour-temperature (Tc) control gear of IEC 62386-209 as far as the      *)
(* sequences of C14 go.  One unit with short address 5, member of group 2.    *)
(* u: [tempTc, tc, activated, limits : 4 values (selector 0 coolest,          *)
(*     1 warmest, 2 physical coolest, 3 physical warmest), report : the 16-bit *)
(*     value QUERY COLOUR VALUE reports for selector sel, sel, dtr0, dtr1,     *)
(*     dtr2, level, fault : [at, kind], nans]                                  *)
EXTENDS CmdCodec, TLC

Silent == <<"none", 0>>
UnitShort == 5
UnitGroup == 2

Addressed(f) == GearOf7(f \div 512) \in {<<"gshort", UnitShort>>, <<"ggroup", UnitGroup>>, <<"gbcast", 0>>}

Faulted(u, ans) ==
    IF u.fault.kind # "none" /\ u.nans + 1 = u.fault.at
    THEN (IF u.fault.kind = "silent" THEN Silent ELSE <<"err", 255>>)
    ELSE ans

\* dt: the device type enabled for this frame (0 = none)
Step(u, f, dt) ==
    LET nm == Name16(f, dt)
        lb == f % 256
        Q(v) == [u |-> [u EXCEPT !.nans = @ + 1], resp |-> Faulted(u, <<"val", v>>)]
    IN
    CASE nm = "102.DTR0" -> [u |-> [u EXCEPT !.dtr0 = lb], resp |-> Silent]
      [] nm = "102.DTR1" -> [u |-> [u EXCEPT !.dtr1 = lb], resp |-> Silent]
      [] nm = "102.DTR2" -> [u |-> [u EXCEPT !.dtr2 = lb], resp |-> Silent]
      [] nm = "209.SetTemporaryColourTemperature" /\ Addressed(f) ->
           [u |-> [u EXCEPT !.tempTc = u.dtr1 * 256 + u.dtr0], resp |-> Silent]
      [] nm = "209.Activate" /\ Addressed(f) ->
           [u |-> [u EXCEPT !.tc = u.tempTc, !.activated = TRUE], resp |-> Silent]
      [] nm = "209.StoreColourTemperatureTcLimit" /\ Addressed(f) ->
           [u |-> IF u.dtr2 \in 0..3 THEN [u EXCEPT !.limits[u.dtr2 + 1] = u.dtr1 * 256 + u.dtr0] ELSE u,
            resp |-> Silent]
      [] nm = "209.QueryColourValue" /\ Addressed(f) ->
           \* answers the MSB of the selected value and leaves its LSB in DTR0
           LET v == IF u.dtr0 = u.sel THEN u.report ELSE 65535 IN
           [u |-> [u EXCEPT !.nans = @ + 1, !.dtr0 = v % 256], resp |-> Faulted(u, <<"val", v \div 256>>)]
      [] nm = "102.QueryContentDTR0" /\ Addressed(f) -> Q(u.dtr0)
      [] nm = "102.QueryActualLevel" /\ Addressed(f) -> Q(u.level)
      [] OTHER -> [u |-> u, resp |-> Silent]

\* the selectors of QUERY COLOUR VALUE (209 Table 11)
QuerySelectors == (0..15) \cup (64..82) \cup (128..131) \cup (192..208) \cup (224..240)
=============================================================================
