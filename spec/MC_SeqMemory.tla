---------------------------- MODULE MC_SeqMemory ----------------------------
(* Model instance of SeqMemory: representative rows of the memory map (lockable, plain writable, read-only, *)
(* one and several bytes, banks with and without latch), images with every "last accessible location" /    *)
(* hole relevant to the value, unit variants, and one fault of each kind at every answered step.            *)
EXTENDS SeqMemory

Kinds == {"gear", "device"}
NoFault == [at |-> 0, kind |-> "none"]
Img(bank, la0, lock, holes) ==
    [k \in 1..255 |-> LET l == k - 1 IN
        IF l = 0 THEN la0 ELSE IF l = 1 THEN 0
        ELSE IF l = 2 THEN (IF BankNumber(bank) = 0 THEN 1 ELSE lock)
        ELSE IF l \in holes THEN -1 ELSE (l * 7 + 3) % 251]
Base(kind, bank, value, op) ==
    [kind |-> kind, bank |-> bank, value |-> value, op |-> op, mem |-> Img(bank, 254, 255, {}), unlock |-> 85,
     nobble |-> FALSE, echoflip |-> FALSE, fault |-> NoFault, wdata |-> <<>>, ignore |-> FALSE, latch |-> TRUE]
Row(rv) == MapRow(rv[1], rv[2])
Start(rv) == Row(rv)[3]
Width(rv) == Row(rv)[4]
Data(rv, seed) == [k \in 1..Width(rv) |-> (k * 37 + seed) % 256]

ReadRows == {<<"1", "ContentFormatID">>, <<"0", "GTIN">>, <<"202", "ActivePower">>,
             <<"207", "RatedMedianUsefulLightSourceStarts">>, <<"1", "LockByte">>, <<"0", "LastAddress">>}
ReadScen ==
    UNION {
      LET b == Base(k, rv[1], rv[2], "read") s == Start(rv) w == Width(rv) IN
        {b}
        \cup {[b EXCEPT !.mem = Img(rv[1], la, 255, {})] : la \in {x \in {s - 1, s, s + w - 2, s + w - 1} : x >= 0}}
        \cup {[b EXCEPT !.mem = Img(rv[1], 254, 255, {h})] : h \in {x \in s..(s + w - 1) : x >= 3}}
        \cup {[b EXCEPT !.fault = [at |-> a, kind |-> fk]] : a \in 1..w, fk \in {"silent", "err", "errsame"}}
      : k \in Kinds, rv \in ReadRows }

WriteRows == {<<"1", "ContentFormatID">>, <<"1", "YearOfManufacture">>, <<"206", "LightSourceStartCounterResettable">>,
              <<"207", "RatedMedianUsefulLightSourceStarts">>, <<"1", "LockByte">>, <<"202", "ActivePower">>, <<"0", "GTIN">>}
WriteScen ==
    UNION {
      LET s == Start(rv) w == Width(rv)
          b == [Base(k, rv[1], rv[2], "write") EXCEPT !.wdata = Data(rv, 11)] IN
        {b, [b EXCEPT !.ignore = TRUE], [b EXCEPT !.wdata = [jj \in 1..w |-> 255]], [b EXCEPT !.wdata = [jj \in 1..w |-> 85]],
         [b EXCEPT !.mem = Img(rv[1], 254, 85, {})], [b EXCEPT !.unlock = 102], [b EXCEPT !.nobble = TRUE],
         [b EXCEPT !.echoflip = TRUE], [b EXCEPT !.echoflip = TRUE, !.ignore = TRUE]}
        \cup (IF w > 1 THEN {[b EXCEPT !.wdata = SubSeq(Data(rv, 11), 1, w - 1)]} ELSE {})
        \cup {[b EXCEPT !.mem = Img(rv[1], la, 255, {})] : la \in {x \in {s - 1, s + w - 2} : x >= 2}}
        \cup {[b EXCEPT !.mem = Img(rv[1], 254, 255, {h})] : h \in {x \in s..(s + w - 1) : x >= 3}}
        \cup {[b EXCEPT !.fault = [at |-> a, kind |-> fk]] : a \in 1..w, fk \in {"silent", "err", "errsame", "stuck"}}
      : k \in Kinds, rv \in WriteRows }

AllBanks == {"0", "1", "202", "205", "207"}
ReadAllScen ==
    UNION {
      LET b == [Base(k, bank, "LastAddress", "readall") EXCEPT !.latch = lt] IN
        {[b EXCEPT !.mem = Img(bank, la, 255, h)] : la \in {2, 3, 9, 20}, h \in {{}, {3}, {5}, {9}, {4, 5}}}
        \cup {[b EXCEPT !.mem = Img(bank, 9, 255, {}), !.fault = [at |-> a, kind |-> fk]] :
                a \in {1, 2, 4, 8}, fk \in {"silent", "err", "errsame"}}
      : k \in Kinds, bank \in AllBanks, lt \in BOOLEAN }

ScenAll == ReadScen \cup WriteScen \cup ReadAllScen
ScenQuick == {s \in ScenAll : s.kind = "gear" \/ s.op = "write"}
=============================================================================
