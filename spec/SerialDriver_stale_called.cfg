SPECIFICATION Spec
CONSTANT Callers <- Callers3
CONSTANT Unit <- Unit3
CONSTANT Mode <- Mode3
CONSTANT Outcome <- OutVal3
CONSTANT Cancellable <- NoCancel
CONSTANT CancelAt <- AnyAwait
CONSTANT MaxStale = 2
CONSTANT MaySilence = FALSE
CONSTANT ConfPerTwice = 2
CONSTANT FlushAfterConfirm = FALSE
CONSTANT FlushAt = "called"
INVARIANT OwnWindow
CHECK_DEADLOCK FALSE

