SPECIFICATION Spec
CONSTANT Vals = {0, 1, 2, 3, 100, 253, 254, 255}
CONSTANT PHM = 1
CONSTANT Quirks = TRUE
CONSTANT Export = FALSE
PROPERTY ZeroSceneIsOff
CHECK_DEADLOCK FALSE
