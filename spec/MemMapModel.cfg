SPECIFICATION Spec
INVARIANT WellFormed
INVARIANT MaskPatterns
INVARIANT RoundTrip
CHECK_DEADLOCK FALSE
