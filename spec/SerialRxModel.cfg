SPECIFICATION Spec
CONSTANT MaxNoise = 4
INVARIANT NoiseThenFrame
INVARIANT BadChecksumDropped
INVARIANT UnfittingLengthDropped
INVARIANT SciAligned
CHECK_DEADLOCK FALSE
