SPECIFICATION Spec
CONSTANT Configs <- ConfigsSmall
CONSTANT RandVals <- RandValsSmall
CONSTANT K = 2
CONSTANT SkipSame = "no"
CONSTANT defaultInitValue = 0
INVARIANT InvP1
INVARIANT InvP2
INVARIANT InvP3
INVARIANT InvP4
INVARIANT InvP5
INVARIANT InvP6
CHECK_DEADLOCK FALSE
