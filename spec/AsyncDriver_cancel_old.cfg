SPECIFICATION Spec
CONSTANT Callers <- Callers3
CONSTANT Unit <- Unit3
CONSTANT Mode <- Mode3
CONSTANT ExcOn <- ExcAll3
CONSTANT Cancellable <- CancelAB
CONSTANT MaxLoss = 0
CONSTANT MaxSeq = 3
CONSTANT FixedCancel = FALSE
CONSTANT Limit <- NoLimit
CONSTANT PowerLocked = TRUE
INVARIANT TypeOK
INVARIANT WriteByOwner
INVARIANT TxnAtomic
INVARIANT AnswerPairing
INVARIANT CleanEnd
INVARIANT NoAssertion
PROPERTY EventuallyAllDone
CHECK_DEADLOCK FALSE
