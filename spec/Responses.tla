------------------------------ MODULE Responses ------------------------------
(* C06 -- what a response object must report for every bus outcome.          *)
(* Outcome index 1 = no answer, 2..257 = clean backward frame 0..255,         *)
(* 258..513 = backward frame 0..255 received with a framing error.            *)
(*                                                                            *)
(* A cell (recorded by harness/c06.py from the real response object) is       *)
(*   [raw  : 1 iff raw_value is the constructor argument,                     *)
(*    vk/vi/vn : .value as kind ("none","bool","int","str","frame","enum",    *)
(*               "exc","other"), integer payload, member/exception name,      *)
(*    status : list of strings, or <<"#exc", class>>, or <<"#na">>,           *)
(*    err  : .error as 0/1, -1 if the class has none (recorded, not judged:   *)
(*           the statement does not constrain it and QUERY STATUS redefines   *)
(*           it as "gear reports a failure"),                                 *)
(*    bits : per named bit of the standard's table 1/0, -1 None, -2 missing,  *)
(*    str  : "ok" or "exc:<class>"]                                           *)
EXTENDS StdTables, Bits, FiniteSets, TLC

Outcomes == 1..513
OType(o) == IF o = 1 THEN "none" ELSE IF o <= 257 THEN "clean" ELSE "err"
OVal(o) == IF o = 1 THEN 0 ELSE IF o <= 257 THEN o - 2 ELSE o - 258

Cannot == {"MissingResponse", "ResponseError"}     \* "says so with ..."
Marker == {"str", "none", "other"}                 \* a non-integer marker

AnsFamily(a) == IF Len(a) >= 3 /\ SubSeq(a, 1, 3) = "bm:" THEN "bm"
                ELSE IF Len(a) >= 3 /\ SubSeq(a, 1, 3) = "en:" THEN "en" ELSE a
AnsTable(a) == SubSeq(a, 4, Len(a))

\* response kinds a command with this answer column may use
AllowedKinds(a) ==
    CASE a = "yn" -> {"yn"}
      [] a = "val" -> {"num", "nummask", "generic"}
      [] a = "mask" -> {"nummask", "generic"}
      [] OTHER -> {a}                               \* "bm:<T>", "en:<E>"

RangeSet(s) == {s[i] : i \in 1..Len(s)}

NamedBits(t, v) == {BitNames[t][i] : i \in {j \in 1..Len(BitNames[t]) :
                                               BitNames[t][j] # "" /\ BitOfInt(v, j - 1) = 1}}
AllNames(t) == {BitNames[t][i] : i \in 1..Len(BitNames[t])} \ {""}

StatusIsExc(c) == Len(c.status) = 2 /\ c.status[1] = "#exc"

\* the clauses that hold for every kind
CommonOK(c) == c.raw = 1 /\ c.str \notin {"exc:MissingResponse", "exc:ResponseError"}

KindOK(k, o, c) ==
    LET t == OType(o)
        v == OVal(o)
    IN
    CASE k = "yn" -> c.vk = "bool" /\ c.vi = (IF t = "none" THEN 0 ELSE 1)
      [] k = "num" -> IF t = "clean" THEN c.vk = "int" /\ c.vi = v ELSE c.vk \in Marker
      [] k = "nummask" -> IF t = "clean" /\ v < 255 THEN c.vk = "int" /\ c.vi = v ELSE c.vk \in Marker
      [] k = "generic" ->
           (CASE t = "clean" -> c.vk = "frame" /\ c.vi = 1
              [] t = "none" -> c.vk = "none" \/ (c.vk = "exc" /\ c.vn \in Cannot)
              [] t = "err" -> (c.vk = "frame" /\ c.vi = 1) \/ (c.vk = "exc" /\ c.vn \in Cannot))
      [] AnsFamily(k) = "bm" ->
            LET tb == AnsTable(k) IN
           (CASE t = "clean" ->
                    /\ ~StatusIsExc(c)
                    /\ RangeSet(c.status) = NamedBits(tb, v)
                    /\ Len(c.status) = Cardinality(RangeSet(c.status))
                    /\ \A i \in 1..Len(BitNames[tb]) :
                          BitNames[tb][i] # "" => (i <= Len(c.bits) /\ c.bits[i] = BitOfInt(v, i - 1))
              [] t = "none" -> StatusIsExc(c) /\ c.status[2] \in Cannot
              [] t = "err" -> \/ StatusIsExc(c) /\ c.status[2] \in Cannot
                              \/ ~StatusIsExc(c) /\ RangeSet(c.status) \cap AllNames(tb) = {})
      [] AnsFamily(k) = "en" ->
            LET e == Enums[AnsTable(k)] IN
           (CASE t = "clean" ->
                    IF v < Len(e.names) THEN c.vk = "enum" /\ c.vi = v /\ c.vn = e.names[v + 1]
                    ELSE \/ c.vk = "exc" /\ c.vn = "ValueError"
                         \/ ~e.strict /\ c.vk = "str"
              [] t = "none" -> c.vk = "none" \/ (c.vk = "exc" /\ c.vn \in Cannot)
              [] t = "err" -> (c.vk = "exc" /\ c.vn \in Cannot) \/ (~e.strict /\ c.vk = "str"))

CellOK(k, o, c) == CommonOK(c) /\ KindOK(k, o, c)

AllKinds == {"yn", "num", "nummask", "generic"}
            \cup {"bm:" \o t : t \in DOMAIN BitNames} \cup {"en:" \o e : e \in DOMAIN Enums}

\* ---- answer column lookup by qualified command name "<part>.<Name>" --------
QName(r) == r[1] \o "." \o r[2]
Rows5 == [i \in 1..Len(AllRows6) |-> <<QName(AllRows6[i]), AllRows6[i][5]>>]
Rows7 == [i \in 1..Len(DevSpecial103) |-> <<QName(DevSpecial103[i]), DevSpecial103[i][6]>>]
AnswerPairs == RangeSet(Rows5) \cup RangeSet(Rows7)
HasAnswer(q) == \E p \in AnswerPairs : p[1] = q
\* several rows may share a qualified name (gear and device DTR0 ...): all must agree or the lookup is ambiguous
AnswersOf(q) == {p[2] : p \in {x \in AnswerPairs : x[1] = q}}
=============================================================================
