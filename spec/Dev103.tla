------------------------------- MODULE Dev103 -------------------------------
(* Control devices and their instances (IEC 62386-103) as far as the          *)
(* sequences of C13 go: device status, number of instances, per instance      *)
(* enabled / type / event scheme / 24-bit event filter (of which the instance *)
(* implements 8, 16 or 24 bits) / resolution and the byte-wise input value    *)
(* protocol (9.7.2: value MSB-aligned in ceil(N/8) bytes, unused low bits     *)
(* filled by repeating the value from its MSB; QUERY INPUT VALUE latches).    *)
(*                                                                            *)
(* dev: [short, status (byte), inst : Seq(instance)]                          *)
(* instance: [enabled, type, scheme 0..4, filter : Seq(0..255) (3 bytes,      *)
(*            low first), width 8|16|24, res 1..32, value : bits MSB first]   *)
(* bus: [dev : Seq(dev), dtr0, dtr1, dtr2, quiescent, latch : bytes pending,  *)
(*       fault : [at, kind], nans]                                            *)
EXTENDS CmdCodec, TLC

Silent == <<"none", 0>>

\* bytes of an N-bit value (bits MSB first), MSB-aligned, low bits filled by repeating the value
ValueBytes(bits) ==
    LET n == Len(bits)
        nb == (n + 7) \div 8
        stream == [k \in 1..(8 * nb) |-> bits[((k - 1) % n) + 1]]
    IN [j \in 1..nb |-> LET b == SubSeq(stream, 8 * (j - 1) + 1, 8 * j) IN
                         128 * b[1] + 64 * b[2] + 32 * b[3] + 16 * b[4] + 8 * b[5] + 4 * b[6] + 2 * b[7] + b[8]]

MaskToWidth(bytes, w) == <<bytes[1], IF w >= 16 THEN bytes[2] ELSE 0, IF w >= 24 THEN bytes[3] ELSE 0>>

Collect(ans) ==
    LET who == {k \in 1..Len(ans) : ans[k] >= 0} IN
    IF who = {} THEN Silent
    ELSE IF Cardinality(who) = 1 THEN <<"val", ans[CHOOSE k \in who : TRUE]>>
    ELSE <<"err", 0>>

Faulted(bus, ans) ==
    IF bus.fault.kind # "none" /\ bus.nans + 1 = bus.fault.at
    THEN (IF bus.fault.kind = "silent" THEN Silent
          ELSE IF bus.fault.kind = "errsame" /\ ans[1] = "val" THEN <<"err", ans[2]>>   \* garbled, same data bits
          ELSE <<"err", 255>>)
    ELSE ans

DevAddressed(d, dest) ==
    CASE dest[1] = "dshort" -> d.short = dest[2]
      [] dest[1] = "dbcast" -> TRUE
      [] dest[1] = "dunaddr" -> d.short = 255
      [] OTHER -> FALSE

\* instance byte -> instance number addressed, -1 if not an "instance number" byte
InstNo(ib) == IF ib < 32 THEN ib ELSE -1

ShortN(n) == IF Len(n) > 4 THEN SubSeq(n, 5, Len(n)) ELSE n

Step(bus, f) ==
    LET nm == ShortN(Name24(f))
        dest == DevOf7(f \div 131072)
        ib == (f \div 256) % 256
        ob == f % 256
        n == Len(bus.dev)
        D == bus.dev
        k0 == InstNo(ib)
        \* query answered by the addressed device(s); counts towards the fault plan
        Q(fn(_)) == LET a == Collect([k \in 1..n |-> IF DevAddressed(D[k], dest) THEN fn(D[k]) ELSE -1]) IN
                    [bus |-> [bus EXCEPT !.nans = @ + 1], resp |-> Faulted(bus, a)]
        HasInst(d) == k0 >= 0 /\ k0 < Len(d.inst)
        QI(fn(_)) == Q(LAMBDA d : IF HasInst(d) THEN fn(d.inst[k0 + 1]) ELSE -1)
        UpdI(fn(_)) == [bus |-> [bus EXCEPT !.dev = TLCEval([k \in 1..n |->
                                   IF DevAddressed(D[k], dest) /\ HasInst(D[k])
                                   THEN [D[k] EXCEPT !.inst[k0 + 1] = fn(D[k].inst[k0 + 1])] ELSE D[k]])],
                        resp |-> Silent]
    IN
    CASE nm = "DTR0" -> [bus |-> [bus EXCEPT !.dtr0 = ob], resp |-> Silent]
      [] nm = "DTR1" -> [bus |-> [bus EXCEPT !.dtr1 = ob], resp |-> Silent]
      [] nm = "DTR2" -> [bus |-> [bus EXCEPT !.dtr2 = ob], resp |-> Silent]
      [] nm = "DTR1DTR0" -> [bus |-> [bus EXCEPT !.dtr1 = ib, !.dtr0 = ob], resp |-> Silent]
      [] nm = "DTR2DTR1" -> [bus |-> [bus EXCEPT !.dtr2 = ib, !.dtr1 = ob], resp |-> Silent]
      [] nm = "StartQuiescentMode" -> [bus |-> [bus EXCEPT !.quiescent = TRUE], resp |-> Silent]
      [] nm = "StopQuiescentMode" -> [bus |-> [bus EXCEPT !.quiescent = FALSE], resp |-> Silent]
      [] nm = "QueryDeviceStatus" -> Q(LAMBDA d : d.status)
      [] nm = "QueryNumberOfInstances" -> Q(LAMBDA d : Len(d.inst))
      [] nm = "QueryInstanceEnabled" -> QI(LAMBDA x : IF x.enabled THEN 255 ELSE -1)
      [] nm = "QueryInstanceType" -> QI(LAMBDA x : x.type)
      [] nm = "QueryResolution" -> QI(LAMBDA x : x.res)
      [] nm = "QueryEventScheme" -> QI(LAMBDA x : x.scheme)
      [] nm = "SetEventScheme" -> UpdI(LAMBDA x : IF bus.dtr0 <= 4 THEN [x EXCEPT !.scheme = bus.dtr0] ELSE x)
      [] nm = "SetEventFilter" ->
           UpdI(LAMBDA x : [x EXCEPT !.filter = MaskToWidth(<<bus.dtr0, bus.dtr1, bus.dtr2>>, x.width)])
      [] nm = "QueryEventFilterZeroToSeven" -> QI(LAMBDA x : x.filter[1])
      [] nm = "QueryEventFilterEightToFifteen" -> QI(LAMBDA x : x.filter[2])
      [] nm = "QueryEventFilterSixteenToTwentyThree" -> QI(LAMBDA x : x.filter[3])
      [] nm = "QueryInputValue" ->
           \* first byte; the remaining bytes of this sample are latched
           LET r == QI(LAMBDA x : ValueBytes(x.value)[1])
               src == {k \in 1..n : DevAddressed(D[k], dest) /\ HasInst(D[k])}
           IN [bus |-> [r.bus EXCEPT !.latch = IF src = {} THEN <<>>
                                               ELSE Tail(ValueBytes(D[CHOOSE k \in src : TRUE].inst[k0 + 1].value))],
               resp |-> r.resp]
      [] nm = "QueryInputValueLatch" ->
           LET a == IF bus.latch = <<>> THEN Silent ELSE <<"val", Head(bus.latch)>> IN
           [bus |-> [bus EXCEPT !.latch = IF @ = <<>> THEN <<>> ELSE Tail(@), !.nans = @ + 1], resp |-> Faulted(bus, a)]
      [] OTHER -> [bus |-> bus, resp |-> Silent]
=============================================================================
