----------------------------- MODULE Events103 -----------------------------
(* C12 -- event messages of IEC 62386-103 9.7 (Table 3: event scheme / source *)
(* identification) and the event information of parts 301, 303, 304.          *)
(* 24-bit frame, bit 16 = 0.  An instance map is a function from              *)
(* <<short address, instance number>> to an instance type (0..31).            *)
EXTENDS Bits

NoField == -1

\* scheme by bits 23, 22, 15
Scheme(f) ==
    LET b23 == BitOfInt(f, 23)
        b22 == BitOfInt(f, 22)
        b15 == BitOfInt(f, 15)
    IN CASE b23 = 0 /\ b15 = 0 -> "device"
         [] b23 = 0 /\ b15 = 1 -> "device_instance"
         [] b23 = 1 /\ b22 = 0 /\ b15 = 0 -> "device_group"
         [] b23 = 1 /\ b22 = 0 /\ b15 = 1 -> "instance"
         [] b23 = 1 /\ b22 = 1 /\ b15 = 0 -> "instance_group"
         [] OTHER -> "reserved"

Hi5(f) == SliceOfInt(f, 21, 17)
Lo5(f) == SliceOfInt(f, 14, 10)
Data(f) == f % 1024

\* source fields the scheme carries; itype = NoField when the frame does not carry it
Fields(f) ==
    LET s == Scheme(f)
        base == [scheme |-> s, short |-> NoField, inum |-> NoField, dgroup |-> NoField, igroup |-> NoField,
                 itype |-> NoField, data |-> Data(f)]
    IN CASE s = "device" -> [base EXCEPT !.short = SliceOfInt(f, 22, 17), !.itype = Lo5(f)]
         [] s = "device_instance" -> [base EXCEPT !.short = SliceOfInt(f, 22, 17), !.inum = Lo5(f)]
         [] s = "device_group" -> [base EXCEPT !.dgroup = Hi5(f), !.itype = Lo5(f)]
         [] s = "instance" -> [base EXCEPT !.itype = Hi5(f), !.inum = Lo5(f)]
         [] s = "instance_group" -> [base EXCEPT !.igroup = Hi5(f), !.itype = Lo5(f)]
         [] OTHER -> base

\* part 301 Table 2: event information -> event name
PushButtonCodes == <<<<0, "301.ButtonReleased">>, <<1, "301.ButtonPressed">>, <<2, "301.ShortPress">>,
                     <<5, "301.DoublePress">>, <<9, "301.LongPressStart">>, <<11, "301.LongPressRepeat">>,
                     <<12, "301.LongPressStop">>, <<14, "301.ButtonFree">>, <<15, "301.ButtonStuck">> >>

Unknown == "103.UnknownEvent"
Ambiguous == "103.AmbiguousInstanceType"
NotEvent == "Command"

\* class of an event of instance type t carrying data d, and the event data it reports
\* (NoField = no data: the class name is the information)
EventClass(t, d) ==
    CASE t = 1 -> LET hits == {i \in 1..Len(PushButtonCodes) : PushButtonCodes[i][1] = d} IN
                  IF hits = {} THEN Unknown ELSE PushButtonCodes[CHOOSE i \in hits : TRUE][2]
      [] t = 3 -> IF d < 16 THEN "303.OccupancyEvent" ELSE Unknown   \* upper six bits must be zero
      [] t = 4 -> "304.LightEvent"
      [] OTHER -> Unknown
EventData(t, d) == IF t = 1 /\ EventClass(t, d) # Unknown THEN NoField ELSE d

\* full decode of an event-space frame under a map; result: [cls, short, inum, dgroup, igroup, itype, data]
HasType(map, sa, n) == <<sa, n>> \in DOMAIN map
Decode(f, map) ==
    LET fl == Fields(f) IN
    IF fl.scheme = "reserved" THEN
        [cls |-> NotEvent, short |-> NoField, inum |-> NoField, dgroup |-> NoField, igroup |-> NoField,
         itype |-> NoField, data |-> NoField]
    ELSE LET t == IF fl.scheme = "device_instance"
                  THEN (IF HasType(map, fl.short, fl.inum) THEN map[<<fl.short, fl.inum>>] ELSE NoField)
                  ELSE fl.itype
         IN IF t = NoField THEN
                [cls |-> Ambiguous, short |-> fl.short, inum |-> fl.inum, dgroup |-> NoField, igroup |-> NoField,
                 itype |-> NoField, data |-> fl.data]
            ELSE [cls |-> EventClass(t, fl.data), short |-> fl.short, inum |-> fl.inum, dgroup |-> fl.dgroup,
                  igroup |-> fl.igroup, itype |-> t, data |-> EventData(t, fl.data)]

\* the frame an event with these source fields and data is sent as
Encode(scheme, short, inum, group, itype, d) ==
    CASE scheme = "device" -> short * 131072 + itype * 1024 + d
      [] scheme = "device_instance" -> short * 131072 + 32768 + inum * 1024 + d
      [] scheme = "device_group" -> 8388608 + group * 131072 + itype * 1024 + d
      [] scheme = "instance" -> 8388608 + itype * 131072 + 32768 + inum * 1024 + d
      [] scheme = "instance_group" -> 8388608 + 4194304 + group * 131072 + itype * 1024 + d

\* a device/instance frame decodes through the map exactly as the instance-scheme frame carrying that type
\* would, apart from the source identification
SameEvent(a, b) == a.cls = b.cls /\ a.data = b.data /\ a.itype = b.itype
=============================================================================
