SPECIFICATION TraceSpec
CONSTANT Callers <- TrCallers
CONSTANT Unit <- TrUnit
CONSTANT Mode <- TrMode
CONSTANT Cancellable <- TrCallers
CONSTANT CancelAt <- TrAnyAwait
INVARIANT NotConsumed
CHECK_DEADLOCK FALSE
CONSTRAINT Progress
POSTCONDITION Report
