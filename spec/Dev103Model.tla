----------------------------- MODULE Dev103Model -----------------------------
(* Spec-side theorems for C13: the byte-wise input value protocol of Dev103   *)
(* composed with the reassembly the sequence performs (concatenate the bytes,  *)
(* drop the repeated low bits) is the identity for every resolution 1..32, and *)
(* SET EVENT FILTER / QUERY EVENT FILTER round-trip a filter of the width the  *)
(* instance implements even when DTR1/DTR2 hold stale bytes.                   *)
EXTENDS Dev103

VARIABLE res
Init == res \in 1..32
Next == UNCHANGED res
Spec == Init /\ [][Next]_res

ByteBits(v) == [k \in 1..8 |-> (v \div (2 ^ (8 - k))) % 2]
RECURSIVE Concat(_)
Concat(bytes) == IF bytes = <<>> THEN <<>> ELSE ByteBits(bytes[1]) \o Concat(Tail(bytes))
Reassemble(bytes, n) == SubSeq(Concat(bytes), 1, n)

Patterns(n) ==
    IF n <= 8 THEN [1..n -> {0, 1}]
    ELSE {[k \in 1..n |-> 0], [k \in 1..n |-> 1], [k \in 1..n |-> k % 2], [k \in 1..n |-> (k + 1) % 2]}
         \cup {[k \in 1..n |-> IF k = j THEN 1 ELSE 0] : j \in 1..n}
         \cup {[k \in 1..n |-> IF k = j THEN 0 ELSE 1] : j \in 1..n}

InputValueIdentity == \A bits \in Patterns(res) :
    /\ Len(ValueBytes(bits)) = (res + 7) \div 8
    /\ Reassemble(ValueBytes(bits), res) = bits

\* a bus with one device / one instance of the given filter width and stale DTRs
Inst(w) == [enabled |-> TRUE, type |-> 1, scheme |-> 0, filter |-> <<0, 0, 0>>, width |-> w, res |-> 8, value |-> <<0>>]
Bus(w, s1, s2) == [dev |-> <<[short |-> 1, status |-> 0, inst |-> <<Inst(w)>>]>>, dtr0 |-> 0, dtr1 |-> s1, dtr2 |-> s2,
                   quiescent |-> FALSE, latch |-> <<>>, fault |-> [at |-> 0, kind |-> "none"], nans |-> 0]
DTRx(k, v) == EncDevSpecial(DevSpecial103[CHOOSE j \in 1..Len(DevSpecial103) : DevSpecial103[j][2] = k], 0, v)
InstCmd(nm) == EncInst(Inst103[CHOOSE j \in 1..Len(Inst103) : Inst103[j][2] = nm], <<"dshort", 1>>, <<"number", 0>>)
RECURSIVE Run(_, _)
Run(bus, frames) == IF frames = <<>> THEN bus ELSE Run(Step(bus, frames[1]).bus, Tail(frames))

FilterLaw == res > 3 \/ \A w \in {8, 16, 24} : \A stale \in {0, 255} : \A b \in {0, 1, 128, 255} :
    LET lo == b
        md == IF w >= 16 THEN 255 - b ELSE 0
        hi == IF w >= 24 THEN (b + 7) % 256 ELSE 0
        loads == <<DTRx("DTR0", lo)>> \o (IF w >= 16 THEN <<DTRx("DTR1", md)>> ELSE <<>>)
                 \o (IF w >= 24 THEN <<DTRx("DTR2", hi)>> ELSE <<>>)
        after == Run(Bus(w, stale, stale), loads \o <<InstCmd("SetEventFilter")>>)
    IN after.dev[1].inst[1].filter = <<lo, md, hi>>
=============================================================================
