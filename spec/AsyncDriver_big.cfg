SPECIFICATION Spec
CONSTANT Callers <- Callers3
CONSTANT Unit <- Unit3
CONSTANT Mode <- Mode3
CONSTANT ExcOn <- ExcOffBC
CONSTANT Cancellable <- CancelAB
CONSTANT MaxLoss = 1
CONSTANT MaxSeq = 3
CONSTANT FixedCancel = TRUE
CONSTANT Limit <- NoLimit
CONSTANT PowerLocked = TRUE
INVARIANT TypeOK
INVARIANT WriteByOwner
INVARIANT TxnAtomic
INVARIANT AnswerPairing
INVARIANT CleanEnd
INVARIANT NoAssertion
INVARIANT ErrorsOnlyWhenAsked
CHECK_DEADLOCK FALSE
