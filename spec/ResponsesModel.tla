--------------------------- MODULE ResponsesModel ---------------------------
(* Spec-side sanity of Responses: every kind has an ideal behaviour that the  *)
(* clauses accept on all 513 outcomes (non-vacuity), distinct kinds are told  *)
(* apart by at least one outcome, tables are well formed.  One TLC state per  *)
(* kind.                                                                      *)
EXTENDS Responses

VARIABLE k
Init == k \in AllKinds
Next == UNCHANGED k
Spec == Init /\ [][Next]_k

Base == [raw |-> 1, vk |-> "none", vi |-> 0, vn |-> "", status |-> <<"#na">>, err |-> -1,
         bits |-> <<>>, str |-> "ok"]

SeqOfSet(S) == LET RECURSIVE F(_) 
                   F(T) == IF T = {} THEN <<>> ELSE LET x == CHOOSE y \in T : TRUE IN <<x>> \o F(T \ {x})
               IN F(S)

Ideal(kk, o) ==
    LET t == OType(o)
        v == OVal(o)
    IN
    CASE kk = "yn" -> [Base EXCEPT !.vk = "bool", !.vi = IF t = "none" THEN 0 ELSE 1]
      [] kk = "num" -> IF t = "clean" THEN [Base EXCEPT !.vk = "int", !.vi = v] ELSE [Base EXCEPT !.vk = "str"]
      [] kk = "nummask" -> IF t = "clean" /\ v < 255 THEN [Base EXCEPT !.vk = "int", !.vi = v]
                           ELSE [Base EXCEPT !.vk = "str"]
      [] kk = "generic" -> IF t = "clean" THEN [Base EXCEPT !.vk = "frame", !.vi = 1]
                           ELSE IF t = "none" THEN Base
                           ELSE [Base EXCEPT !.vk = "exc", !.vn = "ResponseError"]
      [] AnsFamily(kk) = "bm" ->
           LET tb == AnsTable(kk) IN
           IF t = "clean" THEN
               [Base EXCEPT !.status = SeqOfSet(NamedBits(tb, v)), !.err = 0,
                            !.bits = [i \in 1..Len(BitNames[tb]) |-> BitOfInt(v, i - 1)]]
           ELSE IF t = "none" THEN [Base EXCEPT !.status = <<"#exc", "MissingResponse">>, !.err = 0]
           ELSE [Base EXCEPT !.status = <<"#exc", "ResponseError">>, !.err = 1]
      [] AnsFamily(kk) = "en" ->
           LET e == Enums[AnsTable(kk)] IN
           IF t = "clean" THEN
               IF v < Len(e.names) THEN [Base EXCEPT !.vk = "enum", !.vi = v, !.vn = e.names[v + 1]]
               ELSE [Base EXCEPT !.vk = "exc", !.vn = "ValueError"]
           ELSE IF t = "none" THEN Base
           ELSE [Base EXCEPT !.vk = "exc", !.vn = "ResponseError"]

IdealAccepted == \A o \in Outcomes : CellOK(k, o, Ideal(k, o))

Discriminated == \A k2 \in AllKinds \ {k} : \E o \in Outcomes : ~CellOK(k2, o, Ideal(k, o))

StrRaisingRejected == \A o \in Outcomes :
    ~CellOK(k, o, [Ideal(k, o) EXCEPT !.str = "exc:ResponseError"])

TablesWellFormed ==
    /\ \A t \in DOMAIN BitNames : Len(BitNames[t]) <= 8 /\
          \A i, j \in 1..Len(BitNames[t]) : i # j /\ BitNames[t][i] # "" => BitNames[t][i] # BitNames[t][j]
    /\ \A p \in AnswerPairs : p[2] = "-" \/ AllowedKinds(p[2]) \subseteq AllKinds
    /\ \A p, q \in AnswerPairs : p[1] = q[1] => p[2] = q[2]
=============================================================================
