------------------------------ MODULE MemJudge ------------------------------
(* Judges the memory value layout and interpretation recorded from            *)
(* dali.memory (harness/c11.py) against MemMap.                               *)
EXTENDS MemMap, Json, IOUtils

Recs == ndJsonDeserialize(IOEnv.SHARD)
Cells == ndJsonDeserialize(IOEnv.CELLS)

VARIABLE i
Init == i \in 1..Len(Recs)
Next == UNCHANGED i
Spec == Init /\ [][Next]_i

MinOf(S) == CHOOSE x \in S : \A y \in S : x <= y
Fail(c, at) == [ok |-> FALSE, clause |-> c, at |-> at]
Pass == [ok |-> TRUE, clause |-> "", at |-> 0]

RowIx(bank, name) == CHOOSE k \in 1..Len(Map) : Map[k][1] = bank /\ Map[k][2] = name
HasRow(bank, name) == \E k \in 1..Len(Map) : Map[k][1] = bank /\ Map[k][2] = name

Verdict(r) ==
    CASE r.kind = "layout" ->
           \* r.vals: <<bank, name, start, width, types>> per declared value; r.banks: <<bank, lock, latch>>
           LET decl == {<<v[1], v[2], v[3], v[4], v[5]>> : v \in {r.vals[k] : k \in 1..Len(r.vals)}}
               spec == {<<Map[k][1], Map[k][2], Map[k][3], Map[k][4],
                          IF Len(Map[k][5]) = 1 THEN [j \in 1..Map[k][4] |-> Map[k][5]]
                          ELSE [j \in 1..Map[k][4] |-> SubSeq(Map[k][5], j, j)]>> : k \in 1..Len(Map)}
               declT == {<<v[1], v[2], v[3], v[4], [j \in 1..Len(v[5]) |-> v[5][j]]>> : v \in decl}
               extra == declT \ spec
               missing == spec \ declT
               badbank == {k \in 1..Len(r.banks) :
                             LET b == r.banks[k] IN
                             ~(b[1] \in Banks /\ Props(b[1]).lock = (b[2] = 1) /\ Props(b[1]).latch = (b[3] = 1))}
           IN IF extra # {} THEN Fail("value-not-in-standard-layout:" \o (CHOOSE x \in extra : TRUE)[2], 0)
              ELSE IF missing # {} THEN Fail("layout-value-missing-or-different:" \o (CHOOSE x \in missing : TRUE)[2], 0)
              ELSE IF badbank # {} THEN Fail("bank-lock/latch", MinOf(badbank))
              ELSE IF r.overlaps # 0 THEN Fail("values-overlap", r.overlaps)
              ELSE Pass
      [] r.kind = "dec" ->
           \* cells[k] indexes Cells: interpretation of raw = prefix \o <<k - 1>>
           IF ~HasRow(r.bank, r.name) THEN Pass
           ELSE LET row == Map[RowIx(r.bank, r.name)]
                    bad == {k \in 1..256 : ~ValueOK(row, r.prefix \o <<k - 1>>, Cells[r.cells[k]])}
                IN IF bad = {} THEN Pass ELSE Fail("interpretation", MinOf(bad) - 1)
      [] r.kind = "decw" ->
           IF ~HasRow(r.bank, r.name) THEN Pass
           ELSE LET row == Map[RowIx(r.bank, r.name)]
                    bad == {k \in 1..Len(r.raws) : ~ValueOK(row, r.raws[k], Cells[r.cells[k]])}
                IN IF bad = {} THEN Pass ELSE Fail("interpretation", MinOf(bad))
      [] r.kind = "inv" ->
           \* numbers: cells[k] = <<raw bytes, back-equal flag>> for n = ns[k] (n < 2^16), only valid n are judged
           IF ~HasRow(r.bank, r.name) THEN Pass
           ELSE LET row == Map[RowIx(r.bank, r.name)]
                    w == row[4]
                    bad == {k \in 1..Len(r.ns) :
                              LET nb == BytesOf(r.ns[k], w) IN
                              Flag(row, nb) = "" /\ ~(r.cells[k][1] = nb /\ r.cells[k][2] = 1)}
                IN IF bad = {} THEN Pass ELSE Fail("number->raw->number", r.ns[MinOf(bad)])
      [] r.kind = "fromlist" ->
           \* the value taken out of a bank image: a list that ends inside the value, or has None inside it, means "not
           \* implemented"; otherwise the interpretation of the bytes at the value's locations
           IF ~HasRow(r.bank, r.name) THEN Pass
           ELSE LET row == Map[RowIx(r.bank, r.name)]
                    end == r.start + row[4]
                    bad == {k \in 1..Len(r.probes) :
                              LET p == r.probes[k]
                                  c == Cells[r.cells[k]]
                                  incomplete == (p[1] = "len" /\ p[2] < end) \/ p[1] = "none"
                              IN IF incomplete THEN ~(c.k = "exc" /\ c.s = "MemoryLocationNotImplemented")
                                 ELSE ~ValueOK(row, r.raw, c)}
                IN IF bad = {} THEN Pass ELSE Fail("from_list", r.probes[MinOf(bad)][2])
      [] r.kind = "invstr" ->
           \* cells[k] = <<raw bytes, back-equal flag>> for the ASCII text r.texts[k] (as bytes)
           LET row == Map[RowIx(r.bank, r.name)]
               w == row[4]
               bad == {k \in 1..Len(r.texts) :
                         LET t == r.texts[k]
                             want == IF Len(t) < w THEN t \o <<0>> ELSE t
                         IN ~(r.cells[k][1] = want /\ r.cells[k][2] = 1)}
           IN IF bad = {} THEN Pass ELSE Fail("text->raw->text", MinOf(bad) - 1)
      [] r.kind = "declare-seq" ->
           \* several declarations in one bank of the user's own, one after the other: probes[k] = sequence of
           \* <<start, width, outcome>>.  No two values overlap: a declaration that shares a location with one ACCEPTED
           \* before it is refused (a refused declaration takes nothing away from the accepted ones); one that touches
           \* nothing declared before is accepted; one that only touches what a REFUSED declaration asked for may go either
           \* way (the library keeps the locations a refused value had claimed before the clash was found)
           LET Locs(d) == d[1]..(d[1] + d[2] - 1)
               Taken(p, j) == UNION {Locs(p[q]) : q \in {q2 \in 1..(j - 1) : p[q2][3] = "ok"}}
               Asked(p, j) == UNION {Locs(p[q]) : q \in 1..(j - 1)}
               badp == {k \in 1..Len(r.probes) :
                          \E j \in 1..Len(r.probes[k]) :
                              LET d == r.probes[k][j] IN
                              IF Locs(d) \cap Taken(r.probes[k], j) # {} THEN d[3] # "MemoryLocationOverlap"
                              ELSE IF Locs(d) \cap Asked(r.probes[k], j) = {} THEN d[3] # "ok"
                              ELSE d[3] \notin {"ok", "MemoryLocationOverlap"}}
           IN IF badp = {} THEN Pass ELSE Fail("declaration-overlap", MinOf(badp))
      [] r.kind = "declare" ->
           \* a user declares one value in a bank of his own: probes[k] = <<has lock byte, has latch, types, outcome>>.
           \* Lockable locations only exist in banks that have a lock byte (IEC 62386-102 9.10.4: the lock byte at
           \* location 2 is what protects them): a declaration with a lockable location ANYWHERE in the value is refused
           \* in a bank without one, and every other declaration is accepted
           LET bad == {k \in 1..Len(r.probes) :
                         LET p == r.probes[k]
                             lockable == \E j \in 1..Len(p[3]) : p[3][j] = "L"
                         IN IF lockable /\ p[1] = 0 THEN p[4] # "LockingNotSupported" ELSE p[4] # "ok"}
           IN IF bad = {} THEN Pass ELSE Fail("declaration-lockable-without-lock-byte", MinOf(bad))

Judge == LET r == Recs[i]
             v == Verdict(r)
         IN v.ok \/ PrintT(<<"REJECT", r.id, v.clause, v.at>>)
=============================================================================
