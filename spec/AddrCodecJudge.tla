--------------------------- MODULE AddrCodecJudge ---------------------------
(* Judges tables recorded from dali.address (harness/c04.py) against          *)
(* AddrCodec.  Rows (lists of cells) are interned in the file ROWS; LOWS holds *)
(* the lists of frame offsets a row ranges over.                              *)
EXTENDS AddrCodec, Json, IOUtils, TLC

Recs == ndJsonDeserialize(IOEnv.SHARD)
Rows == ndJsonDeserialize(IOEnv.ROWS)
Lows == ndJsonDeserialize(IOEnv.LOWS)

VARIABLE i
Init == i \in 1..Len(Recs)
Next == UNCHANGED i
Spec == Init /\ [][Next]_i

AKinds == <<"gshort", "ggroup", "gbcast", "gunaddr", "dshort", "dgroup", "dbcast", "dunaddr">>
IKinds == <<"number", "group", "type", "fnumber", "fgroup", "ftype", "fbroadcast", "broadcast",
            "fdevice", "device", "reserved">>
KIx(seq, k) == CHOOSE j \in 1..Len(seq) : seq[j] = k
ACode(a) == IF a = None THEN 0 ELSE 256 * KIx(AKinds, a[1]) + a[2]
ICode(a) == IF a = None THEN 0 ELSE 256 * KIx(IKinds, a[1]) + a[2]

IsAddr(o) == o[1] \in {AKinds[j] : j \in 1..8}
ObjSize(o) == IF IsAddr(o) THEN RequiredSize(o) ELSE 24
Put(o, f) == IF IsAddr(o) THEN AddAddr(o, f) ELSE AddInst(o, f)

MinOf(S) == CHOOSE x \in S : \A y \in S : x <= y
Fail(c, at) == [ok |-> FALSE, clause |-> c, at |-> at]
Pass == [ok |-> TRUE, clause |-> "", at |-> 0]

Verdict(r) ==
    CASE r.kind = "add" ->
           \* cells[j] = frame value after obj.add_to_frame(Frame(len, base + lows[j])); rb = 1 iff reading each
           \* result back gave an object equal to obj
           LET lows == Lows[r.lows]
               cells == Rows[r.row]
               o == <<r.obj[1], r.obj[2]>>
               bad == {j \in 1..Len(lows) : cells[j] # Put(o, r.base + lows[j])}
           IN IF bad # {} THEN Fail("add_to_frame", r.base + lows[MinOf(bad)])
              ELSE IF r.rb # 1 /\ (IsAddr(o) => r.len = 16 \/ BitOfInt(r.base, 16) = 1) THEN Fail("read-back", r.base)
              ELSE Pass
      [] r.kind = "from" ->
           LET lows == Lows[r.lows]
               cells == Rows[r.row]
               bad == {j \in 1..Len(lows) : cells[j] # ACode(AddrFromFrame(r.len, r.base + lows[j]))}
           IN IF bad # {} THEN Fail("from_frame", r.base + lows[MinOf(bad)]) ELSE Pass
      [] r.kind = "ifrom" ->
           LET lows == Lows[r.lows]
               cells == Rows[r.row]
               bad == {j \in 1..Len(lows) : cells[j] # ICode(InstFromFrame(r.len, r.base + lows[j]))}
           IN IF bad # {} THEN Fail("instance_from_frame", r.base + lows[MinOf(bad)]) ELSE Pass
      [] r.kind = "eq" ->
           \* cells[j] = (a == others[j]) + 2 * (a != others[j])
           LET a == <<r.obj[1], r.obj[2]>>
               bad == {j \in 1..Len(r.others) :
                         r.cells[j] # (IF a = <<r.others[j][1], r.others[j][2]>> THEN 1 ELSE 2)}
           IN IF bad # {} THEN Fail("equality", MinOf(bad)) ELSE Pass
      [] r.kind = "size" ->
           \* cells[n] for frame size n in 1..64: 1 = accepted, 0 = IncompatibleFrame raised and frame unchanged,
           \* -1 = anything else
           LET o == <<r.obj[1], r.obj[2]>>
               bad == {n \in 1..Len(r.cells) : r.cells[n] # (IF n = ObjSize(o) THEN 1 ELSE 0)}
           IN IF bad # {} THEN Fail("wrong-size", MinOf(bad)) ELSE Pass
      [] r.kind = "sizefrom" ->
           \* decoding a frame of another size yields no address / no instance
           IF \E n \in 1..Len(r.cells) : n \notin {16, 24} /\ r.cells[n] # 0
           THEN Fail("from_frame-other-size", 0) ELSE Pass

Judge == LET r == Recs[i]
             v == Verdict(r)
         IN v.ok \/ PrintT(<<"REJECT", r.id, v.clause, v.at>>)
=============================================================================
