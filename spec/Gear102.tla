------------------------------ MODULE Gear102 ------------------------------
(* A bus of IEC 62386-102 control gear, as far as addressing (9.14, 11.7),   *)
(* groups and device-type queries are concerned.  Commands arrive as 16-bit  *)
(* frames and are decoded with the specification's own tables (CmdCodec).    *)
(*                                                                           *)
(* gear g: [short : 0..63 or 255 (MASK), rand : 0..2^24-1,                   *)
(*          init : "DISABLED" | "ENABLED" | "WITHDRAWN", storeOK : BOOLEAN,  *)
(*          groups : SUBSET 0..15, dts : Seq(0..253) ascending,              *)
(*          dtpos : position in dts of the next QUERY NEXT DEVICE TYPE,      *)
(*                  0 = not in a device-type iteration]                      *)
(* bus: [gear : Seq(gear), search : 0..2^24-1, dtr0 : 0..255]                *)
(*                                                                           *)
(* Bus rule for answers: nobody -> "none"; one unit -> its byte; two or more *)
(* -> "err" (framing error), the statement's own reading.                    *)
EXTENDS CmdCodec, TLC

MASK == 255

AddressedBy(g, dest) ==
    CASE dest[1] = "gshort" -> g.short = dest[2]
      [] dest[1] = "ggroup" -> dest[2] \in g.groups
      [] dest[1] = "gbcast" -> TRUE
      [] dest[1] = "gunaddr" -> g.short = MASK
      [] OTHER -> FALSE

\* answer of the bus given the per-gear answers (-1 = silent)
Collect(ans) ==
    LET who == {k \in 1..Len(ans) : ans[k] >= 0} IN
    IF who = {} THEN <<"none", 0>>
    ELSE IF Cardinality(who) = 1 THEN <<"val", ans[CHOOSE k \in who : TRUE]>>
    ELSE <<"err", 0>>

Yes == 255

SetByte(x, which, v) ==     \* which: 2 = high, 1 = mid, 0 = low byte of a 24-bit number
    CASE which = 2 -> (v * 65536) + (x % 65536)
      [] which = 1 -> ((x \div 65536) * 65536) + (v * 256) + (x % 256)
      [] which = 0 -> ((x \div 256) * 256) + v

ShortFromByte(b, old) == IF b = 255 THEN MASK ELSE IF b < 128 /\ b % 2 = 1 THEN b \div 2 ELSE old

\* every command other than QUERY NEXT DEVICE TYPE ends a device-type iteration
\* (TLCEval forces TLC to build the sequence now; otherwise a long fold chains lazily evaluated functions)
EndIteration(bus) == [bus EXCEPT !.gear = TLCEval([k \in 1..Len(bus.gear) |-> [bus.gear[k] EXCEPT !.dtpos = 0]])]

\* One command.  draws[k] is the random address gear k generates if it randomises now.
\* Result: [bus |-> bus', resp |-> <<kind, v>>]
Step(bus0, f, draws) ==
    LET name == Name16(f, 0)
        a7 == f \div 512
        dest == GearOf7(a7)
        lb == f % 256
        n == Len(bus0.gear)
        bus == IF name = "102.QueryNextDeviceType" THEN bus0 ELSE EndIteration(bus0)
        G == bus.gear
        Silent == <<"none", 0>>
        Upd(fn(_, _)) == [bus EXCEPT !.gear = TLCEval([k \in 1..n |-> fn(k, G[k])])]
        Ans(fn(_, _)) == Collect([k \in 1..n |-> fn(k, G[k])])
    IN
    CASE name = "102.DTR0" -> [bus |-> [bus EXCEPT !.dtr0 = lb], resp |-> Silent]
      [] name = "102.SetShortAddress" ->
           \* (stuckdel: a unit whose address memory cannot be written at all ignores this command too)
           [bus |-> Upd(LAMBDA k, g : IF AddressedBy(g, dest) /\ ~g.stuckdel
                                      THEN [g EXCEPT !.short = ShortFromByte(bus.dtr0, g.short)] ELSE g),
            resp |-> Silent]
      [] name = "102.QueryControlGearPresent" ->
           [bus |-> bus, resp |-> Ans(LAMBDA k, g : IF AddressedBy(g, dest) THEN Yes ELSE -1)]
      [] name = "102.QueryMissingShortAddress" ->
           [bus |-> bus, resp |-> Ans(LAMBDA k, g : IF AddressedBy(g, dest) /\ g.short = MASK THEN Yes ELSE -1)]
      [] name = "102.Terminate" ->
           [bus |-> Upd(LAMBDA k, g : [g EXCEPT !.init = "DISABLED"]), resp |-> Silent]
      [] name = "102.Initialise" ->
           [bus |-> Upd(LAMBDA k, g :
                      \* every selected unit becomes ENABLED, also one that had been WITHDRAWN (11.7.2)
                      IF (lb = 0 \/ (lb = 255 /\ g.short = MASK) \/ (lb < 128 /\ lb % 2 = 1 /\ g.short = lb \div 2))
                      THEN [g EXCEPT !.init = "ENABLED"] ELSE g),
            resp |-> Silent]
      [] name = "102.Randomise" ->
           [bus |-> Upd(LAMBDA k, g : IF g.init # "DISABLED" THEN [g EXCEPT !.rand = draws[k]] ELSE g),
            resp |-> Silent]
      [] name = "102.SearchaddrH" -> [bus |-> [bus EXCEPT !.search = SetByte(bus.search, 2, lb)], resp |-> Silent]
      [] name = "102.SearchaddrM" -> [bus |-> [bus EXCEPT !.search = SetByte(bus.search, 1, lb)], resp |-> Silent]
      [] name = "102.SearchaddrL" -> [bus |-> [bus EXCEPT !.search = SetByte(bus.search, 0, lb)], resp |-> Silent]
      [] name = "102.Compare" ->
           [bus |-> bus,
            resp |-> Ans(LAMBDA k, g : IF g.init = "ENABLED" /\ g.rand <= bus.search THEN Yes ELSE -1)]
      [] name = "102.Withdraw" ->
           [bus |-> Upd(LAMBDA k, g : IF g.init = "ENABLED" /\ g.rand = bus.search
                                      THEN [g EXCEPT !.init = "WITHDRAWN"] ELSE g),
            resp |-> Silent]
      [] name = "102.ProgramShortAddress" ->
           [bus |-> Upd(LAMBDA k, g : IF g.init # "DISABLED" /\ g.rand = bus.search /\ g.storeOK
                                      THEN [g EXCEPT !.short = ShortFromByte(lb, g.short)] ELSE g),
            resp |-> Silent]
      [] name = "102.VerifyShortAddress" ->
           [bus |-> bus,
            resp |-> Ans(LAMBDA k, g : IF g.init # "DISABLED" /\ lb < 128 /\ lb % 2 = 1 /\ g.short = lb \div 2
                                       THEN Yes ELSE -1)]
      [] name = "102.QueryShortAddress" ->
           [bus |-> bus,
            resp |-> Ans(LAMBDA k, g : IF g.init # "DISABLED" /\ g.rand = bus.search
                                       THEN (IF g.short = MASK THEN 255 ELSE 2 * g.short + 1) ELSE -1)]
      [] name = "102.AddToGroup" ->
           [bus |-> Upd(LAMBDA k, g : IF AddressedBy(g, dest) THEN [g EXCEPT !.groups = @ \cup {lb % 16}] ELSE g),
            resp |-> Silent]
      [] name = "102.RemoveFromGroup" ->
           [bus |-> Upd(LAMBDA k, g : IF AddressedBy(g, dest) THEN [g EXCEPT !.groups = @ \ {lb % 16}] ELSE g),
            resp |-> Silent]
      [] name = "102.QueryGroupsZeroToSeven" ->
           [bus |-> bus,
            resp |-> Ans(LAMBDA k, g : IF AddressedBy(g, dest)
                                       THEN IntOfBits([j \in 1..8 |-> IF (j - 1) \in g.groups THEN 1 ELSE 0]) ELSE -1)]
      [] name = "102.QueryGroupsEightToFifteen" ->
           [bus |-> bus,
            resp |-> Ans(LAMBDA k, g : IF AddressedBy(g, dest)
                                       THEN IntOfBits([j \in 1..8 |-> IF (j + 7) \in g.groups THEN 1 ELSE 0]) ELSE -1)]
      [] name = "102.QueryDeviceType" ->
           \* no part 2xx type: 254; one: that type; several: MASK and the iteration starts
           [bus |-> Upd(LAMBDA k, g : IF AddressedBy(g, dest) /\ Len(g.dts) > 1 THEN [g EXCEPT !.dtpos = 1] ELSE g),
            resp |-> Ans(LAMBDA k, g : IF ~AddressedBy(g, dest) THEN -1
                                       ELSE IF Len(g.dts) = 0 THEN 254
                                       ELSE IF Len(g.dts) = 1 THEN g.dts[1] ELSE 255)]
      [] name = "102.QueryNextDeviceType" ->
           \* valid only directly after QUERY DEVICE TYPE / QUERY NEXT DEVICE TYPE: next type, then 254
           [bus |-> Upd(LAMBDA k, g : IF AddressedBy(g, dest) /\ g.dtpos > 0
                                      THEN [g EXCEPT !.dtpos = IF g.dtpos <= Len(g.dts) THEN g.dtpos + 1 ELSE 0]
                                      ELSE g),
            resp |-> Ans(LAMBDA k, g : IF ~AddressedBy(g, dest) \/ g.dtpos = 0 THEN -1
                                       ELSE IF g.dtpos <= Len(g.dts) THEN g.dts[g.dtpos] ELSE 254)]
      [] OTHER -> [bus |-> bus, resp |-> Silent]       \* commands this model does not interpret

Shorts(bus) == [k \in 1..Len(bus.gear) |-> bus.gear[k].short]
Inits(bus) == [k \in 1..Len(bus.gear) |-> bus.gear[k].init]
Rands(bus) == [k \in 1..Len(bus.gear) |-> bus.gear[k].rand]
=============================================================================
