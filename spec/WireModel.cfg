SPECIFICATION Spec
INVARIANT SeqInRange
INVARIANT Checksums
PROPERTY NoRepeat
CHECK_DEADLOCK FALSE
