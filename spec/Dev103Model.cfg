SPECIFICATION Spec
INVARIANT InputValueIdentity
INVARIANT FilterLaw
CHECK_DEADLOCK FALSE
