SPECIFICATION Spec
CONSTANT DTUniverse = {0, 1, 6, 253}
CONSTANT GroupUniverse = {0, 1, 9}
CONSTANT L = 4
CONSTANT defaultInitValue = 0
INVARIANT QDTExact
INVARIANT QGExact
INVARIANT SGExact
INVARIANT Bounded
INVARIANT AdvOutcome
CHECK_DEADLOCK FALSE
