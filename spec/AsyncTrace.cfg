SPECIFICATION TraceSpec
CONSTANT Callers <- TrCallers
CONSTANT Unit <- TrUnit
CONSTANT Mode <- TrMode
CONSTANT ExcOn <- TrExc
CONSTANT Cancellable <- TrCancellable
CONSTANT MaxLoss = 9
CONSTANT MaxSeq = 255
CONSTANT FixedCancel = TRUE
CONSTANT Limit <- TrLimit
CONSTANT PowerLocked = TRUE
INVARIANT NotConsumed
CHECK_DEADLOCK FALSE
CONSTRAINT Progress
POSTCONDITION Report
