---------------------------- MODULE FrameBVModel ----------------------------
(* Exhaustive state graph of one Frame of width W in 1..MaxW under every    *)
(* bit/slice write (including every illegal index and value), with the laws *)
(* the property states checked in every reachable state.                    *)
EXTENDS FrameBV

CONSTANT MaxW

VARIABLES fr, last      \* fr: the frame; last: outcome kind of the last step

vars == <<fr, last>>

IntVal(n) == [t |-> "int", neg |-> n < 0, b |-> IF n < 0 THEN <<1>> ELSE Trim(BitsOfInt(n, 12)),
              bytes |-> <<>>, truth |-> n # 0]
NoVal == [t |-> "none", neg |-> FALSE, b |-> <<>>, bytes |-> <<>>, truth |-> FALSE]

Ev(op, a, b, step, val) ==
    [op |-> op, f |-> 1, g |-> 0, dst |-> 0, ak |-> "int", a |-> a, bk |-> "int", b |-> b,
     step |-> step, val |-> val]

Init == /\ \E w \in 1..MaxW : \E n \in 0..(Pow2(w) - 1) : fr = Frame(w, BitsOfInt(n, w))
        /\ last = "init"

Do(e) == LET s == Sem(<<fr>>, e) IN
         /\ fr' = s.post[1]
         /\ last' = IF s.exc = {} THEN "ok" ELSE "exc"

SetBitA == \E k \in -1..(fr.w) : \E v \in {0, 1} : Do(Ev("setbit", k, 0, 0, IntVal(v)))

SetSliceA == \E a \in -1..(fr.w) : \E b \in -1..(fr.w) : \E step \in {0, 1, 2} :
               \E v \in -1..Pow2(fr.w) : Do(Ev("setslice", a, b, step, IntVal(v)))

Next == SetBitA \/ SetSliceA

Spec == Init /\ [][Next]_vars

\* ---- invariants (laws of the property, checked in every state) -------------
RangeInv == /\ fr.w \in 1..MaxW
            /\ Len(fr.b) = fr.w
            /\ \A i \in 1..fr.w : fr.b[i] \in Bit

Idx == 0..(fr.w - 1)

Get(a, b) == Sem(<<fr>>, Ev("getslice", a, b, 0, NoVal))

SliceSymmetric == \A a \in Idx : \A b \in Idx : Get(a, b) = Get(b, a)

SliceIsBits == \A a \in Idx : \A b \in Idx : a >= b =>
    Pad(Get(a, b).res.bits, a - b + 1) = [i \in 1..(a - b + 1) |-> fr.b[b + i]]

WriteThenRead == \A a \in Idx : \A b \in Idx : a >= b =>
    \A v \in 0..(Pow2(a - b + 1) - 1) :
       LET s == Sem(<<fr>>, Ev("setslice", a, b, 0, IntVal(v)))
           after == s.post[1]
       IN /\ s.exc = {}
          /\ after.w = fr.w
          /\ IntOfBits(Slice(after.b, a, b)) = v
          /\ \A i \in Idx : (i > a \/ i < b) => after.b[i + 1] = fr.b[i + 1]

Views ==
    LET n == IntOfBits(fr.b)
        bytes == Sem(<<fr>>, Ev("pack", 0, 0, 0, NoVal)).res.bytes
    IN /\ Len(bytes) = NBytes(fr.w)
       /\ BitsOfBytesBE(bytes, fr.w) = fr.b                        \* reconstructs
       /\ Pad(Sem(<<fr>>, Ev("as_integer", 0, 0, 0, NoVal)).res.bits, fr.w) = fr.b
       /\ \A l \in 0..3 :
            LET s == Sem(<<fr>>, Ev("pack_len", l, 0, 0, NoVal)) IN
            IF n < Pow2(8 * l) THEN s.exc = {} /\ BitsOfBytesBE(s.res.bytes, fr.w) = fr.b
                                     /\ Len(s.res.bytes) = l
            ELSE s.exc = {"OverflowError"}

AddLaw == \A w2 \in 1..2 : \A n2 \in 0..(Pow2(w2) - 1) :
    LET s == Sem(<<fr, Frame(w2, BitsOfInt(n2, w2))>>,
                 [Ev("add", 0, 0, 0, NoVal) EXCEPT !.g = 2, !.dst = 3])
    IN /\ s.exc = {}
       /\ s.post[3].w = fr.w + w2
       /\ IntOfBits(s.post[3].b) = IntOfBits(fr.b) * Pow2(w2) + n2

ExcLeavesState == [][last' = "exc" => fr' = fr]_vars
WidthConstant == [][fr'.w = fr.w]_vars
=============================================================================
