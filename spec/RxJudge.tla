------------------------------- MODULE RxJudge -------------------------------
(* Judges what the real LUBA / SCI receivers delivered for a byte stream       *)
(* (harness/c19.py) against the reference deframers of SerialRx.               *)
EXTENDS SerialRx, Json, IOUtils

Recs == ndJsonDeserialize(IOEnv.SHARD)

VARIABLE i
Init == i \in 1..Len(Recs)
Next == UNCHANGED i
Spec == Init /\ [][Next]_i

Fail(c, at) == [ok |-> FALSE, clause |-> c, at |-> at]
Pass == [ok |-> TRUE, clause |-> "", at |-> 0]

\* confirmations: the transmit ids must agree; the frame is compared when the receiver attached one
ConfOK(got, exp) ==
    /\ Len(got) = Len(exp)
    /\ \A k \in 1..Len(got) : got[k][1] = exp[k][1] /\ (got[k][2] = <<-1>> \/ got[k][2] = exp[k][2])

Verdict(r) ==
    LET exp == IF r.proto = "luba" THEN LubaRun(r.bytes) ELSE SciRun(r.bytes) IN
    IF exp.aside THEN [ok |-> TRUE, clause |-> "aside", at |-> 0]
    ELSE IF Len(r.exc) > 0 THEN Fail("exception-escaped-data_received:" \o r.exc[1][2], r.exc[1][1])
    ELSE IF r.got.raw # exp.raw THEN Fail("backward-frame-values", Len(r.got.raw))
    ELSE IF r.got.cmd # exp.cmd THEN Fail("observed-commands", Len(r.got.cmd))
    ELSE IF r.got.info # exp.info THEN Fail("info-items", Len(r.got.info))
    ELSE IF ~ConfOK(r.got.conf, exp.conf) THEN Fail("transmit-confirmations", Len(r.got.conf))
    ELSE Pass

Judge == LET r == Recs[i]
             v == Verdict(r)
         IN /\ (v.clause # "aside" \/ PrintT(<<"NOTE", r.id, "aside">>))
            /\ (v.ok \/ PrintT(<<"REJECT", r.id, v.clause, v.at>>))
=============================================================================
