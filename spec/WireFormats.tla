---------------------------- MODULE WireFormats ----------------------------
(* C18 -- the bytes each gateway's protocol prescribes for one DALI forward   *)
(* frame, the receive-side meaning of its packets and the rules for sequence  *)
(* numbers.  frame = natural number, bits in {16, 24}.                        *)
(* Provenance: Tridonic DALI USB and hasseb from the layouts documented in    *)
(* the drivers' comments / daliserver; LUBA and SCI from Lunatone's public    *)
(* protocol description as quoted in the driver ("doc" pins where I cannot    *)
(* state the field independently: SCI data alignment on transmit, LUBA        *)
(* priority classes).                                                         *)
EXTENDS CmdCodec, SequencesExt, TLC

IntBytes(n, w) == [j \in 1..w |-> (n \div (256 ^ (w - j))) % 256]
Zeros(n) == [j \in 1..n |-> 0]

XorByte(a, b) ==
    LET bit(x, k) == (x \div (2 ^ k)) % 2 IN
    LET s == [k \in 0..7 |-> (bit(a, k) + bit(b, k)) % 2] IN
    s[0] + 2 * s[1] + 4 * s[2] + 8 * s[3] + 16 * s[4] + 32 * s[5] + 64 * s[6] + 128 * s[7]
XorAll(seq) == FoldLeft(XorByte, 0, seq)

\* ---- HID Tridonic DALI USB: 64-byte command ---------------------------------
\* cmd 0x12, sequence number, control (0x20 = send twice), mode (3 = DALI 16, 6 = DALI 24),
\* frame right-aligned in 4 bytes, dtr, priority, device type, padding
TridonicCmd(seq, bits, f, tw) ==
    <<18, seq, IF tw THEN 32 ELSE 0, IF bits = 16 THEN 3 ELSE 6>> \o IntBytes(f, 4) \o Zeros(56)
TridonicOK(w, bits, f, tw) ==
    /\ Len(w) = 64 /\ w[2] \in 1..255 /\ w = TridonicCmd(w[2], bits, f, tw)

\* ---- HID hasseb: the two frame bytes, written twice for send-twice; 16 bit only -
HassebWrites(bits, f, tw) == IF tw THEN <<IntBytes(f, 2), IntBytes(f, 2)>> ELSE <<IntBytes(f, 2)>>

\* ---- Lunatone LUBA: 'Y', ADD DALI FRAME TO TX (0x32), length 7, bus 0, bit count, mode, 4 data bytes, XOR ----
\* mode: bit 7 send twice, bits 2..0 priority (2 for DAPC and standard commands without answer that are not
\* sent twice, otherwise 5)
LubaPriority(bits, f, dt) ==
    IF bits # 16 \/ GearOf7(f \div 512) = None THEN 5
    ELSE IF BitOfInt(f, 8) = 0 THEN 2
    ELSE LET nm == Name16(f, dt)
             hits == {k \in 1..Len(AllGearRows) : QName(AllGearRows[k]) = nm}
         IN IF hits = {} THEN 5
            ELSE LET r == AllGearRows[CHOOSE k \in hits : TRUE] IN
                 IF r[5] = "-" /\ ~HasFlag(r, "T") THEN 2 ELSE 5
LubaCmd(bits, f, tw, dt) ==
    LET body == <<50, 7, 0, bits, LubaPriority(bits, f, dt) + (IF tw THEN 128 ELSE 0)>>
                \o (IF bits = 16 THEN IntBytes(f, 2) \o <<0>> ELSE IntBytes(f, 3)) \o <<0>>
    IN <<89>> \o body \o <<XorAll(body)>>

\* ---- Lunatone SCI RS232: control, 3 data bytes, XOR of the four -------------------
\* control: 0x80 monitor, 0x20 echo, 0x10 send twice, low nibble mode (2 = DALI 8, 3 = DALI 16, 8 = DALI-2 24)
\* (data: the driver places a 16-bit frame in the first two data bytes -- pinned, see header)
SciCmd(bits, f, tw) ==
    LET body == <<128 + 32 + (IF tw THEN 16 ELSE 0) + (CASE bits = 8 -> 2 [] bits = 16 -> 3 [] OTHER -> 8)>>
                \o (CASE bits = 8 -> <<f, 0, 0>> [] bits = 16 -> IntBytes(f, 2) \o <<0>> [] OTHER -> IntBytes(f, 3))
    IN body \o <<XorAll(body)>>

\* ---- ATX LED DALI hat: ASCII line: h (16 bit) / l (24 bit) / t (16 bit sent twice), hex digits, newline ----
HexDigit(d) == IF d < 10 THEN 48 + d ELSE 55 + d
HexByte(b) == <<HexDigit(b \div 16), HexDigit(b % 16)>>
RECURSIVE HexBytes(_)
HexBytes(bs) == IF bs = <<>> THEN <<>> ELSE HexByte(bs[1]) \o HexBytes(Tail(bs))
AtxLine(bits, f, tw) ==
    <<IF bits = 16 THEN (IF tw THEN 116 ELSE 104) ELSE 108>> \o HexBytes(IntBytes(f, bits \div 8)) \o <<10>>

\* ---- daliserver: 02 00 + frame; the protocol has no send-twice flag: the message goes out twice ----
DaliserverMsgs(bits, f, tw) ==
    LET m == <<2, 0>> \o IntBytes(f, bits \div 8) IN IF tw THEN <<m, m>> ELSE <<m>>

\* ---- legacy drivers ------------------------------------------------------------------
LegacyTridonic(sn, f) == <<18, sn, 0, 3, 0, 0, f \div 256, f % 256>> \o Zeros(56)
LegacyHasseb(sn, f, tw, query) ==
    <<170, 7, sn, 16, IF query THEN 1 ELSE 0, 0, IF tw THEN 10 ELSE 0, f \div 256, f % 256, 0>>
\* UniPi: two 16-bit registers
UnipiRegs(bits, f, tw) ==
    IF bits = 16 THEN <<(2 + (IF tw THEN 8 ELSE 0)) * 256, f>>
    ELSE <<(3 + (IF tw THEN 8 ELSE 0)) * 256 + f \div 65536, f % 65536>>

\* ---- sequence numbers: within 1..255 and never the same twice in a row --------------
SeqNumbersOK(sns) == /\ \A k \in 1..Len(sns) : sns[k] \in 1..255
                     /\ \A k \in 1..(Len(sns) - 1) : sns[k] # sns[k + 1]

\* ---- receive side: what a well-formed packet denotes: <<kind, bits, value>> --------
\* kinds: "fwd", "back", "none" (no answer), "err" (framing error), "ignore"
LegacyTridonicRx(d) ==
    LET dr == d[1] ty == d[2] ad == d[5] cm == d[6] IN
    IF dr = 17 THEN (IF ty \in {115, 116} THEN <<"fwd", 16, ad * 256 + cm>> ELSE <<"ignore", 0, 0>>)
    ELSE IF dr = 18 THEN (IF ty = 113 THEN <<"none", 0, 0>> ELSE IF ty = 114 THEN <<"back", 8, cm>> ELSE <<"ignore", 0, 0>>)
    ELSE <<"ignore", 0, 0>>
LegacyHassebRx(d) ==
    IF d[2] = 7 THEN
        (IF d[4] = 1 THEN <<"none", 0, 0>>
         ELSE IF d[4] = 2 /\ d[5] = 1 THEN <<"back", 8, d[6]>>
         ELSE IF d[4] = 3 THEN <<"err", 8, 255>>
         ELSE <<"ignore", 0, 0>>)
    ELSE <<"ignore", 0, 0>>
UnipiRx(r) == IF r[1] = 256 THEN <<"back", 8, r[2]>>
              ELSE IF r[1] = 512 THEN <<"fwd", 16, r[2]>> ELSE <<"none", 0, 0>>
\* daliserver answer: version, status, value, pad; status 0 no answer, 1 answer, 255 framing error
DaliserverRx(d) == IF d[2] = 0 THEN <<"none", 0, 0>> ELSE IF d[2] = 1 THEN <<"back", 8, d[3]>>
                   ELSE IF d[2] = 255 THEN <<"err", 8, 255>> ELSE <<"error", 0, d[2]>>
=============================================================================
