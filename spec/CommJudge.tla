------------------------------ MODULE CommJudge ------------------------------
(* Trace judge for C07 (commissioning) and C08 (device-type / group           *)
(* sequences): re-executes every yielded frame on the Gear102 bus model,      *)
(* checks the logged answers and projected state against the model            *)
(* (environment check) and evaluates the property clauses at the end.         *)
EXTENDS Gear102, CommClauses, QueryClauses, Json, IOUtils

Recs == ndJsonDeserialize(IOEnv.SHARD)

VARIABLE i
Init == i \in 1..Len(Recs)
Next == UNCHANGED i
Spec == Init /\ [][Next]_i

SetOfSeq(s) == {s[j] : j \in 1..Len(s)}

InitBus(c) == [gear |-> [k \in 1..Len(c.shorts) |->
                           [short |-> c.shorts[k], rand |-> c.rands[k], init |-> c.inits[k], storeOK |-> c.storeOK[k],
                            stuckdel |-> IF "stuck" \in DOMAIN c THEN c.stuck[k] ELSE FALSE,
                            groups |-> SetOfSeq(c.groups[k]), dts |-> c.dts[k], dtpos |-> 0]],
               search |-> 0, dtr0 |-> c.dtr0]

\* fold (SequencesExt!FoldLeft is iterative in TLC; a RECURSIVE operator this deep is quadratic):
\* accumulator [bus, k, at, clause, witness, rounds]; at = 0 while every event matched the model
FoldStep(acc, e) ==
    IF acc.at # 0 THEN acc
    ELSE LET bus == acc.bus
             k == acc.k + 1
             nm == Name16(e.f, 0)
             s == Step(bus, e.f, IF Len(e.draws) = Len(bus.gear) THEN e.draws ELSE [j \in 1..Len(bus.gear) |-> 0])
             w == acc.witness \/ (nm = "102.ProgramShortAddress" /\
                              \E g \in 1..Len(bus.gear) : bus.gear[g].init = "WITHDRAWN" /\ bus.gear[g].rand = bus.search)
             rd == IF nm = "102.Randomise" THEN acc.rounds + 1 ELSE acc.rounds
         IN IF <<e.resp[1], e.resp[2]>> # s.resp
            THEN [acc EXCEPT !.k = k, !.at = k, !.clause = "env-answer", !.witness = w, !.rounds = rd]
            ELSE IF e.shorts # Shorts(s.bus)
            THEN [acc EXCEPT !.k = k, !.at = k, !.clause = "env-state", !.witness = w, !.rounds = rd]
            ELSE [bus |-> TLCEval(s.bus), k |-> k, at |-> 0, clause |-> "", witness |-> w, rounds |-> rd]

Fold(bus, evs, k0, witness, rounds) ==
    FoldLeft(FoldStep, [bus |-> bus, k |-> 0, at |-> 0, clause |-> "", witness |-> witness, rounds |-> rounds], evs)

GroupsOf(bus, k) == bus.gear[k].groups

Verdict(r) ==
    LET c == r.cfg
        fr == Fold(InitBus(c), r.ev, 1, FALSE, 0)
        fin == Shorts(fr.bus)
        n == Len(r.ev)
    IN
    IF fr.at # 0 THEN [ok |-> FALSE, clause |-> fr.clause, at |-> fr.at, witness |-> fr.witness]
    ELSE
    CASE r.seq = "Commissioning" ->
           LET cl == IF ~P5(c, r.out.exc) THEN "P5-exception"
                     ELSE IF ~P6(c, n, r.maxrounds) THEN "P6-bound"
                     ELSE IF ~P1(c, Inits(fr.bus), r.out.exc) THEN "P1-initialisation-left-on"
                     ELSE IF ~P4(c, fin) THEN "P4-non-participant-or-dry-run-changed"
                     ELSE IF ~P3(c, fin, r.out.exc) THEN "P3-duplicate-address"
                     ELSE IF ~P2(c, fin, r.out.exc) THEN "P2-permitted-set"
                     ELSE ""
           IN [ok |-> cl = "", clause |-> cl, at |-> n, witness |-> fr.witness]
      [] r.seq = "QueryDeviceTypes" ->
           \* conforming unit (r.adv = 0): result is exactly the unit's list; adversarial stream: bounded and,
           \* unless the stream is one a conforming unit could give, DALISequenceError
           LET unit == c.dts[1]
               cl == IF r.adv = 0 THEN
                         (IF r.out.exc # "none" THEN "conforming-unit-raised:" \o r.out.exc
                          ELSE IF r.out.ret # unit THEN "wrong-device-type-list" ELSE "")
                     ELSE ""
           IN [ok |-> cl = "", clause |-> cl, at |-> n, witness |-> FALSE]
      [] r.seq = "QueryGroups" ->
           LET cl == IF r.out.exc # "none" THEN "conforming-unit-raised:" \o r.out.exc
                     ELSE IF SetOfSeq(r.out.ret) # GroupsOf(fr.bus, 1) \/ Len(r.out.ret) # Cardinality(SetOfSeq(r.out.ret))
                     THEN "wrong-group-set" ELSE ""
           IN [ok |-> cl = "", clause |-> cl, at |-> n, witness |-> FALSE]
      [] r.seq = "SetGroups" ->
           LET want == SetOfSeq(r.want)
               before == SetOfSeq(c.groups[1])
               diff == (want \ before) \cup (before \ want)
               writes == Cardinality({k \in 1..n : Name16(r.ev[k].f, 0) \in {"102.AddToGroup", "102.RemoveFromGroup"}})
               cl == IF r.out.exc # "none" THEN "raised:" \o r.out.exc
                     ELSE IF \E k \in 1..Len(fr.bus.gear) : r.target[k] = 1 /\ GroupsOf(fr.bus, k) # want
                     THEN "membership-differs-from-request"
                     ELSE IF \E k \in 1..Len(fr.bus.gear) : r.target[k] = 0 /\ GroupsOf(fr.bus, k) # SetOfSeq(c.groups[k])
                     THEN "other-unit-changed"
                     ELSE IF r.readable = 1 /\ writes # Cardinality(diff) THEN "unnecessary-or-missing-writes"
                     ELSE ""
           IN [ok |-> cl = "", clause |-> cl, at |-> n, witness |-> FALSE]

\* ---- adversarial answer streams (C08) ---------------------------------------------
AdvVerdict(r) ==
    LET ans == [j \in 1..Len(r.ans) |-> <<r.ans[j][1], r.ans[j][2]>>]
        n == r.n
        bad(c) == [ok |-> FALSE, clause |-> c, at |-> n, witness |-> FALSE]
        good == [ok |-> TRUE, clause |-> "", at |-> 0, witness |-> FALSE]
    IN IF n > AdvBound THEN bad("not-bounded")
       ELSE IF r.out.exc \notin {"none", "DALISequenceError"} THEN bad("unrelated-exception:" \o r.out.exc)
       ELSE IF r.seq = "QDTAdv" THEN
            LET x == QDTExpected(ans) IN
            IF QDTOutcomeOK(ans, r.out.exc, r.out.ret) THEN good
            ELSE IF x.kind = "err" THEN bad("misbehaving-unit-accepted")
            ELSE IF r.out.exc = "none" THEN bad("wrong-device-type-list")
            ELSE bad("conforming-stream-rejected")
       ELSE LET x == QGExpected(ans) IN
            IF x.kind = "err" THEN (IF r.out.exc = "DALISequenceError" THEN good ELSE bad("misbehaving-unit-accepted"))
            ELSE IF r.out.exc # "none" THEN bad("conforming-stream-rejected")
            ELSE IF SetOfSeq(r.out.ret) = x.set THEN good ELSE bad("wrong-group-set")

Judge == LET r == Recs[i]
             v == IF r.seq \in {"QDTAdv", "QGAdv"} THEN AdvVerdict(r) ELSE Verdict(r)
         IN v.ok \/ PrintT(<<"REJECT", r.id, v.clause, v.at, v.witness>>)
=============================================================================
