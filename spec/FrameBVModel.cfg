SPECIFICATION Spec
CONSTANT MaxW = 4
INVARIANT RangeInv
INVARIANT SliceSymmetric
INVARIANT SliceIsBits
INVARIANT WriteThenRead
INVARIANT Views
INVARIANT AddLaw
PROPERTY ExcLeavesState
PROPERTY WidthConstant
CHECK_DEADLOCK FALSE
