SPECIFICATION Spec
INVARIANT IdealAccepted
INVARIANT Discriminated
INVARIANT StrRaisingRejected
INVARIANT TablesWellFormed
CHECK_DEADLOCK FALSE
