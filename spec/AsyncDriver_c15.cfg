SPECIFICATION Spec
CONSTANT Callers <- Callers2
CONSTANT Unit <- Unit2
CONSTANT Mode <- Mode2
CONSTANT ExcOn <- ExcAll2
CONSTANT Cancellable <- NoCancel
CONSTANT MaxLoss = 0
CONSTANT MaxSeq = 4
CONSTANT FixedCancel = TRUE
CONSTANT Limit <- NoLimit
CONSTANT PowerLocked = TRUE
INVARIANT TypeOK
INVARIANT WriteByOwner
INVARIANT TxnAtomic
INVARIANT AnswerPairing
INVARIANT CleanEnd
INVARIANT NoAssertion
PROPERTY EventuallyAllDone
CHECK_DEADLOCK FALSE
