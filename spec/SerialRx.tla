------------------------------ MODULE SerialRx ------------------------------
(* C19 -- reference deframers for the Lunatone LUBA and SCI RS232 protocols.  *)
(* Both consume one byte at a time (so chunking cannot matter) and deliver    *)
(* items into four queues: raw (backward frame values), conf (transmit        *)
(* confirmations), info (device info / settings / status) and cmd (observed   *)
(* forward frames as <<number of bits, bytes>>).                              *)
(*                                                                            *)
(* LUBA frame: 'Y' (0x59), command, length L, L payload bytes, checksum =     *)
(* XOR of command, length and payload.  A length that cannot fit (0 or > 20:  *)
(* the frame buffer holds 24 bytes) drops the header and scanning resumes at  *)
(* the next byte.  SCI frame: status, 3 data bytes, checksum = XOR of the 4.  *)
EXTENDS Naturals, Integers, Sequences, SequencesExt, FiniteSets, TLC

XorByte(a, b) ==
    LET bit(x, k) == (x \div (2 ^ k)) % 2 IN
    LET s == [k \in 0..7 |-> (bit(a, k) + bit(b, k)) % 2] IN
    s[0] + 2 * s[1] + 4 * s[2] + 8 * s[3] + 16 * s[4] + 32 * s[5] + 64 * s[6] + 128 * s[7]
XorAll(seq) == FoldLeft(XorByte, 0, seq)

NoItems == [raw |-> <<>>, conf |-> <<>>, info |-> <<>>, cmd |-> <<>>, aside |-> FALSE]

\* ---- LUBA -----------------------------------------------------------------------
LubaMaxPayload == 20
LubaKnown == {32, 33, 42, 43, 44, 45, 49, 50, 51, 52, 53, 54, 55}      \* 0x20 0x21 0x2A-0x2D 0x31-0x37

\* items of one checksum-valid frame of a known type; aside = malformed for its type (the driver reports those
\* by raising deliberately, the property sets such streams aside)
LubaFrameItems(cmd, p, out) ==
    LET L == Len(p) IN
    CASE cmd = 49 ->                                                     \* EVENT
           IF L < 4 THEN [out EXCEPT !.aside = TRUE]
           ELSE LET et == p[4] \div 64
                    ei == p[4] % 64
                IN IF et = 0 THEN
                       (IF L < 5 THEN [out EXCEPT !.aside = TRUE]
                        ELSE [out EXCEPT !.conf = Append(@, <<p[5], SubSeq(p, 6, L)>>)])
                   ELSE IF et = 2 THEN
                       (IF ei \notin 1..32 THEN out
                        ELSE IF L = 4 THEN out
                        ELSE IF L = 5 THEN [out EXCEPT !.raw = Append(@, p[5])]
                        ELSE [out EXCEPT !.cmd = Append(@, <<8 * (L - 4), SubSeq(p, 5, L)>>)])
                   ELSE out
      [] cmd = 51 -> IF L \in {1, 2} THEN out ELSE [out EXCEPT !.aside = TRUE]      \* ADD FRAME TO TX response
      [] cmd = 33 -> IF L # 20 THEN [out EXCEPT !.aside = TRUE]                      \* DEVICE INFO response
                     ELSE [out EXCEPT !.info = Append(@, <<"devinfo", SubSeq(p, 1, 6), SubSeq(p, 7, 14), p[15], p[16],
                                                            SubSeq(p, 17, 20)>>)]
      [] cmd = 43 -> IF L < 2 THEN [out EXCEPT !.aside = TRUE]                       \* SETTINGS response
                     ELSE [out EXCEPT !.info = Append(@, <<"settings", p[1], p[2]>>)]
      [] OTHER -> out

\* state: [st, cmd, len, buf, out]
LubaInit == [st |-> "start", cmd |-> 0, len |-> 0, buf |-> <<>>, out |-> NoItems]
LubaByte(s, b) ==
    CASE s.st = "start" -> IF b = 89 THEN [s EXCEPT !.st = "cmd"] ELSE s
      [] s.st = "cmd" -> [s EXCEPT !.st = "len", !.cmd = b]
      [] s.st = "len" -> IF b >= 1 /\ b <= LubaMaxPayload THEN [s EXCEPT !.st = "payload", !.len = b, !.buf = <<>>]
                         ELSE [s EXCEPT !.st = "start"]
      [] s.st = "payload" -> LET nb == Append(s.buf, b) IN
                             [s EXCEPT !.buf = nb, !.st = IF Len(nb) = s.len THEN "chk" ELSE "payload"]
      [] s.st = "chk" ->
           IF b # XorAll(<<s.cmd, s.len>> \o s.buf) \/ s.cmd \notin LubaKnown THEN [s EXCEPT !.st = "start"]
           ELSE [s EXCEPT !.st = "start", !.out = LubaFrameItems(s.cmd, s.buf, s.out)]
LubaRun(bytes) == FoldLeft(LubaByte, LubaInit, bytes).out

\* ---- SCI ------------------------------------------------------------------------
SciInit == [buf |-> <<>>, out |-> NoItems]
SciBlock(blk, out) ==
    LET code == blk[1] % 16
        id == blk[1] \div 16
    IN IF blk[5] # XorAll(SubSeq(blk, 1, 4)) THEN out
       ELSE CASE code \in {0, 1} -> [out EXCEPT !.info = Append(@, <<"status", id, code>>)]
              [] code = 7 -> IF blk[4] \in 1..5 THEN [out EXCEPT !.info = Append(@, <<"status", id, code>>)] ELSE out
              [] code = 2 -> [out EXCEPT !.raw = Append(@, blk[4])]
              [] code = 3 -> [out EXCEPT !.cmd = Append(@, <<16, <<blk[3], blk[4]>> >>)]
              [] code = 8 -> [out EXCEPT !.cmd = Append(@, <<24, <<blk[2], blk[3], blk[4]>> >>)]
              [] OTHER -> out
SciByte(s, b) ==
    LET nb == Append(s.buf, b) IN
    IF Len(nb) = 5 THEN [buf |-> <<>>, out |-> SciBlock(nb, s.out)] ELSE [s EXCEPT !.buf = nb]
SciRun(bytes) == FoldLeft(SciByte, SciInit, bytes).out
=============================================================================
