SPECIFICATION Spec
CONSTANT Configs <- ConfigsBytes
CONSTANT RandVals <- RandValsBytes
CONSTANT K = 1
CONSTANT SkipSame = "no"
CONSTANT defaultInitValue = 0
INVARIANT Export
CHECK_DEADLOCK FALSE
