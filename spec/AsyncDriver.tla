---------------------------- MODULE AsyncDriver ----------------------------
(* Implementation-shaped model of the asyncio HID driver (dali/driver/hid.py, *)
(* class hid + tridonic): callers using send() / run_sequence(), the          *)
(* transaction lock (asyncio.Lock: FIFO waiters, the woken waiter takes the   *)
(* lock when it runs), per-command sequence numbers with mailboxes filled by  *)
(* the reader callback, device loss / detection / reconnection, cancellation  *)
(* of a caller at any await.  One action per critical section between awaits. *)
(*                                                                            *)
(* The asyncio scheduler is abstracted to "any runnable step may happen       *)
(* next" -- a superset of CPython's FIFO ready queue -- so safety proved here *)
(* covers every real schedule.  Property-level specs checked on it:           *)
(* TxnAtomic (C15), AnswerPairing (C16), Recovery clauses (C17).              *)
EXTENDS Naturals, Integers, Sequences, FiniteSets, TLC

CONSTANTS Callers,        \* set of caller ids
          Unit,           \* caller -> Seq([dt : BOOLEAN, twice : BOOLEAN, query : BOOLEAN])
          Mode,           \* caller -> "send" | "sequence" | "power" (power_supply() requests: one write each, no report awaited)
          ExcOn,          \* caller -> BOOLEAN (exceptions on send; sequences always raise)
          Cancellable,    \* callers the environment may cancel
          MaxLoss,        \* how often the device may vanish
          MaxSeq,         \* sequence numbers 1..MaxSeq (255 in the code; small here so that wrap-around is reached)
          FixedCancel,    \* TRUE: a cancelled send frees its sequence number (commit 16e80ac); FALSE: the old code
          Limit,          \* reconnect limit, -1 = none
          PowerLocked     \* TRUE: power_supply() takes the transaction lock (the code); FALSE: it does not (seeded C15f)

VARIABLES pc,         \* caller -> "idle"|"lockwait"|"haslock"|"connwait"|"mailwait"|"cancelling"|"done"
          idx,        \* caller -> index of the command being sent
          sub,        \* caller -> "edt" | "cmd": which frame of the command is next / in flight
          seq,        \* caller -> sequence number in flight (0 = none)
          need,       \* caller -> echo reports still expected
          resp,       \* caller -> outcome received for the frame in flight ("" = none yet)
          results,    \* caller -> Seq of results of completed commands
          exc,        \* caller -> "none" | "CommunicationError" | "Cancelled"
          lockHeld, lockOwner, waiters, woken,
          cancelledW, \* lock waiters whose future has been cancelled but who have not run yet
          wire,       \* Seq(<<caller, command index, "edt"|"cmd">>)
          outstanding, mail, nextSeq,
          gw,         \* reports pending at the gateway: Seq([seq, kind])
          present, fdok, connected, losses, attempts, failed,
          hs,         \* INIT handshake: replies seen since the node was opened (version, then serial); 2 = the
                      \* 'connected' asyncio.Event is set
          assertFailed   \* the driver's "assert seq not in self._outstanding" was violated

vars == <<pc, idx, sub, seq, need, resp, results, exc, lockHeld, lockOwner, waiters, woken, cancelledW, wire, outstanding, mail,
          nextSeq, gw, present, fdok, connected, losses, attempts, failed, assertFailed, hs>>

ready == hs = 2
None == "none"
Cmd(c) == Unit[c][idx[c]]
Outcome(c, i) == <<c, i>>                        \* what the bus answers to c's i-th command (abstract, unique)

Init ==
    /\ pc = [c \in Callers |-> "idle"] /\ idx = [c \in Callers |-> 1] /\ sub = [c \in Callers |-> "cmd"]
    /\ seq = [c \in Callers |-> 0] /\ need = [c \in Callers |-> 0] /\ resp = [c \in Callers |-> ""]
    /\ results = [c \in Callers |-> <<>>] /\ exc = [c \in Callers |-> None]
    /\ lockHeld = FALSE /\ lockOwner = None /\ waiters = <<>> /\ woken = None /\ cancelledW = {}
    /\ wire = <<>> /\ outstanding = {} /\ mail = [s \in 1..MaxSeq |-> <<>>] /\ nextSeq = 1
    /\ gw = <<[seq |-> 0, kind |-> "info"]>> /\ present = TRUE /\ fdok = TRUE /\ connected = TRUE /\ losses = 0 /\ attempts = 0 /\ failed = FALSE
    /\ assertFailed = FALSE /\ hs = 0

\* ---- asyncio.Lock ------------------------------------------------------------------------
\* acquire(): fast path only when unlocked and nobody is queued
Acquire(c, thenpc) ==
    IF ~lockHeld /\ \A k \in 1..Len(waiters) : waiters[k] \in cancelledW
    THEN /\ lockHeld' = TRUE /\ lockOwner' = c /\ pc' = [pc EXCEPT ![c] = thenpc] /\ UNCHANGED <<waiters, woken, cancelledW>>
    ELSE /\ waiters' = Append(waiters, c) /\ pc' = [pc EXCEPT ![c] = "lockwait"] /\ UNCHANGED <<lockHeld, lockOwner, woken, cancelledW>>

\* release(): unlock and wake the first waiter (it takes the lock when it runs)
ReleaseVars ==
    /\ lockHeld' = FALSE /\ lockOwner' = None
    /\ woken' = IF waiters # <<>> /\ woken = None /\ Head(waiters) \notin cancelledW THEN Head(waiters) ELSE woken
    /\ UNCHANGED <<waiters, cancelledW>>

FirstFrame(c) == IF Unit[c][idx[c]].dt THEN "edt" ELSE "cmd"

\* ---- caller steps ---------------------------------------------------------------------------
Start(c) ==
    /\ pc[c] = "idle"
    /\ IF Mode[c] = "power" /\ ~PowerLocked
       THEN /\ pc' = [pc EXCEPT ![c] = "haslock"] /\ UNCHANGED <<lockHeld, lockOwner, waiters, woken, cancelledW>>
       ELSE Acquire(c, "haslock")
    /\ sub' = [sub EXCEPT ![c] = FirstFrame(c)]
    /\ UNCHANGED <<idx, seq, need, resp, results, exc, wire, outstanding, mail, nextSeq, gw, present, fdok, connected, hs, losses,
                   attempts, failed, assertFailed>>

Grant(c) ==
    /\ pc[c] = "lockwait" /\ woken = c /\ ~lockHeld
    /\ lockHeld' = TRUE /\ lockOwner' = c /\ woken' = None /\ UNCHANGED cancelledW
    /\ waiters' = SelectSeq(waiters, LAMBDA x : x # c)
    /\ pc' = [pc EXCEPT ![c] = "haslock"]
    /\ sub' = [sub EXCEPT ![c] = FirstFrame(c)]
    /\ UNCHANGED <<idx, seq, need, resp, results, exc, wire, outstanding, mail, nextSeq, gw, present, fdok, connected, hs, losses,
                   attempts, failed, assertFailed>>

\* the reports the gateway will produce for one transmitted frame
Reports(s, twice) == (IF twice THEN <<[seq |-> s, kind |-> "echo"], [seq |-> s, kind |-> "echo"]>>
                      ELSE <<[seq |-> s, kind |-> "echo"]>>) \o <<[seq |-> s, kind |-> "outcome"]>>

\* device has failed on write: disconnect(reconnect=True) -- everybody in flight is told "fail"
DisconnectVars ==
    /\ connected' = FALSE /\ hs' = 0
    /\ mail' = [s \in 1..MaxSeq |-> IF s \in outstanding THEN Append(mail[s], "fail") ELSE mail[s]]
    /\ outstanding' = {}

\* the caller ends with CommunicationError (exceptions on / sequence) or goes round the retry loop (exceptions off)
AfterCommError(c) ==
    IF ExcOn[c] \/ Mode[c] = "sequence"
    THEN /\ exc' = [exc EXCEPT ![c] = "CommunicationError"] /\ pc' = [pc EXCEPT ![c] = "done"]
         /\ ReleaseVars /\ UNCHANGED sub
    ELSE /\ pc' = [pc EXCEPT ![c] = "haslock"] /\ sub' = [sub EXCEPT ![c] = FirstFrame(c)]
         /\ UNCHANGED <<exc, lockHeld, lockOwner, waiters, woken, cancelledW>>

\* _send_raw up to its first await: wait for the connection, take a sequence number, write
SendStep(c) ==
    /\ pc[c] \in {"haslock", "connwait"}
    /\ IF ~ready                       \* await self.connected.wait()
       THEN /\ pc' = [pc EXCEPT ![c] = "connwait"]
            /\ UNCHANGED <<idx, sub, seq, need, resp, results, exc, lockHeld, lockOwner, waiters, woken, cancelledW, wire, outstanding,
                           mail, nextSeq, gw, present, fdok, connected, hs, losses, attempts, failed, assertFailed>>
       ELSE IF Mode[c] = "power"
       THEN \* _power_supply(): one packet, no sequence number, nothing awaited; power_supply() then releases the lock
            LET last == idx[c] = Len(Unit[c]) IN
            /\ fdok
            /\ wire' = Append(wire, <<c, idx[c], "cmd">>)
            /\ results' = [results EXCEPT ![c] = Append(@, None)]
            /\ idx' = [idx EXCEPT ![c] = IF last THEN @ ELSE @ + 1]
            /\ pc' = [pc EXCEPT ![c] = IF last THEN "done" ELSE "idle"]
            /\ IF PowerLocked THEN ReleaseVars ELSE UNCHANGED <<lockHeld, lockOwner, waiters, woken, cancelledW>>
            /\ UNCHANGED <<sub, seq, need, resp, exc, outstanding, mail, nextSeq, gw, present, fdok, connected, hs, losses, attempts,
                           failed, assertFailed>>
       ELSE LET s == nextSeq
                twice == sub[c] = "cmd" /\ Cmd(c).twice
            IN /\ nextSeq' = IF s = MaxSeq THEN 1 ELSE s + 1
               /\ assertFailed' = (assertFailed \/ s \in outstanding)
               /\ IF fdok
                  THEN /\ wire' = Append(wire, <<c, idx[c], sub[c]>>)
                       /\ gw' = gw \o Reports(s, twice)
                       /\ outstanding' = outstanding \cup {s}
                       /\ mail' = [mail EXCEPT ![s] = <<>>]
                       /\ seq' = [seq EXCEPT ![c] = s]
                       /\ need' = [need EXCEPT ![c] = IF twice THEN 2 ELSE 1]
                       /\ resp' = [resp EXCEPT ![c] = ""]
                       /\ pc' = [pc EXCEPT ![c] = "mailwait"]
                       /\ UNCHANGED <<idx, sub, results, exc, lockHeld, lockOwner, waiters, woken, cancelledW, present, fdok, connected, hs,
                                      losses, attempts, failed>>
                  ELSE \* os.write raises: disconnect, then CommunicationError
                       /\ DisconnectVars /\ AfterCommError(c)
                       /\ seq' = [seq EXCEPT ![c] = 0]
                       /\ UNCHANGED <<idx, need, resp, results, wire, gw, present, fdok, losses, attempts, failed>>

\* one message taken from the mailbox
MailStep(c) ==
    /\ pc[c] = "mailwait" /\ mail[seq[c]] # <<>>
    /\ LET m == Head(mail[seq[c]])
           rest == Tail(mail[seq[c]])
           n2 == IF m = "echo" THEN need[c] - 1 ELSE need[c]
           r2 == IF m = "outcome" THEN "got" ELSE resp[c]
           complete == n2 = 0 /\ r2 # ""
       IN IF m = "fail"
          THEN /\ AfterCommError(c)
               /\ mail' = [mail EXCEPT ![seq[c]] = rest]
               /\ seq' = [seq EXCEPT ![c] = 0]
               /\ UNCHANGED <<idx, need, resp, results, wire, outstanding, nextSeq, gw, present, fdok, connected, hs, losses,
                              attempts, failed, assertFailed>>
          ELSE IF ~complete
          THEN /\ mail' = [mail EXCEPT ![seq[c]] = rest] /\ need' = [need EXCEPT ![c] = n2]
               /\ resp' = [resp EXCEPT ![c] = r2]
               /\ UNCHANGED <<pc, idx, sub, seq, results, exc, lockHeld, lockOwner, waiters, woken, cancelledW, wire, outstanding,
                              nextSeq, gw, present, fdok, connected, hs, losses, attempts, failed, assertFailed>>
          ELSE \* frame complete: del self._outstanding[seq]
               /\ mail' = [mail EXCEPT ![seq[c]] = rest]
               /\ outstanding' = outstanding \ {seq[c]}
               /\ seq' = [seq EXCEPT ![c] = 0] /\ need' = [need EXCEPT ![c] = 0] /\ resp' = [resp EXCEPT ![c] = ""]
               /\ IF sub[c] = "edt"
                  THEN \* the command itself follows inside the same critical section
                       /\ sub' = [sub EXCEPT ![c] = "cmd"] /\ pc' = [pc EXCEPT ![c] = "haslock"]
                       /\ UNCHANGED <<idx, results, exc, lockHeld, lockOwner, waiters, woken, cancelledW>>
                  ELSE LET res == IF Cmd(c).query THEN Outcome(c, idx[c]) ELSE None
                           last == idx[c] = Len(Unit[c])
                       IN /\ results' = [results EXCEPT ![c] = Append(@, res)]
                          /\ idx' = [idx EXCEPT ![c] = IF last THEN @ ELSE @ + 1]
                          /\ IF Mode[c] = "send"
                             THEN \* send() releases the lock after every command and takes it again for the next one
                                  /\ ReleaseVars
                                  /\ pc' = [pc EXCEPT ![c] = IF last THEN "done" ELSE "idle"]
                                  /\ UNCHANGED <<sub, exc>>
                             ELSE IF last
                                  THEN /\ ReleaseVars /\ pc' = [pc EXCEPT ![c] = "done"] /\ UNCHANGED <<sub, exc>>
                                  ELSE /\ pc' = [pc EXCEPT ![c] = "haslock"]
                                       /\ sub' = [sub EXCEPT ![c] = IF Unit[c][idx[c] + 1].dt THEN "edt" ELSE "cmd"]
                                       /\ UNCHANGED <<exc, lockHeld, lockOwner, waiters, woken, cancelledW>>
               /\ UNCHANGED <<wire, nextSeq, gw, present, fdok, connected, hs, losses, attempts, failed, assertFailed>>

\* task.cancel() is two steps, as in asyncio: the *request* cancels the future the task is suspended on (a lock
\* waiter whose future is cancelled stays in the queue, is skipped by the fast path of acquire() and -- being first --
\* swallows the wake-up of release()); the task *runs* later, sees CancelledError at its await and unwinds.
CancelReq(c) ==
    /\ c \in Cancellable /\ pc[c] \in {"lockwait", "connwait", "mailwait"}
    /\ pc' = [pc EXCEPT ![c] = "cancelling"]
    /\ cancelledW' = IF pc[c] = "lockwait" /\ woken # c THEN cancelledW \cup {c} ELSE cancelledW
    /\ UNCHANGED <<idx, sub, seq, need, resp, results, exc, lockHeld, lockOwner, waiters, woken, wire, outstanding, mail,
                   nextSeq, gw, present, fdok, connected, hs, losses, attempts, failed, assertFailed>>

InQueue(c) == \E k \in 1..Len(waiters) : waiters[k] = c

CancelRun(c) ==
    /\ pc[c] = "cancelling"
    /\ exc' = [exc EXCEPT ![c] = "Cancelled"] /\ pc' = [pc EXCEPT ![c] = "done"]
    /\ IF InQueue(c)
       THEN \* Lock.acquire: finally waiters.remove(fut); except CancelledError: if not locked: wake_up_first()
            LET rest == SelectSeq(waiters, LAMBDA x : x # c)
                w0 == IF woken = c THEN None ELSE woken
            IN /\ waiters' = rest /\ cancelledW' = cancelledW \ {c}
               /\ woken' = IF ~lockHeld /\ rest # <<>> /\ w0 = None /\ Head(rest) \notin cancelledW THEN Head(rest) ELSE w0
               /\ UNCHANGED <<lockHeld, lockOwner, outstanding>>
       ELSE \* inside the critical section: _send_raw frees the sequence number, send()'s finally releases the lock
            /\ ReleaseVars /\ UNCHANGED cancelledW
            /\ outstanding' = IF FixedCancel /\ seq[c] # 0 THEN outstanding \ {seq[c]} ELSE outstanding
    /\ UNCHANGED <<idx, sub, seq, need, resp, results, wire, mail, nextSeq, gw, present, fdok, connected, hs, losses, attempts,
                   failed, assertFailed>>

\* ---- reader callback and environment ------------------------------------------------------
Deliver ==
    /\ gw # <<>> /\ connected          \* reports already in the kernel's buffer stay readable after the device went
    /\ LET r == Head(gw) IN
       /\ mail' = IF r.seq \in outstanding THEN [mail EXCEPT ![r.seq] = Append(@, r.kind)] ELSE mail
       \* INIT replies: the first makes the driver ask for the serial number, the second sets 'connected'
       /\ hs' = IF r.kind = "info" /\ hs < 2 THEN hs + 1 ELSE hs
       /\ gw' = IF r.kind = "info" /\ hs = 0 /\ fdok THEN Append(Tail(gw), [seq |-> 0, kind |-> "info"]) ELSE Tail(gw)
    /\ UNCHANGED <<pc, idx, sub, seq, need, resp, results, exc, lockHeld, lockOwner, waiters, woken, cancelledW, wire, outstanding,
                   nextSeq, present, fdok, connected, losses, attempts, failed, assertFailed>>

Lose ==
    /\ present /\ losses < MaxLoss
    \* what the gateway had not yet reported is gone; what the kernel already buffered is still delivered
    \* (the device may also vanish while the driver has no open node: then only its presence changes)
    /\ present' = FALSE /\ fdok' = FALSE /\ losses' = losses + 1
    /\ \E k \in 0..Len(gw) : gw' = SubSeq(gw, 1, k)
    /\ UNCHANGED <<pc, idx, sub, seq, need, resp, results, exc, lockHeld, lockOwner, waiters, woken, cancelledW, wire, outstanding,
                   mail, nextSeq, connected, hs, attempts, failed, assertFailed>>

\* the reader sees EOF / a read error
Detect ==
    /\ ~fdok /\ connected /\ gw = <<>>
    /\ DisconnectVars /\ attempts' = 0
    /\ UNCHANGED <<pc, idx, sub, seq, need, resp, results, exc, lockHeld, lockOwner, waiters, woken, cancelledW, wire, nextSeq, gw,
                   present, fdok, losses, failed, assertFailed>>

Return ==
    /\ ~present /\ present' = TRUE
    /\ UNCHANGED <<pc, idx, sub, seq, need, resp, results, exc, lockHeld, lockOwner, waiters, woken, cancelledW, wire, outstanding,
                   mail, nextSeq, gw, fdok, connected, hs, losses, attempts, failed, assertFailed>>

\* one reconnect attempt (after the configured interval)
Reconnect ==
    /\ ~connected /\ ~failed
    /\ IF Limit >= 0 /\ attempts + 1 > Limit
       THEN failed' = TRUE /\ UNCHANGED <<connected, attempts, fdok, gw>>
       ELSE IF present THEN /\ connected' = TRUE /\ fdok' = TRUE /\ attempts' = 0 /\ UNCHANGED failed
                            /\ gw' = <<[seq |-> 0, kind |-> "info"]>>    \* fresh fd: INIT is written, its reply is pending
            ELSE attempts' = (IF Limit >= 0 THEN attempts + 1 ELSE attempts) /\ UNCHANGED <<connected, failed, fdok, gw>>
    /\ UNCHANGED hs
    /\ UNCHANGED <<pc, idx, sub, seq, need, resp, results, exc, lockHeld, lockOwner, waiters, woken, cancelledW, wire, outstanding,
                   mail, nextSeq, present, losses, assertFailed>>

Next == \/ \E c \in Callers : Start(c) \/ Grant(c) \/ SendStep(c) \/ MailStep(c) \/ CancelReq(c) \/ CancelRun(c)
        \/ Deliver \/ Lose \/ Detect \/ Return \/ Reconnect

Fairness == /\ \A c \in Callers : WF_vars(Start(c)) /\ WF_vars(Grant(c)) /\ WF_vars(SendStep(c)) /\ WF_vars(MailStep(c)) /\ WF_vars(CancelRun(c))
            /\ WF_vars(Deliver) /\ WF_vars(Detect) /\ WF_vars(Return) /\ WF_vars(Reconnect)

Spec == Init /\ [][Next]_vars /\ Fairness

\* ---- properties -------------------------------------------------------------------------------
AllDone == \A c \in Callers : pc[c] = "done"

TypeOK == /\ \A c \in Callers : pc[c] \in {"idle", "lockwait", "haslock", "connwait", "mailwait", "cancelling", "done"}
          /\ cancelledW \subseteq Callers
          /\ lockHeld => lockOwner \in Callers
          /\ outstanding \subseteq 1..MaxSeq

\* implementation-level: only the lock owner writes
WriteByOwner == \A c \in Callers : pc[c] = "mailwait" => lockOwner = c

\* C15 TxnAtomic on the wire so far: the entries of one unit are adjacent
Pos(c) == SelectSeq([k \in 1..Len(wire) |-> k], LAMBDA k : wire[k][1] = c)
PrefixAdjacent ==   \* every command frame that needed a device type is immediately preceded by its own prefix
    \A k \in 1..Len(wire) :
        (wire[k][3] = "cmd" /\ Unit[wire[k][1]][wire[k][2]].dt) =>
            k > 1 /\ wire[k - 1] = <<wire[k][1], wire[k][2], "edt">>
SequenceContiguous ==   \* all frames of a running sequence are contiguous (while it neither failed nor was retried)
    \A c \in Callers : (Mode[c] = "sequence" /\ exc[c] = None) =>
        LET p == Pos(c) IN \A j \in 1..(Len(p) - 1) : p[j + 1] = p[j] + 1
TxnAtomic == PrefixAdjacent /\ SequenceContiguous

\* C16 AnswerPairing: a completed command carries the answer to that command
AnswerPairing == \A c \in Callers : \A k \in 1..Len(results[c]) :
    results[c][k] = (IF Unit[c][k].query THEN Outcome(c, k) ELSE None)

\* C15/C17: at the end the lock is free and nothing is left in flight (when cancellation frees its slot)
CleanEnd == AllDone => /\ ~lockHeld /\ waiters = <<>>
                       /\ (FixedCancel => outstanding = {})
NoAssertion == ~assertFailed
\* C17: in-flight sends end in CommunicationError only when exceptions are on (or in a sequence)
ErrorsOnlyWhenAsked == \A c \in Callers : exc[c] = "CommunicationError" => (ExcOn[c] \/ Mode[c] = "sequence")
FailedOnlyAtLimit == failed => Limit >= 0

\* liveness: everybody completes (the device returns, reconnection is not limited)
EventuallyAllDone == <>AllDone
=============================================================================
