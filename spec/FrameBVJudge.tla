---------------------------- MODULE FrameBVJudge ----------------------------
(* Judges what the real dali.frame.Frame did (recorded by harness/c05.py)   *)
(* against FrameBV!Sem.  One TLC state per record of the shard file named   *)
(* by the environment variable SHARD.                                       *)
EXTENDS FrameBV, Json, IOUtils

Recs == ndJsonDeserialize(IOEnv.SHARD)

VARIABLE i
Init == i \in 1..Len(Recs)
Next == UNCHANGED i
Spec == Init /\ [][Next]_i

IntVal(n) == [t |-> "int", neg |-> n < 0, b |-> IF n < 0 THEN <<1>> ELSE Trim(BitsOfInt(n, 12)),
              bytes |-> <<>>, truth |-> n # 0]
NoVal == [t |-> "none", neg |-> FALSE, b |-> <<>>, bytes |-> <<>>, truth |-> FALSE]
Ev(op, a, b, step, val) ==
    [op |-> op, f |-> 1, g |-> 0, dst |-> 0, ak |-> "int", a |-> a, bk |-> "int", b |-> b,
     step |-> step, val |-> val]

ExcCode(c) == CASE c = -1 -> "IndexError" [] c = -2 -> "ValueError" [] c = -3 -> "TypeError"
                [] c = -4 -> "OverflowError" [] OTHER -> "other"

\* a table cell: code >= 0 is the integer result / resulting frame value,
\* code < 0 an exception class
WriteCellOK(w, v, e, code) ==
    LET s == Sem(<<Frame(w, BitsOfInt(v, w))>>, e) IN
    IF s.exc # {} THEN code < 0 /\ ExcCode(code) \in s.exc
    ELSE code >= 0 /\ BitsOfInt(code, w) = s.post[1].b /\ code < Pow2(w)

ReadCellOK(w, v, e, code) ==
    LET s == Sem(<<Frame(w, BitsOfInt(v, w))>>, e) IN
    IF s.exc # {} THEN code < 0 /\ ExcCode(code) \in s.exc
    ELSE code >= 0 /\ (IF s.res.rt = "bool" THEN (code = 1) = s.res.flag
                       ELSE Trim(BitsOfInt(code, 12)) = s.res.bits)

RowVerdict(r) ==
    CASE r.kind = "slice" ->
           IF ~ReadCellOK(r.w, r.v, Ev("getslice", r.a, r.b, r.step, NoVal), r.get)
           THEN [ok |-> FALSE, clause |-> "getslice", at |-> 0]
           ELSE LET bad == {k \in 1..Len(r.cells) :
                              ~WriteCellOK(r.w, r.v, Ev("setslice", r.a, r.b, r.step, IntVal(r.vlo + k - 1)), r.cells[k])}
                IN IF bad = {} THEN [ok |-> TRUE, clause |-> "", at |-> 0]
                   ELSE [ok |-> FALSE, clause |-> "setslice", at |-> r.vlo + (CHOOSE k \in bad : TRUE) - 1]
      [] r.kind = "bit" ->
           IF ~ReadCellOK(r.w, r.v, Ev("getbit", r.a, 0, 0, NoVal), r.get)
           THEN [ok |-> FALSE, clause |-> "getbit", at |-> 0]
           ELSE IF ~WriteCellOK(r.w, r.v, Ev("setbit", r.a, 0, 0, IntVal(0)), r.set0)
           THEN [ok |-> FALSE, clause |-> "setbit", at |-> 0]
           ELSE IF ~WriteCellOK(r.w, r.v, Ev("setbit", r.a, 0, 0, IntVal(1)), r.set1)
           THEN [ok |-> FALSE, clause |-> "setbit", at |-> 1]
           ELSE [ok |-> TRUE, clause |-> "", at |-> 0]
      [] r.kind = "hist" ->
           LET v == FoldHistory(r.pool0, r.ev, 1) IN
           [ok |-> v.at = 0, clause |-> v.clause, at |-> v.at]

Judge == LET r == Recs[i]
             v == RowVerdict(r)
         IN IF v.ok THEN TRUE ELSE PrintT(<<"REJECT", r.id, v.clause, v.at>>)
=============================================================================
