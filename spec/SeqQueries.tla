----------------------------- MODULE SeqQueries -----------------------------
(* Implementation-shaped model of dali.sequences.QueryDeviceTypes,            *)
(* QueryGroups and SetGroups (one label per yield) composed with the Gear102  *)
(* bus model: TLC checks, for every small unit, that the sequences return /   *)
(* establish exactly the unit's state, and against every adversarial answer   *)
(* stream up to length L that QueryDeviceTypes ends as the property demands.  *)
EXTENDS Gear102, QueryClauses

CONSTANTS DTUniverse,      \* device types a unit may have
          GroupUniverse,   \* groups used
          L                \* length of adversarial streams

RowOf(tbl, nm) == tbl[CHOOSE i \in 1..Len(tbl) : tbl[i][2] = nm]
Std(nm, dest, p) == EncGearStd(RowOf(Gear102, nm), dest, p)

Asc(s) == \A j \in 1..(Len(s) - 1) : s[j] < s[j + 1]
DTLists == {s \in UNION {[1..n -> DTUniverse] : n \in 0..3} : Asc(s)}

Unit(dts, groups, short) == [short |-> short, rand |-> 0, init |-> "DISABLED", storeOK |-> TRUE, stuckdel |-> FALSE,
                             groups |-> groups, dts |-> dts, dtpos |-> 0]

Dests == {<<"gshort", 3>>, <<"ggroup", 1>>, <<"gbcast", 0>>}
Alphabet1 == {<<"none", 0>>, <<"err", 0>>, <<"err", 254>>, <<"val", 0>>, <<"val", 1>>, <<"val", 6>>, <<"val", 254>>, <<"val", 255>>}
AlphabetN == {<<"none", 0>>, <<"err", 0>>, <<"err", 254>>, <<"val", 0>>, <<"val", 1>>, <<"val", 6>>, <<"val", 253>>, <<"val", 254>>}

(* --algorithm Queries {
  variables
    mode = "qdt",
    dts = <<>>,
    g1 = {},                               \* groups of the unit under test (short address 3)
    g2 = {},                               \* groups of a bystander (short address 9)
    want = {},
    dest = <<"gshort", 3>>,
    stream = <<>>,                         \* adversarial stream, grown nondeterministically
    bus = [gear |-> <<>>, search |-> 0, dtr0 |-> 0],
    resp = <<"none", 0>>, result = <<>>, last = -1, outcome = "running", count = 0,
    existing = {}, lo = 0, todo = <<>>, pos = 1;

  macro Yield(f) {
      if (mode = "adv") {
          resp := IF pos <= Len(stream) THEN stream[pos] ELSE stream[Len(stream)];
          pos := pos + 1;
      } else {
          with (s = Step(bus, f, <<0, 0>>)) { bus := s.bus; resp := s.resp; };
      };
      count := count + 1;
  }

  procedure query_groups()
  {
    qg1: Yield(Std("QueryGroupsZeroToSeven", <<"gshort", 3>>, 0));
         if (resp[1] # "val") { outcome := "DALISequenceError"; goto Done; } else { lo := resp[2] };
    qg2: Yield(Std("QueryGroupsEightToFifteen", <<"gshort", 3>>, 0));
         if (resp[1] # "val") { outcome := "DALISequenceError"; goto Done; }
         else { existing := {g \in 0..7 : BitOfInt(lo, g) = 1} \cup {g + 8 : g \in {x \in 0..7 : BitOfInt(resp[2], x) = 1}} };
    qg3: return;
  }

  {
    pick: either { mode := "qdt"; with (d \in DTLists) { dts := d } }
          or { mode := "qg"; with (x \in SUBSET GroupUniverse) { g1 := x } }
          or { mode := "sg";
               with (x \in SUBSET GroupUniverse, y \in SUBSET GroupUniverse, w \in SUBSET GroupUniverse, d \in Dests) {
                   g1 := x; g2 := y; want := w; dest := d } }
          or { mode := "adv"; with (a \in Alphabet1) { stream := <<a>> } };
    s0: bus := [gear |-> <<Unit(dts, g1, 3), Unit(<<>>, g2, 9)>>, search |-> 0, dtr0 |-> 0];
        if (mode = "adv") {
            \* grow the adversarial stream first (every stream of length <= L)
    grow:   while (Len(stream) < L) {
                either { with (a \in AlphabetN) { stream := Append(stream, a) } } or { goto s1 };
            };
        };
    s1: if (mode \in {"qdt", "adv"}) {
            Yield(Std("QueryDeviceType", <<"gshort", 3>>, 0));
            if (resp[1] # "val") { outcome := "DALISequenceError"; goto Done; }
            else if (resp[2] < 254) { result := <<resp[2]>>; outcome := "ret"; goto Done; }
            else if (resp[2] = 254) { outcome := "ret"; goto Done; };
    s2:     while (TRUE) {
                Yield(Std("QueryNextDeviceType", <<"gshort", 3>>, 0));
                if (resp[1] # "val") { outcome := "DALISequenceError"; goto Done; }
                else if (resp[2] = 254) {
                    outcome := IF result = <<>> THEN "DALISequenceError" ELSE "ret"; goto Done;
                } else if (resp[2] <= last) { outcome := "DALISequenceError"; goto Done; }
                else { result := Append(result, resp[2]); last := resp[2]; };
            }
        } else if (mode = "qg") {
            call query_groups();
    s3:     outcome := "ret";
        } else {
            \* SetGroups(dest, want)
            if (dest[1] = "gshort") {
                call query_groups();
    s4:         todo := SetToSeq({<<"add", g>> : g \in want \ existing} \cup {<<"rem", g>> : g \in existing \ want});
            } else {
                \* every group is written; through a group address that group comes last (a unit removed from
                \* it would not receive the rest)
                todo := LET own == IF dest[1] = "ggroup" THEN dest[2] ELSE 16
                            order == SelectSeq([g \in 1..16 |-> g - 1], LAMBDA g : g # own)
                                     \o (IF own < 16 THEN <<own>> ELSE <<>>)
                        IN [j \in 1..16 |-> IF order[j] \in want THEN <<"add", order[j]>> ELSE <<"rem", order[j]>>];
            };
    s5:     while (todo # <<>>) {
                Yield(Std(IF Head(todo)[1] = "add" THEN "AddToGroup" ELSE "RemoveFromGroup", dest, Head(todo)[2]));
                todo := Tail(todo);
            };
            outcome := "ret";
        }
  }
} *)
\* BEGIN TRANSLATION
VARIABLES pc, mode, dts, g1, g2, want, dest, stream, bus, resp, result, last, 
          outcome, count, existing, lo, todo, pos, stack

vars == << pc, mode, dts, g1, g2, want, dest, stream, bus, resp, result, last, 
           outcome, count, existing, lo, todo, pos, stack >>

Init == (* Global variables *)
        /\ mode = "qdt"
        /\ dts = <<>>
        /\ g1 = {}
        /\ g2 = {}
        /\ want = {}
        /\ dest = <<"gshort", 3>>
        /\ stream = <<>>
        /\ bus = [gear |-> <<>>, search |-> 0, dtr0 |-> 0]
        /\ resp = <<"none", 0>>
        /\ result = <<>>
        /\ last = -1
        /\ outcome = "running"
        /\ count = 0
        /\ existing = {}
        /\ lo = 0
        /\ todo = <<>>
        /\ pos = 1
        /\ stack = << >>
        /\ pc = "pick"

qg1 == /\ pc = "qg1"
       /\ IF mode = "adv"
             THEN /\ resp' = (IF pos <= Len(stream) THEN stream[pos] ELSE stream[Len(stream)])
                  /\ pos' = pos + 1
                  /\ bus' = bus
             ELSE /\ LET s == Step(bus, (Std("QueryGroupsZeroToSeven", <<"gshort", 3>>, 0)), <<0, 0>>) IN
                       /\ bus' = s.bus
                       /\ resp' = s.resp
                  /\ pos' = pos
       /\ count' = count + 1
       /\ IF resp'[1] # "val"
             THEN /\ outcome' = "DALISequenceError"
                  /\ pc' = "Done"
                  /\ lo' = lo
             ELSE /\ lo' = resp'[2]
                  /\ pc' = "qg2"
                  /\ UNCHANGED outcome
       /\ UNCHANGED << mode, dts, g1, g2, want, dest, stream, result, last, 
                       existing, todo, stack >>

qg2 == /\ pc = "qg2"
       /\ IF mode = "adv"
             THEN /\ resp' = (IF pos <= Len(stream) THEN stream[pos] ELSE stream[Len(stream)])
                  /\ pos' = pos + 1
                  /\ bus' = bus
             ELSE /\ LET s == Step(bus, (Std("QueryGroupsEightToFifteen", <<"gshort", 3>>, 0)), <<0, 0>>) IN
                       /\ bus' = s.bus
                       /\ resp' = s.resp
                  /\ pos' = pos
       /\ count' = count + 1
       /\ IF resp'[1] # "val"
             THEN /\ outcome' = "DALISequenceError"
                  /\ pc' = "Done"
                  /\ UNCHANGED existing
             ELSE /\ existing' = ({g \in 0..7 : BitOfInt(lo, g) = 1} \cup {g + 8 : g \in {x \in 0..7 : BitOfInt(resp'[2], x) = 1}})
                  /\ pc' = "qg3"
                  /\ UNCHANGED outcome
       /\ UNCHANGED << mode, dts, g1, g2, want, dest, stream, result, last, lo, 
                       todo, stack >>

qg3 == /\ pc = "qg3"
       /\ pc' = Head(stack).pc
       /\ stack' = Tail(stack)
       /\ UNCHANGED << mode, dts, g1, g2, want, dest, stream, bus, resp, 
                       result, last, outcome, count, existing, lo, todo, pos >>

query_groups == qg1 \/ qg2 \/ qg3

pick == /\ pc = "pick"
        /\ \/ /\ mode' = "qdt"
              /\ \E d \in DTLists:
                   dts' = d
              /\ UNCHANGED <<g1, g2, want, dest, stream>>
           \/ /\ mode' = "qg"
              /\ \E x \in SUBSET GroupUniverse:
                   g1' = x
              /\ UNCHANGED <<dts, g2, want, dest, stream>>
           \/ /\ mode' = "sg"
              /\ \E x \in SUBSET GroupUniverse:
                   \E y \in SUBSET GroupUniverse:
                     \E w \in SUBSET GroupUniverse:
                       \E d \in Dests:
                         /\ g1' = x
                         /\ g2' = y
                         /\ want' = w
                         /\ dest' = d
              /\ UNCHANGED <<dts, stream>>
           \/ /\ mode' = "adv"
              /\ \E a \in Alphabet1:
                   stream' = <<a>>
              /\ UNCHANGED <<dts, g1, g2, want, dest>>
        /\ pc' = "s0"
        /\ UNCHANGED << bus, resp, result, last, outcome, count, existing, lo, 
                        todo, pos, stack >>

s0 == /\ pc = "s0"
      /\ bus' = [gear |-> <<Unit(dts, g1, 3), Unit(<<>>, g2, 9)>>, search |-> 0, dtr0 |-> 0]
      /\ IF mode = "adv"
            THEN /\ pc' = "grow"
            ELSE /\ pc' = "s1"
      /\ UNCHANGED << mode, dts, g1, g2, want, dest, stream, resp, result, 
                      last, outcome, count, existing, lo, todo, pos, stack >>

grow == /\ pc = "grow"
        /\ IF Len(stream) < L
              THEN /\ \/ /\ \E a \in AlphabetN:
                              stream' = Append(stream, a)
                         /\ pc' = "grow"
                      \/ /\ pc' = "s1"
                         /\ UNCHANGED stream
              ELSE /\ pc' = "s1"
                   /\ UNCHANGED stream
        /\ UNCHANGED << mode, dts, g1, g2, want, dest, bus, resp, result, last, 
                        outcome, count, existing, lo, todo, pos, stack >>

s1 == /\ pc = "s1"
      /\ IF mode \in {"qdt", "adv"}
            THEN /\ IF mode = "adv"
                       THEN /\ resp' = (IF pos <= Len(stream) THEN stream[pos] ELSE stream[Len(stream)])
                            /\ pos' = pos + 1
                            /\ bus' = bus
                       ELSE /\ LET s == Step(bus, (Std("QueryDeviceType", <<"gshort", 3>>, 0)), <<0, 0>>) IN
                                 /\ bus' = s.bus
                                 /\ resp' = s.resp
                            /\ pos' = pos
                 /\ count' = count + 1
                 /\ IF resp'[1] # "val"
                       THEN /\ outcome' = "DALISequenceError"
                            /\ pc' = "Done"
                            /\ UNCHANGED result
                       ELSE /\ IF resp'[2] < 254
                                  THEN /\ result' = <<resp'[2]>>
                                       /\ outcome' = "ret"
                                       /\ pc' = "Done"
                                  ELSE /\ IF resp'[2] = 254
                                             THEN /\ outcome' = "ret"
                                                  /\ pc' = "Done"
                                             ELSE /\ pc' = "s2"
                                                  /\ UNCHANGED outcome
                                       /\ UNCHANGED result
                 /\ UNCHANGED << todo, stack >>
            ELSE /\ IF mode = "qg"
                       THEN /\ stack' = << [ procedure |->  "query_groups",
                                             pc        |->  "s3" ] >>
                                         \o stack
                            /\ pc' = "qg1"
                            /\ todo' = todo
                       ELSE /\ IF dest[1] = "gshort"
                                  THEN /\ stack' = << [ procedure |->  "query_groups",
                                                        pc        |->  "s4" ] >>
                                                    \o stack
                                       /\ pc' = "qg1"
                                       /\ todo' = todo
                                  ELSE /\ todo' = (LET own == IF dest[1] = "ggroup" THEN dest[2] ELSE 16
                                                       order == SelectSeq([g \in 1..16 |-> g - 1], LAMBDA g : g # own)
                                                                \o (IF own < 16 THEN <<own>> ELSE <<>>)
                                                   IN [j \in 1..16 |-> IF order[j] \in want THEN <<"add", order[j]>> ELSE <<"rem", order[j]>>])
                                       /\ pc' = "s5"
                                       /\ stack' = stack
                 /\ UNCHANGED << bus, resp, result, outcome, count, pos >>
      /\ UNCHANGED << mode, dts, g1, g2, want, dest, stream, last, existing, 
                      lo >>

s2 == /\ pc = "s2"
      /\ IF mode = "adv"
            THEN /\ resp' = (IF pos <= Len(stream) THEN stream[pos] ELSE stream[Len(stream)])
                 /\ pos' = pos + 1
                 /\ bus' = bus
            ELSE /\ LET s == Step(bus, (Std("QueryNextDeviceType", <<"gshort", 3>>, 0)), <<0, 0>>) IN
                      /\ bus' = s.bus
                      /\ resp' = s.resp
                 /\ pos' = pos
      /\ count' = count + 1
      /\ IF resp'[1] # "val"
            THEN /\ outcome' = "DALISequenceError"
                 /\ pc' = "Done"
                 /\ UNCHANGED << result, last >>
            ELSE /\ IF resp'[2] = 254
                       THEN /\ outcome' = (IF result = <<>> THEN "DALISequenceError" ELSE "ret")
                            /\ pc' = "Done"
                            /\ UNCHANGED << result, last >>
                       ELSE /\ IF resp'[2] <= last
                                  THEN /\ outcome' = "DALISequenceError"
                                       /\ pc' = "Done"
                                       /\ UNCHANGED << result, last >>
                                  ELSE /\ result' = Append(result, resp'[2])
                                       /\ last' = resp'[2]
                                       /\ pc' = "s2"
                                       /\ UNCHANGED outcome
      /\ UNCHANGED << mode, dts, g1, g2, want, dest, stream, existing, lo, 
                      todo, stack >>

s3 == /\ pc = "s3"
      /\ outcome' = "ret"
      /\ pc' = "Done"
      /\ UNCHANGED << mode, dts, g1, g2, want, dest, stream, bus, resp, result, 
                      last, count, existing, lo, todo, pos, stack >>

s5 == /\ pc = "s5"
      /\ IF todo # <<>>
            THEN /\ IF mode = "adv"
                       THEN /\ resp' = (IF pos <= Len(stream) THEN stream[pos] ELSE stream[Len(stream)])
                            /\ pos' = pos + 1
                            /\ bus' = bus
                       ELSE /\ LET s == Step(bus, (Std(IF Head(todo)[1] = "add" THEN "AddToGroup" ELSE "RemoveFromGroup", dest, Head(todo)[2])), <<0, 0>>) IN
                                 /\ bus' = s.bus
                                 /\ resp' = s.resp
                            /\ pos' = pos
                 /\ count' = count + 1
                 /\ todo' = Tail(todo)
                 /\ pc' = "s5"
                 /\ UNCHANGED outcome
            ELSE /\ outcome' = "ret"
                 /\ pc' = "Done"
                 /\ UNCHANGED << bus, resp, count, todo, pos >>
      /\ UNCHANGED << mode, dts, g1, g2, want, dest, stream, result, last, 
                      existing, lo, stack >>

s4 == /\ pc = "s4"
      /\ todo' = SetToSeq({<<"add", g>> : g \in want \ existing} \cup {<<"rem", g>> : g \in existing \ want})
      /\ pc' = "s5"
      /\ UNCHANGED << mode, dts, g1, g2, want, dest, stream, bus, resp, result, 
                      last, outcome, count, existing, lo, pos, stack >>

(* Allow infinite stuttering to prevent deadlock on termination. *)
Terminating == pc = "Done" /\ UNCHANGED vars

Next == query_groups \/ pick \/ s0 \/ grow \/ s1 \/ s2 \/ s3 \/ s5 \/ s4
           \/ Terminating

Spec == Init /\ [][Next]_vars

Termination == <>(pc = "Done")

\* END TRANSLATION

AtEnd == pc = "Done"
G(k) == bus.gear[k].groups
Addressed(k) == AddressedBy([bus.gear[k] EXCEPT !.groups = IF k = 1 THEN g1 ELSE g2], dest)

QDTExact == AtEnd /\ mode = "qdt" => outcome = "ret" /\ result = dts
QGExact == AtEnd /\ mode = "qg" => outcome = "ret" /\ existing = g1
SGExact == AtEnd /\ mode = "sg" =>
    /\ outcome = "ret"
    /\ \A k \in 1..2 : IF Addressed(k) THEN G(k) = want ELSE G(k) = (IF k = 1 THEN g1 ELSE g2)
    /\ dest[1] = "gshort" => count = 2 + Cardinality((want \ g1) \cup (g1 \ want))

\* adversary: the outcome demanded by QueryClauses (the same operator the trace judge uses)
Bounded == count <= AdvBound
AdvOutcome == AtEnd /\ mode = "adv" =>
    QDTOutcomeOK(stream, IF outcome = "ret" THEN "none" ELSE outcome, result)
=============================================================================
