----------------------------- MODULE AsyncTrace -----------------------------
(* Trace validation: is an execution recorded from the real Tridonic driver   *)
(* (harness/asynctrace.py: lock acquire/release through a logging asyncio.Lock,*)
(* writes and reads on the fake hidraw node, cancellations, device loss /      *)
(* return, status callbacks, caller completion) a behaviour of AsyncDriver?    *)
(* Every logged event must be matched by the corresponding action; the         *)
(* driver's internal steps that are not logged (taking a report out of a       *)
(* mailbox, waiting for the connection) are silent steps.                      *)
EXTENDS AsyncDriver, Json, IOUtils

Scn == JsonDeserialize(IOEnv.TRACE)
Trace == Scn.events

TrCallers == {Scn.callers[k].name : k \in 1..Len(Scn.callers)}
CallerRec(c) == Scn.callers[CHOOSE k \in 1..Len(Scn.callers) : Scn.callers[k].name = c]
TrUnit == [c \in TrCallers |-> [k \in 1..Len(CallerRec(c).unit) |->
             [dt |-> CallerRec(c).unit[k].dt # 0, twice |-> CallerRec(c).unit[k].twice = 1, query |-> CallerRec(c).unit[k].query = 1]]]
TrMode == [c \in TrCallers |-> CallerRec(c).mode]
TrExc == [c \in TrCallers |-> CallerRec(c).exceptions = 1]
TrCancellable == TrCallers
TrLimit == Scn.limit

VARIABLE l
tvars == <<vars, l>>

TraceInit == Init /\ l = 1

Ev == Trace[l]
Is(k) == l <= Len(Trace) /\ Ev.ev = k
Adv == l' = l + 1

TraceNext ==
    \/ Is("acq_call") /\ Start(Ev.c) /\ Adv
    \/ Is("acq_got") /\ Grant(Ev.c) /\ Adv
    \/ Is("write") /\ SendStep(Ev.c) /\ Len(wire') = Len(wire) + 1 /\ wire'[Len(wire')][3] = Ev.kind /\ Adv
    \/ Is("write_failed") /\ SendStep(Ev.c) /\ ~fdok /\ ready /\ Adv
    \/ Is("deliver") /\ Deliver /\ Head(gw).kind # "info" /\ Adv
    \/ Is("deliver_info") /\ Deliver /\ Head(gw).kind = "info" /\ Adv
    \/ Is("cancel_req") /\ CancelReq(Ev.c) /\ Adv
    \/ Is("cancel") /\ CancelRun(Ev.c) /\ Adv
    \/ Is("lose") /\ Lose /\ Adv
    \/ Is("return") /\ Return /\ Adv
    \/ Is("eof") /\ Detect /\ Adv
    \/ Is("open_ok") /\ Reconnect /\ connected' /\ Adv
    \/ Is("open_failed") /\ Reconnect /\ ~connected' /\ ~failed' /\ Adv
    \* connection status callbacks: "failed" is the reconnect task giving up (no open() call is made for it)
    \/ Is("status") /\ Ev.st = "connected" /\ connected /\ UNCHANGED vars /\ Adv
    \/ Is("status") /\ Ev.st = "disconnected" /\ ~connected /\ UNCHANGED vars /\ Adv
    \/ Is("status") /\ Ev.st = "failed" /\ Reconnect /\ failed' /\ Adv
    \/ Is("done") /\ pc[Ev.c] = "done" /\ exc[Ev.c] = Ev.exc /\ (Mode[Ev.c] = "send" \/ Ev.exc = "none" => Len(results[Ev.c]) = Ev.nres) /\ UNCHANGED vars /\ Adv
    \* internal, unlogged steps of the driver
    \/ (\E c \in Callers : MailStep(c) \/ (SendStep(c) /\ ~ready)) /\ UNCHANGED l

TraceSpec == TraceInit /\ [][TraceNext]_tvars

\* accepted iff some behaviour consumes the whole trace; on rejection the longest matched prefix is reported
Consumed == l = Len(Trace) + 1
NotConsumed == ~Consumed         \* "violated" by an accepting behaviour: TLC's counterexample is the witness
\* bookkeeping for diagnostics (single worker): the longest prefix any behaviour matched
ASSUME TLCSet(1, 0)
Progress == TLCSet(1, IF l > TLCGet(1) THEN l ELSE TLCGet(1))
Report == PrintT(<<"MAXL", TLCGet(1), Len(Trace)>>)
=============================================================================
