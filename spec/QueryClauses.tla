---------------------------- MODULE QueryClauses ----------------------------
(* C08: what the device-type and group query sequences must make of an answer *)
(* stream (<<"none",0>>, <<"err",v>>, <<"val",v>>; after its last element the  *)
(* stream repeats it for ever).  Shared by the model (SeqQueries) and the      *)
(* trace judge (CommJudge).                                                    *)
EXTENDS Naturals, Integers, Sequences, SequencesExt, Bits

Sym(ans, j) == IF j <= Len(ans) THEN ans[j] ELSE ans[Len(ans)]

\* QUERY NEXT DEVICE TYPE iteration: ascending types 0..253 ended by 254.
\* kind: "ret" must return list; "err" must raise DALISequenceError; "either" the statement leaves it open
\* (an empty iteration, or the value 255 inside the iteration)
QDTIter(ans) ==
    LET step(acc, j) ==
            IF acc.done THEN acc
            ELSE LET y == Sym(ans, j) IN
                 IF y[1] # "val" THEN [acc EXCEPT !.done = TRUE, !.kind = "err"]
                 ELSE IF y[2] = 254 THEN [acc EXCEPT !.done = TRUE, !.kind = IF acc.list = <<>> THEN "either" ELSE "ret"]
                 ELSE IF y[2] = 255 THEN [acc EXCEPT !.done = TRUE, !.kind = "either"]
                 ELSE IF y[2] <= acc.last THEN [acc EXCEPT !.done = TRUE, !.kind = "err"]
                 ELSE [acc EXCEPT !.list = Append(@, y[2]), !.last = y[2]]
    IN FoldLeft(step, [done |-> FALSE, kind |-> "err", list |-> <<>>, last |-> -1], [j \in 1..258 |-> j + 1])

QDTExpected(ans) ==
    LET f == Sym(ans, 1) IN
    IF f[1] # "val" THEN [kind |-> "err", list |-> <<>>]
    ELSE IF f[2] < 254 THEN [kind |-> "ret", list |-> <<f[2]>>]
    ELSE IF f[2] = 254 THEN [kind |-> "ret", list |-> <<>>]
    ELSE LET it == QDTIter(ans) IN [kind |-> it.kind, list |-> it.list]

QGExpected(ans) ==
    IF Sym(ans, 1)[1] # "val" \/ Sym(ans, 2)[1] # "val" THEN [kind |-> "err", set |-> {}]
    ELSE [kind |-> "ret", set |-> {g \in 0..7 : BitOfInt(Sym(ans, 1)[2], g) = 1}
                                   \cup {g + 8 : g \in {x \in 0..7 : BitOfInt(Sym(ans, 2)[2], x) = 1}}]

AdvBound == 2 + 254

\* outcome = "none" (returned ret) or an exception class name
QDTOutcomeOK(ans, exc, ret) ==
    LET x == QDTExpected(ans) IN
    /\ exc \in {"none", "DALISequenceError"}
    /\ x.kind = "err" => exc = "DALISequenceError"
    /\ x.kind = "ret" => exc = "none" /\ ret = x.list
    /\ x.kind = "either" /\ exc = "none" => TRUE
=============================================================================
