---------------------------- MODULE ExportTables ----------------------------
(* Writes the specification's tables as JSON (path in env EXPORT_TO) so that *)
(* the harness enumerates argument spaces, bit names and memory maps from    *)
(* the specification and not from the library.                               *)
EXTENDS StdTables, Json, IOUtils, TLC

Ev == INSTANCE Events103
MM == INSTANCE MemMap

Tables == [ gear |-> AllGearRows, gearspecial |-> GearSpecial102, dev |-> Dev103, inst |-> Inst103,
            devspecial |-> DevSpecial103, bitnames |-> BitNames, enums |-> Enums,
            pushbutton |-> Ev!PushButtonCodes,
            memmap |-> MM!Map,
            bankprops |-> [b \in MM!Banks |-> [lock |-> MM!Props(b).lock, latch |-> MM!Props(b).latch, number |-> MM!BankNumber(b)]] ]

ASSUME JsonSerialize(IOEnv.EXPORT_TO, Tables)

VARIABLE x
Init == x = 0
Next == UNCHANGED x
=============================================================================
