SPECIFICATION Spec
CONSTANT Scenarios <- ScenAll
CONSTANT defaultInitValue = 0
INVARIANT Export
CHECK_DEADLOCK FALSE
