---------------------------- MODULE Gear209Model ----------------------------
(* Spec-side theorem for C14 over all 65536 values: the command stream the    *)
(* standard prescribes (DTR0 := low byte, DTR1 := high byte, [DTR2 :=         *)
(* selector,] device-type-8 command, ACTIVATE) leaves a conforming unit with  *)
(* exactly the value, and QUERY COLOUR VALUE + QUERY CONTENT DTR0 reassemble  *)
(* the stored value.  Chains of initial values so that all workers share it.  *)
EXTENDS Gear209

CONSTANT Chains
VARIABLE v
Init == v \in 0..(Chains - 1)
Next == v + Chains <= 65535 /\ v' = v + Chains
Spec == Init /\ [][Next]_v

Row(tbl, nm) == tbl[CHOOSE j \in 1..Len(tbl) : tbl[j][2] = nm]
Sp(nm, b) == EncGearSpecial(Row(GearSpecial102, nm), b)
Ext(nm, dest) == EncGearStd(Row(Gear209, nm), dest, 0)
Std(nm, dest) == EncGearStd(Row(Gear102, nm), dest, 0)

U0 == [tempTc |-> 65535, tc |-> 300, activated |-> FALSE, limits |-> <<1, 2, 3, 4>>, report |-> v, sel |-> 2,
       dtr0 |-> 170, dtr1 |-> 85, dtr2 |-> 9, level |-> 200, fault |-> [at |-> 0, kind |-> "none"], nans |-> 0, pend |-> -1]

RECURSIVE Run(_, _)
Run(u, fs) == IF fs = <<>> THEN u ELSE Run(Step(u, fs[1][1], fs[1][2]).u, Tail(fs))

Dest == IF v % 3 = 0 THEN <<"gshort", 5>> ELSE IF v % 3 = 1 THEN <<"ggroup", 2>> ELSE <<"gbcast", 0>>

SetLaw == LET u == Run(U0, << <<Sp("DTR0", v % 256), 0>>, <<Sp("DTR1", v \div 256), 0>>,
                              <<Ext("SetTemporaryColourTemperature", Dest), 8>>, <<Ext("Activate", Dest), 8>> >>)
          IN u.tc = v /\ u.activated

LimitLaw == \A s \in 0..3 :
    LET u == Run(U0, << <<Sp("DTR0", v % 256), 0>>, <<Sp("DTR1", v \div 256), 0>>, <<Sp("DTR2", s), 0>>,
                        <<Ext("StoreColourTemperatureTcLimit", Dest), 8>>, <<Ext("StoreColourTemperatureTcLimit", Dest), 8>> >>)
    IN u.limits = [U0.limits EXCEPT ![s + 1] = v] /\ u.tc = U0.tc

\* sent once, or with another frame in between, the configuration command changes nothing
OnceIsNothing == \A s \in 0..3 :
    LET pre == << <<Sp("DTR0", v % 256), 0>>, <<Sp("DTR1", v \div 256), 0>>, <<Sp("DTR2", s), 0>> >>
        st == <<Ext("StoreColourTemperatureTcLimit", Dest), 8>>
    IN /\ Run(U0, pre \o <<st>>).limits = U0.limits
       /\ Run(U0, pre \o <<st, <<Std("QueryActualLevel", <<"gshort", 5>>), 0>>, st>>).limits = U0.limits

QueryLaw ==
    LET a == Step(U0, Std("QueryActualLevel", <<"gshort", 5>>), 0)
        b == Step(a.u, Sp("DTR0", 2), 0)
        c == Step(b.u, Ext("QueryColourValue", <<"gshort", 5>>), 8)
        d == Step(c.u, Std("QueryContentDTR0", <<"gshort", 5>>), 0)
    IN c.resp = <<"val", v \div 256>> /\ d.resp = <<"val", v % 256>>

\* without the device type the extended commands mean nothing to the unit
NeedsDT8 == Run(U0, << <<Sp("DTR0", v % 256), 0>>, <<Sp("DTR1", v \div 256), 0>>,
                       <<Ext("SetTemporaryColourTemperature", Dest), 0>>, <<Ext("Activate", Dest), 0>> >>).tc = U0.tc
=============================================================================
