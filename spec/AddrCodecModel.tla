--------------------------- MODULE AddrCodecModel ---------------------------
(* Theorems of AddrCodec checked by TLC: the partition is total and          *)
(* exclusive, encode/decode round-trip, writes are local.                    *)
EXTENDS AddrCodec, TLC

VARIABLE x              \* the 7 address bits / instance byte under test
Init == x \in 0..255
Next == UNCHANGED x
Spec == Init /\ [][Next]_x

Partition ==
    /\ x < 128 => /\ GearOf7(x) \in GearAddrs \cup {None}
                  /\ DevOf7(x) \in DevAddrs \cup {None}
                  /\ GearOf7(x) # None => Addr7(GearOf7(x)) = x
                  /\ DevOf7(x) # None => Addr7(DevOf7(x)) = x
    /\ LET i == InstOfByte(x) IN
         /\ i \in Instances \cup {<<"reserved", x>>}
         /\ InstByte(i) = x

RoundTrip == x # 0 \/ (
    /\ \A a \in GearAddrs : GearOf7(Addr7(a)) = a
    /\ \A a \in DevAddrs : DevOf7(Addr7(a)) = a
    /\ \A i \in Instances : InstOfByte(InstByte(i)) = i
    /\ \A a, b \in GearAddrs : Addr7(a) = Addr7(b) => a = b
    /\ \A a, b \in DevAddrs : Addr7(a) = Addr7(b) => a = b
    /\ \A i, j \in Instances : InstByte(i) = InstByte(j) => i = j)

\* locality over a structured cover of frames built from x
Frames16 == {x * 256 + y : y \in {0, 1, 85, 170, 254, 255}}
Frames24 == {x * 65536 + y * 257 : y \in {0, 1, 85, 170, 255}} \cup {y * 65536 + x * 256 + 165 : y \in {1, 129, 255}}
Local ==
    /\ \A a \in GearAddrs : \A f \in Frames16 :
         LET g == AddAddr(a, f) IN g % 512 = f % 512 /\ g < 65536 /\ AddrFromFrame(16, g) = a
    /\ \A a \in DevAddrs : \A f \in Frames24 :
         LET g == AddAddr(a, f) IN g % 131072 = f % 131072 /\ g < 16777216
                                   /\ (BitOfInt(g, 16) = 1 => AddrFromFrame(24, g) = a)
    /\ \A i \in Instances : \A f \in Frames24 :
         LET g == AddInst(i, f) IN g % 256 = f % 256 /\ g \div 65536 = f \div 65536
                                   /\ InstFromFrame(24, g) = i
=============================================================================
