SPECIFICATION Spec
INVARIANT Partition
INVARIANT RoundTrip
INVARIANT Local
CHECK_DEADLOCK FALSE
