--------------------------- MODULE MC_HassebDriver ---------------------------
EXTENDS HassebDriver
C(dt, tw, q) == [dt |-> dt, twice |-> tw, query |-> q]
Dapc == C(FALSE, FALSE, FALSE)
Cfg == C(FALSE, TRUE, FALSE)
Qry == C(FALSE, FALSE, TRUE)
QryDT == C(TRUE, FALSE, TRUE)
Callers3 == {"A", "B", "C"}
Unit3 == [c \in Callers3 |-> CASE c = "A" -> <<Qry, Cfg, Qry>> [] c = "B" -> <<Qry, Dapc>> [] c = "C" -> <<QryDT>>]
Mode3 == [c \in Callers3 |-> IF c = "A" THEN "sequence" ELSE "send"]
NoCancel == {}
CancelAB == {"A", "B"}
CancelABC == {"A", "B", "C"}
AnyAwait == {"lockwait", "respwait"}
QueuedOnly == {"lockwait"}
=============================================================================
