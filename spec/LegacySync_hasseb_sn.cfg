SPECIFICATION Spec
CONSTANT Driver = "hasseb"
CONSTANT MaxLen = 2
CONSTANT Polls = 200
CONSTANT CheckSn = FALSE
CONSTANT defaultInitValue = 0
INVARIANT AnswerIsOwn
CHECK_DEADLOCK FALSE
