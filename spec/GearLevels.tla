---------------------------- MODULE GearLevels ----------------------------
(* Arc-power level behaviour of one IEC 62386-102 control gear: DAPC, OFF, RECALL MAX / MIN LEVEL, SET MAX / MIN LEVEL,
   SET SCENE / REMOVE FROM SCENE / GO TO SCENE and DTR0 (growth item 3 of DESIGN 14.6).  No fading: every level change
   is taken at once, as the repository's own stand-in for a gear (dali/tests/fakes.py, class Gear) does.

   Two readings, selected by Quirks:
     Quirks = FALSE   IEC 62386-102 (ed. 2) 9.x / 11.x: the limits stay ordered PHM <= min <= max <= 254, a scene
                      holding 0 switches the lamp off.
     Quirks = TRUE    what fakes.py does where it differs (named deviations, must violate LimitsOrdered / ZeroSceneIsOff):
                        - SET MIN LEVEL with DTR0 = 0 stores 0 (the "<= 1" arm is overwritten by the arm after it);
                        - GO TO SCENE of a scene holding 0 goes to the MINIMUM level, not to off.
   The binding is transition by transition (one implementation test per arc of the state graph): with Export = TRUE every
   arc <<"TR", state, op, state'>> is printed, harness/gearlevels.py puts a fakes.Gear into `state`, sends the real
   command object and reads the state back with the real query commands. *)
EXTENDS Naturals, TLC

CONSTANTS Vals,      \* byte values explored (always contains 0, PHM, 254, 255)
          PHM,       \* physical minimum level
          Quirks,    \* BOOLEAN, see above
          Export     \* BOOLEAN: print every arc

VARIABLE g           \* [level, lmin, lmax, dtr0, scene]   (one scene slot: the sixteen are independent)

MASK == 255

Clamp(s, v) == IF v > s.lmax THEN s.lmax ELSE IF v < s.lmin THEN s.lmin ELSE v

Ops == [o : {"DAPC", "DTR0"}, v : Vals]
       \cup [o : {"Off", "RecallMax", "RecallMin", "SetMax", "SetMin", "SetScene", "RemoveScene", "GoToScene"}, v : {0}]

Apply(s, op) ==
  CASE op.o = "DTR0"       -> [s EXCEPT !.dtr0 = op.v]
    [] op.o = "DAPC"       -> IF op.v = MASK THEN s
                              ELSE IF op.v = 0 THEN [s EXCEPT !.level = 0]
                              ELSE [s EXCEPT !.level = Clamp(s, op.v)]
    [] op.o = "Off"        -> [s EXCEPT !.level = 0]
    [] op.o = "RecallMax"  -> [s EXCEPT !.level = s.lmax]
    [] op.o = "RecallMin"  -> [s EXCEPT !.level = s.lmin]
    [] op.o = "SetMax"     -> LET m == IF s.lmin >= s.dtr0 THEN s.lmin ELSE IF s.dtr0 = MASK THEN 254 ELSE s.dtr0
                              IN  [s EXCEPT !.lmax = m, !.level = IF s.level > m THEN m ELSE s.level]
    [] op.o = "SetMin"     -> LET m == IF s.dtr0 >= s.lmax \/ s.dtr0 = MASK THEN s.lmax
                                       ELSE IF s.dtr0 < PHM /\ ~Quirks THEN PHM
                                       ELSE s.dtr0
                              IN  [s EXCEPT !.lmin = m, !.level = IF s.level > 0 /\ s.level < m THEN m ELSE s.level]
    [] op.o = "SetScene"   -> [s EXCEPT !.scene = s.dtr0]
    [] op.o = "RemoveScene"-> [s EXCEPT !.scene = MASK]
    [] op.o = "GoToScene"  -> IF s.scene = MASK THEN s
                              ELSE IF s.scene = 0 /\ ~Quirks THEN [s EXCEPT !.level = 0]
                              ELSE [s EXCEPT !.level = Clamp(s, s.scene)]

Init == g = [level |-> 0, lmin |-> PHM, lmax |-> 254, dtr0 |-> 0, scene |-> MASK]

Do(op) == /\ g' = Apply(g, op)
          /\ (Export => PrintT(<<"TR", g, op, Apply(g, op)>>))

Next == \E op \in Ops : Do(op)

Spec == Init /\ [][Next]_g

TypeOK        == /\ g.level \in 0..254 /\ g.lmin \in 0..254 /\ g.lmax \in 0..254
                 /\ g.dtr0 \in 0..255 /\ g.scene \in 0..255
LimitsOrdered == PHM <= g.lmin /\ g.lmin <= g.lmax /\ g.lmax <= 254
LevelInLimits == g.level = 0 \/ (g.lmin <= g.level /\ g.level <= g.lmax)

\* action properties
ZeroSceneIsOff == [][\A op \in Ops : (op.o = "GoToScene" /\ g.scene = 0 /\ g' = Apply(g, op)) => g'.level = 0]_g
MaskKeeps      == [][\A op \in Ops : ((op.o = "DAPC" /\ op.v = MASK) \/ (op.o = "GoToScene" /\ g.scene = MASK))
                                     /\ g' = Apply(g, op) => g' = g]_g
OnlyOffGoesDark == [][\A op \in Ops : (g.level > 0 /\ g'.level = 0 /\ g' = Apply(g, op))
                        => (op.o = "Off" \/ (op.o = "DAPC" /\ op.v = 0) \/ (op.o = "GoToScene" /\ g.scene = 0)
                            \/ (Quirks /\ g.lmin = 0))]_g
=============================================================================
