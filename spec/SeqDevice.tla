----------------------------- MODULE SeqDevice -----------------------------
(* Implementation-shaped model of the control-device sequences                *)
(* (dali/device/sequences.py: SetEventSchemes, SetEventFilters,               *)
(* QueryEventFilters, query_input_value; dali/device/helpers.py:              *)
(* DeviceInstanceTypeMapper.autodiscover), one label per yield, composed with *)
(* the bus of control devices Dev103.  TLC checks the clauses of C13 on every *)
(* scenario of the model instance; every terminal state is exported and       *)
(* replayed on the real sequences (identical command stream and outcome).     *)
EXTENDS Dev103, Sequences

CONSTANTS Scenarios

RowNamed(tbl, nm) == tbl[CHOOSE i \in 1..Len(tbl) : tbl[i][2] = nm]
FDev(nm, dest) == EncDev(RowNamed(Dev103, nm), dest)
FInst(nm, dest, k) == EncInst(RowNamed(Inst103, nm), dest, <<"number", k>>)
FDtr(nm, v) == EncDevSpecial(RowNamed(DevSpecial103, nm), 0, v)
Bcast == <<"dbcast", 0>>

\* check_bad_rsp for a numeric answer: missing or garbled
Bad(resp) == resp[1] # "val"
BitSet(v, k) == (v \div (2 ^ k)) % 2 = 1
\* numbers of up to 32 bits are kept as bit sequences (MSB first): TLC's integers are 32-bit signed
ByteBits(b) == [j \in 1..8 |-> (b \div (2 ^ (8 - j))) % 2]

(* --algorithm Device {
  variables
    sc = CHOOSE s \in Scenarios : TRUE,
    bus = [dummy |-> 0],
    resp = <<"none", 0>>, log = <<>>, exc = "running",
    ret = <<>>,                 \* "input": <<bits of the value>>; filters: 3 bytes low first; scheme: the answer; discover: map
    dest = <<"dshort", 0>>, inum = 0,
    res = 0, value = <<>>, lo = 0, md = 0, hi = 0,
    addrs = <<>>, ninst = 0, k = 0, map = {};

  macro Yield(f) {
      with (s = Step(bus, f)) { bus := s.bus; resp := s.resp; log := Append(log, f); }
  }

  {
    pick: with (s \in Scenarios) {
              sc := s; bus := s.bus;
              dest := IF s.op = "discover" THEN Bcast ELSE <<"dshort", s.bus.dev[s.target[1]].short>>; inum := s.target[2];
          };
    s0: if (sc.op = "input") {
            \* ---- query_input_value ----------------------------------------------------------
            if (sc.resolution < 0) {
    i1:         Yield(FInst("QueryResolution", dest, inum));
                if (Bad(resp)) { exc := "DALISequenceError"; goto Done; } else { res := resp[2]; };
            } else { res := sc.resolution; };
    i2:     Yield(FInst("QueryInputValue", dest, inum));
            if (Bad(resp)) { exc := "DALISequenceError"; goto Done; } else { value := ByteBits(resp[2]); };
    i3:     while (res > 8) {
                res := res - 8;
                Yield(FInst("QueryInputValueLatch", dest, inum));
                if (Bad(resp)) { exc := "DALISequenceError"; goto Done; } else { value := value \o ByteBits(resp[2]); };
            };
            if (res > 0) { value := SubSeq(value, 1, Len(value) - (8 - res)); };
    i4:     ret := <<value>>; exc := "none";
        } else if (sc.op = "setfilter") {
            \* ---- SetEventFilters --------------------------------------------------------------
            lo := sc.req[1]; md := sc.req[2]; hi := sc.req[3];
    f1:     Yield(FDtr("DTR0", lo));
            if (sc.fwidth > 8) {
    f2:         Yield(FDtr("DTR1", md));
            };
    f3:     if (sc.fwidth > 16) {
                Yield(FDtr("DTR2", hi));
            };
    f4:     Yield(FInst("SetEventFilter", dest, inum));
    f5:     Yield(FInst("QueryEventFilterZeroToSeven", dest, inum));
            if (Bad(resp)) { exc := "none"; goto Done; } else { lo := resp[2]; };
    f6:     if (sc.fwidth > 8) {
                Yield(FInst("QueryEventFilterEightToFifteen", dest, inum));
                if (Bad(resp)) { exc := "none"; goto Done; } else { md := resp[2]; };
            };
    f7:     if (sc.fwidth > 16) {
                Yield(FInst("QueryEventFilterSixteenToTwentyThree", dest, inum));
                if (Bad(resp)) { exc := "none"; goto Done; } else { hi := resp[2]; };
            };
    f8:     ret := <<lo, md, hi>>; exc := "none";
        } else if (sc.op = "queryfilter") {
            \* ---- QueryEventFilters ------------------------------------------------------------
    q1:     Yield(FInst("QueryEventFilterZeroToSeven", dest, inum));
            if (Bad(resp)) { exc := "none"; goto Done; } else { lo := resp[2]; };
    q2:     if (sc.fwidth > 8) {
                Yield(FInst("QueryEventFilterEightToFifteen", dest, inum));
                if (Bad(resp)) { exc := "none"; goto Done; } else { md := resp[2]; };
            };
    q3:     if (sc.fwidth > 16) {
                Yield(FInst("QueryEventFilterSixteenToTwentyThree", dest, inum));
                if (Bad(resp)) { exc := "none"; goto Done; } else { hi := resp[2]; };
            };
    q4:     ret := <<lo, md, hi>>; exc := "none";
        } else if (sc.op = "setscheme") {
            \* ---- SetEventSchemes --------------------------------------------------------------
            if (sc.req[1] \notin 0..4) { exc := "ValueError"; goto Done; };
    c1:     Yield(FDtr("DTR0", sc.req[1]));
    c2:     Yield(FInst("SetEventScheme", dest, inum));
    c3:     Yield(FInst("QueryEventScheme", dest, inum));
            ret := resp; exc := "none";
        } else {
            \* ---- DeviceInstanceTypeMapper.autodiscover ----------------------------------------
            addrs := sc.addresses;
    d1:     Yield(FDev("StartQuiescentMode", Bcast));
    d2:     while (addrs # <<>>) {
                dest := <<"dshort", Head(addrs)>>; addrs := Tail(addrs);
                Yield(FDev("QueryDeviceStatus", dest));
                if (Bad(resp) \/ BitSet(resp[2], 2) \/ BitSet(resp[2], 6)) { goto d2; };
    d3:         Yield(FDev("QueryNumberOfInstances", dest));
                if (Bad(resp)) { goto d2; } else { ninst := resp[2]; k := 0; };
    d4:         while (k < ninst) {
                    Yield(FInst("QueryInstanceEnabled", dest, k));
                    \* a garbled answer is "bad"; silence is NO
                    if (resp[1] # "val") { k := k + 1; goto d4; };
    d5:             Yield(FInst("QueryInstanceType", dest, k));
                    if (~Bad(resp)) { map := map \cup {<<dest[2], k, resp[2]>>}; };
                    k := k + 1;
                };
            };
    d6:     Yield(FDev("StopQuiescentMode", Bcast));
            exc := "none";
        }
  }
} *)
\* BEGIN TRANSLATION
VARIABLES pc, sc, bus, resp, log, exc, ret, dest, inum, res, value, lo, md, 
          hi, addrs, ninst, k, map

vars == << pc, sc, bus, resp, log, exc, ret, dest, inum, res, value, lo, md, 
           hi, addrs, ninst, k, map >>

Init == (* Global variables *)
        /\ sc = (CHOOSE s \in Scenarios : TRUE)
        /\ bus = [dummy |-> 0]
        /\ resp = <<"none", 0>>
        /\ log = <<>>
        /\ exc = "running"
        /\ ret = <<>>
        /\ dest = <<"dshort", 0>>
        /\ inum = 0
        /\ res = 0
        /\ value = <<>>
        /\ lo = 0
        /\ md = 0
        /\ hi = 0
        /\ addrs = <<>>
        /\ ninst = 0
        /\ k = 0
        /\ map = {}
        /\ pc = "pick"

pick == /\ pc = "pick"
        /\ \E s \in Scenarios:
             /\ sc' = s
             /\ bus' = s.bus
             /\ dest' = (IF s.op = "discover" THEN Bcast ELSE <<"dshort", s.bus.dev[s.target[1]].short>>)
             /\ inum' = s.target[2]
        /\ pc' = "s0"
        /\ UNCHANGED << resp, log, exc, ret, res, value, lo, md, hi, addrs, 
                        ninst, k, map >>

s0 == /\ pc = "s0"
      /\ IF sc.op = "input"
            THEN /\ IF sc.resolution < 0
                       THEN /\ pc' = "i1"
                            /\ res' = res
                       ELSE /\ res' = sc.resolution
                            /\ pc' = "i2"
                 /\ UNCHANGED << exc, lo, md, hi, addrs >>
            ELSE /\ IF sc.op = "setfilter"
                       THEN /\ lo' = sc.req[1]
                            /\ md' = sc.req[2]
                            /\ hi' = sc.req[3]
                            /\ pc' = "f1"
                            /\ UNCHANGED << exc, addrs >>
                       ELSE /\ IF sc.op = "queryfilter"
                                  THEN /\ pc' = "q1"
                                       /\ UNCHANGED << exc, addrs >>
                                  ELSE /\ IF sc.op = "setscheme"
                                             THEN /\ IF sc.req[1] \notin 0..4
                                                        THEN /\ exc' = "ValueError"
                                                             /\ pc' = "Done"
                                                        ELSE /\ pc' = "c1"
                                                             /\ exc' = exc
                                                  /\ addrs' = addrs
                                             ELSE /\ addrs' = sc.addresses
                                                  /\ pc' = "d1"
                                                  /\ exc' = exc
                            /\ UNCHANGED << lo, md, hi >>
                 /\ res' = res
      /\ UNCHANGED << sc, bus, resp, log, ret, dest, inum, value, ninst, k, 
                      map >>

i2 == /\ pc = "i2"
      /\ LET s == Step(bus, (FInst("QueryInputValue", dest, inum))) IN
           /\ bus' = s.bus
           /\ resp' = s.resp
           /\ log' = Append(log, (FInst("QueryInputValue", dest, inum)))
      /\ IF Bad(resp')
            THEN /\ exc' = "DALISequenceError"
                 /\ pc' = "Done"
                 /\ value' = value
            ELSE /\ value' = ByteBits(resp'[2])
                 /\ pc' = "i3"
                 /\ exc' = exc
      /\ UNCHANGED << sc, ret, dest, inum, res, lo, md, hi, addrs, ninst, k, 
                      map >>

i3 == /\ pc = "i3"
      /\ IF res > 8
            THEN /\ res' = res - 8
                 /\ LET s == Step(bus, (FInst("QueryInputValueLatch", dest, inum))) IN
                      /\ bus' = s.bus
                      /\ resp' = s.resp
                      /\ log' = Append(log, (FInst("QueryInputValueLatch", dest, inum)))
                 /\ IF Bad(resp')
                       THEN /\ exc' = "DALISequenceError"
                            /\ pc' = "Done"
                            /\ value' = value
                       ELSE /\ value' = value \o ByteBits(resp'[2])
                            /\ pc' = "i3"
                            /\ exc' = exc
            ELSE /\ IF res > 0
                       THEN /\ value' = SubSeq(value, 1, Len(value) - (8 - res))
                       ELSE /\ TRUE
                            /\ value' = value
                 /\ pc' = "i4"
                 /\ UNCHANGED << bus, resp, log, exc, res >>
      /\ UNCHANGED << sc, ret, dest, inum, lo, md, hi, addrs, ninst, k, map >>

i4 == /\ pc = "i4"
      /\ ret' = <<value>>
      /\ exc' = "none"
      /\ pc' = "Done"
      /\ UNCHANGED << sc, bus, resp, log, dest, inum, res, value, lo, md, hi, 
                      addrs, ninst, k, map >>

i1 == /\ pc = "i1"
      /\ LET s == Step(bus, (FInst("QueryResolution", dest, inum))) IN
           /\ bus' = s.bus
           /\ resp' = s.resp
           /\ log' = Append(log, (FInst("QueryResolution", dest, inum)))
      /\ IF Bad(resp')
            THEN /\ exc' = "DALISequenceError"
                 /\ pc' = "Done"
                 /\ res' = res
            ELSE /\ res' = resp'[2]
                 /\ pc' = "i2"
                 /\ exc' = exc
      /\ UNCHANGED << sc, ret, dest, inum, value, lo, md, hi, addrs, ninst, k, 
                      map >>

f1 == /\ pc = "f1"
      /\ LET s == Step(bus, (FDtr("DTR0", lo))) IN
           /\ bus' = s.bus
           /\ resp' = s.resp
           /\ log' = Append(log, (FDtr("DTR0", lo)))
      /\ IF sc.fwidth > 8
            THEN /\ pc' = "f2"
            ELSE /\ pc' = "f3"
      /\ UNCHANGED << sc, exc, ret, dest, inum, res, value, lo, md, hi, addrs, 
                      ninst, k, map >>

f2 == /\ pc = "f2"
      /\ LET s == Step(bus, (FDtr("DTR1", md))) IN
           /\ bus' = s.bus
           /\ resp' = s.resp
           /\ log' = Append(log, (FDtr("DTR1", md)))
      /\ pc' = "f3"
      /\ UNCHANGED << sc, exc, ret, dest, inum, res, value, lo, md, hi, addrs, 
                      ninst, k, map >>

f3 == /\ pc = "f3"
      /\ IF sc.fwidth > 16
            THEN /\ LET s == Step(bus, (FDtr("DTR2", hi))) IN
                      /\ bus' = s.bus
                      /\ resp' = s.resp
                      /\ log' = Append(log, (FDtr("DTR2", hi)))
            ELSE /\ TRUE
                 /\ UNCHANGED << bus, resp, log >>
      /\ pc' = "f4"
      /\ UNCHANGED << sc, exc, ret, dest, inum, res, value, lo, md, hi, addrs, 
                      ninst, k, map >>

f4 == /\ pc = "f4"
      /\ LET s == Step(bus, (FInst("SetEventFilter", dest, inum))) IN
           /\ bus' = s.bus
           /\ resp' = s.resp
           /\ log' = Append(log, (FInst("SetEventFilter", dest, inum)))
      /\ pc' = "f5"
      /\ UNCHANGED << sc, exc, ret, dest, inum, res, value, lo, md, hi, addrs, 
                      ninst, k, map >>

f5 == /\ pc = "f5"
      /\ LET s == Step(bus, (FInst("QueryEventFilterZeroToSeven", dest, inum))) IN
           /\ bus' = s.bus
           /\ resp' = s.resp
           /\ log' = Append(log, (FInst("QueryEventFilterZeroToSeven", dest, inum)))
      /\ IF Bad(resp')
            THEN /\ exc' = "none"
                 /\ pc' = "Done"
                 /\ lo' = lo
            ELSE /\ lo' = resp'[2]
                 /\ pc' = "f6"
                 /\ exc' = exc
      /\ UNCHANGED << sc, ret, dest, inum, res, value, md, hi, addrs, ninst, k, 
                      map >>

f6 == /\ pc = "f6"
      /\ IF sc.fwidth > 8
            THEN /\ LET s == Step(bus, (FInst("QueryEventFilterEightToFifteen", dest, inum))) IN
                      /\ bus' = s.bus
                      /\ resp' = s.resp
                      /\ log' = Append(log, (FInst("QueryEventFilterEightToFifteen", dest, inum)))
                 /\ IF Bad(resp')
                       THEN /\ exc' = "none"
                            /\ pc' = "Done"
                            /\ md' = md
                       ELSE /\ md' = resp'[2]
                            /\ pc' = "f7"
                            /\ exc' = exc
            ELSE /\ pc' = "f7"
                 /\ UNCHANGED << bus, resp, log, exc, md >>
      /\ UNCHANGED << sc, ret, dest, inum, res, value, lo, hi, addrs, ninst, k, 
                      map >>

f7 == /\ pc = "f7"
      /\ IF sc.fwidth > 16
            THEN /\ LET s == Step(bus, (FInst("QueryEventFilterSixteenToTwentyThree", dest, inum))) IN
                      /\ bus' = s.bus
                      /\ resp' = s.resp
                      /\ log' = Append(log, (FInst("QueryEventFilterSixteenToTwentyThree", dest, inum)))
                 /\ IF Bad(resp')
                       THEN /\ exc' = "none"
                            /\ pc' = "Done"
                            /\ hi' = hi
                       ELSE /\ hi' = resp'[2]
                            /\ pc' = "f8"
                            /\ exc' = exc
            ELSE /\ pc' = "f8"
                 /\ UNCHANGED << bus, resp, log, exc, hi >>
      /\ UNCHANGED << sc, ret, dest, inum, res, value, lo, md, addrs, ninst, k, 
                      map >>

f8 == /\ pc = "f8"
      /\ ret' = <<lo, md, hi>>
      /\ exc' = "none"
      /\ pc' = "Done"
      /\ UNCHANGED << sc, bus, resp, log, dest, inum, res, value, lo, md, hi, 
                      addrs, ninst, k, map >>

q1 == /\ pc = "q1"
      /\ LET s == Step(bus, (FInst("QueryEventFilterZeroToSeven", dest, inum))) IN
           /\ bus' = s.bus
           /\ resp' = s.resp
           /\ log' = Append(log, (FInst("QueryEventFilterZeroToSeven", dest, inum)))
      /\ IF Bad(resp')
            THEN /\ exc' = "none"
                 /\ pc' = "Done"
                 /\ lo' = lo
            ELSE /\ lo' = resp'[2]
                 /\ pc' = "q2"
                 /\ exc' = exc
      /\ UNCHANGED << sc, ret, dest, inum, res, value, md, hi, addrs, ninst, k, 
                      map >>

q2 == /\ pc = "q2"
      /\ IF sc.fwidth > 8
            THEN /\ LET s == Step(bus, (FInst("QueryEventFilterEightToFifteen", dest, inum))) IN
                      /\ bus' = s.bus
                      /\ resp' = s.resp
                      /\ log' = Append(log, (FInst("QueryEventFilterEightToFifteen", dest, inum)))
                 /\ IF Bad(resp')
                       THEN /\ exc' = "none"
                            /\ pc' = "Done"
                            /\ md' = md
                       ELSE /\ md' = resp'[2]
                            /\ pc' = "q3"
                            /\ exc' = exc
            ELSE /\ pc' = "q3"
                 /\ UNCHANGED << bus, resp, log, exc, md >>
      /\ UNCHANGED << sc, ret, dest, inum, res, value, lo, hi, addrs, ninst, k, 
                      map >>

q3 == /\ pc = "q3"
      /\ IF sc.fwidth > 16
            THEN /\ LET s == Step(bus, (FInst("QueryEventFilterSixteenToTwentyThree", dest, inum))) IN
                      /\ bus' = s.bus
                      /\ resp' = s.resp
                      /\ log' = Append(log, (FInst("QueryEventFilterSixteenToTwentyThree", dest, inum)))
                 /\ IF Bad(resp')
                       THEN /\ exc' = "none"
                            /\ pc' = "Done"
                            /\ hi' = hi
                       ELSE /\ hi' = resp'[2]
                            /\ pc' = "q4"
                            /\ exc' = exc
            ELSE /\ pc' = "q4"
                 /\ UNCHANGED << bus, resp, log, exc, hi >>
      /\ UNCHANGED << sc, ret, dest, inum, res, value, lo, md, addrs, ninst, k, 
                      map >>

q4 == /\ pc = "q4"
      /\ ret' = <<lo, md, hi>>
      /\ exc' = "none"
      /\ pc' = "Done"
      /\ UNCHANGED << sc, bus, resp, log, dest, inum, res, value, lo, md, hi, 
                      addrs, ninst, k, map >>

c1 == /\ pc = "c1"
      /\ LET s == Step(bus, (FDtr("DTR0", sc.req[1]))) IN
           /\ bus' = s.bus
           /\ resp' = s.resp
           /\ log' = Append(log, (FDtr("DTR0", sc.req[1])))
      /\ pc' = "c2"
      /\ UNCHANGED << sc, exc, ret, dest, inum, res, value, lo, md, hi, addrs, 
                      ninst, k, map >>

c2 == /\ pc = "c2"
      /\ LET s == Step(bus, (FInst("SetEventScheme", dest, inum))) IN
           /\ bus' = s.bus
           /\ resp' = s.resp
           /\ log' = Append(log, (FInst("SetEventScheme", dest, inum)))
      /\ pc' = "c3"
      /\ UNCHANGED << sc, exc, ret, dest, inum, res, value, lo, md, hi, addrs, 
                      ninst, k, map >>

c3 == /\ pc = "c3"
      /\ LET s == Step(bus, (FInst("QueryEventScheme", dest, inum))) IN
           /\ bus' = s.bus
           /\ resp' = s.resp
           /\ log' = Append(log, (FInst("QueryEventScheme", dest, inum)))
      /\ ret' = resp'
      /\ exc' = "none"
      /\ pc' = "Done"
      /\ UNCHANGED << sc, dest, inum, res, value, lo, md, hi, addrs, ninst, k, 
                      map >>

d1 == /\ pc = "d1"
      /\ LET s == Step(bus, (FDev("StartQuiescentMode", Bcast))) IN
           /\ bus' = s.bus
           /\ resp' = s.resp
           /\ log' = Append(log, (FDev("StartQuiescentMode", Bcast)))
      /\ pc' = "d2"
      /\ UNCHANGED << sc, exc, ret, dest, inum, res, value, lo, md, hi, addrs, 
                      ninst, k, map >>

d2 == /\ pc = "d2"
      /\ IF addrs # <<>>
            THEN /\ dest' = <<"dshort", Head(addrs)>>
                 /\ addrs' = Tail(addrs)
                 /\ LET s == Step(bus, (FDev("QueryDeviceStatus", dest'))) IN
                      /\ bus' = s.bus
                      /\ resp' = s.resp
                      /\ log' = Append(log, (FDev("QueryDeviceStatus", dest')))
                 /\ IF Bad(resp') \/ BitSet(resp'[2], 2) \/ BitSet(resp'[2], 6)
                       THEN /\ pc' = "d2"
                       ELSE /\ pc' = "d3"
            ELSE /\ pc' = "d6"
                 /\ UNCHANGED << bus, resp, log, dest, addrs >>
      /\ UNCHANGED << sc, exc, ret, inum, res, value, lo, md, hi, ninst, k, 
                      map >>

d3 == /\ pc = "d3"
      /\ LET s == Step(bus, (FDev("QueryNumberOfInstances", dest))) IN
           /\ bus' = s.bus
           /\ resp' = s.resp
           /\ log' = Append(log, (FDev("QueryNumberOfInstances", dest)))
      /\ IF Bad(resp')
            THEN /\ pc' = "d2"
                 /\ UNCHANGED << ninst, k >>
            ELSE /\ ninst' = resp'[2]
                 /\ k' = 0
                 /\ pc' = "d4"
      /\ UNCHANGED << sc, exc, ret, dest, inum, res, value, lo, md, hi, addrs, 
                      map >>

d4 == /\ pc = "d4"
      /\ IF k < ninst
            THEN /\ LET s == Step(bus, (FInst("QueryInstanceEnabled", dest, k))) IN
                      /\ bus' = s.bus
                      /\ resp' = s.resp
                      /\ log' = Append(log, (FInst("QueryInstanceEnabled", dest, k)))
                 /\ IF resp'[1] # "val"
                       THEN /\ k' = k + 1
                            /\ pc' = "d4"
                       ELSE /\ pc' = "d5"
                            /\ k' = k
            ELSE /\ pc' = "d2"
                 /\ UNCHANGED << bus, resp, log, k >>
      /\ UNCHANGED << sc, exc, ret, dest, inum, res, value, lo, md, hi, addrs, 
                      ninst, map >>

d5 == /\ pc = "d5"
      /\ LET s == Step(bus, (FInst("QueryInstanceType", dest, k))) IN
           /\ bus' = s.bus
           /\ resp' = s.resp
           /\ log' = Append(log, (FInst("QueryInstanceType", dest, k)))
      /\ IF ~Bad(resp')
            THEN /\ map' = (map \cup {<<dest[2], k, resp'[2]>>})
            ELSE /\ TRUE
                 /\ map' = map
      /\ k' = k + 1
      /\ pc' = "d4"
      /\ UNCHANGED << sc, exc, ret, dest, inum, res, value, lo, md, hi, addrs, 
                      ninst >>

d6 == /\ pc = "d6"
      /\ LET s == Step(bus, (FDev("StopQuiescentMode", Bcast))) IN
           /\ bus' = s.bus
           /\ resp' = s.resp
           /\ log' = Append(log, (FDev("StopQuiescentMode", Bcast)))
      /\ exc' = "none"
      /\ pc' = "Done"
      /\ UNCHANGED << sc, ret, dest, inum, res, value, lo, md, hi, addrs, 
                      ninst, k, map >>

(* Allow infinite stuttering to prevent deadlock on termination. *)
Terminating == pc = "Done" /\ UNCHANGED vars

Next == pick \/ s0 \/ i2 \/ i3 \/ i4 \/ i1 \/ f1 \/ f2 \/ f3 \/ f4 \/ f5
           \/ f6 \/ f7 \/ f8 \/ q1 \/ q2 \/ q3 \/ q4 \/ c1 \/ c2 \/ c3 \/ d1
           \/ d2 \/ d3 \/ d4 \/ d5 \/ d6
           \/ Terminating

Spec == Init /\ [][Next]_vars

Termination == <>(pc = "Done")

\* END TRANSLATION

\* ---- properties (at the end of the sequence) -----------------------------------------------------------------------
Ended == pc = "Done"
B0 == sc.bus
X0 == B0.dev[sc.target[1]].inst[sc.target[2] + 1]
X == bus.dev[sc.target[1]].inst[sc.target[2] + 1]
FaultHit == B0.fault.kind # "none" /\ bus.nans >= B0.fault.at
RECURSIVE BitsVal(_)
BitsVal(bits) == IF bits = <<>> THEN 0 ELSE 2 * BitsVal(SubSeq(bits, 1, Len(bits) - 1)) + bits[Len(bits)]

InputOK == (Ended /\ sc.op = "input") =>
    IF FaultHit THEN exc = "DALISequenceError"
    ELSE exc = "none" /\ ret = <<X0.value>>
SetFilterOK == (Ended /\ sc.op = "setfilter") =>
    /\ exc = "none"
    /\ (~FaultHit => /\ X.filter = MaskToWidth(sc.req, X0.width)
                     /\ (sc.fwidth >= X0.width => ret = X.filter))        \* a narrower enum returns what it read plus its own request
    /\ (FaultHit => ret = <<>>)
QueryFilterOK == (Ended /\ sc.op = "queryfilter") =>
    /\ exc = "none" /\ bus.dev = B0.dev
    /\ (~FaultHit /\ sc.fwidth >= X0.width => ret = X0.filter)
    /\ (FaultHit => ret = <<>>)
SetSchemeOK == (Ended /\ sc.op = "setscheme") =>
    IF sc.req[1] \notin 0..4 THEN exc = "ValueError" /\ log = <<>>
    ELSE /\ exc = "none" /\ X.scheme = sc.req[1]
         /\ (~FaultHit => ret = <<"val", sc.req[1]>>)
Healthy(d) == ~BitSet(d.status, 2) /\ ~BitSet(d.status, 6)
Scanned(d) == \E j \in 1..Len(sc.addresses) : sc.addresses[j] = d.short
MustMap == UNION {{<<d.short, j - 1, d.inst[j].type>> : j \in {q \in 1..Len(d.inst) : d.inst[q].enabled}}
                  : d \in {B0.dev[q] : q \in {z \in 1..Len(B0.dev) : Scanned(B0.dev[z]) /\ Healthy(B0.dev[z])}}}
DiscoverOK == (Ended /\ sc.op = "discover") =>
    /\ exc = "none" /\ ~bus.quiescent
    /\ Len(log) >= 2 /\ log[1] = FDev("StartQuiescentMode", Bcast) /\ log[Len(log)] = FDev("StopQuiescentMode", Bcast)
    /\ map \subseteq MustMap
    /\ (~FaultHit => map = MustMap)
Bounded == Len(log) <= 400

Export == Ended => PrintT(<<"SCEN", sc, exc, log, ret, map>>)
=============================================================================
