SPECIFICATION Spec
CONSTANT Driver = "tridonic"
CONSTANT MaxLen = 4
CONSTANT Polls = 2
CONSTANT CheckSn = FALSE
CONSTANT defaultInitValue = 0
INVARIANT HassebTyped
INVARIANT OneWrite
INVARIANT TridonicBounded
CHECK_DEADLOCK FALSE
