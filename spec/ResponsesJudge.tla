--------------------------- MODULE ResponsesJudge ---------------------------
(* Judges the recorded behaviour of every response class of the library      *)
(* (harness/c06.py) against Responses.  One TLC state per response class.    *)
EXTENDS Responses, Json, IOUtils

Recs == ndJsonDeserialize(IOEnv.SHARD)

VARIABLE i
Init == i \in 1..Len(Recs)
Next == UNCHANGED i
Spec == Init /\ [][Next]_i

Bad(kk, r) == {o \in Outcomes : ~CellOK(kk, o, r.cells[o])}

MinOf(S) == CHOOSE x \in S : \A y \in S : x <= y

\* verdict for one command name the class is attached to
CmdVerdict(q, r) ==
    IF ~HasAnswer(q) THEN [ok |-> TRUE, clause |-> "unmapped", at |-> 0]
    ELSE LET a == CHOOSE x \in AnswersOf(q) : TRUE IN
         IF a = "-" THEN [ok |-> FALSE, clause |-> "answer-for-command-without-answer:" \o q, at |-> 0]
         ELSE LET ks == AllowedKinds(a)
                  bad == [kk \in ks |-> Bad(kk, r)]
              IN IF \E kk \in ks : bad[kk] = {} THEN [ok |-> TRUE, clause |-> "", at |-> 0]
                 ELSE LET best == CHOOSE kk \in ks : \A k2 \in ks : Cardinality(bad[kk]) <= Cardinality(bad[k2])
                      IN [ok |-> FALSE, clause |-> q \o " as " \o best, at |-> MinOf(bad[best])]

RecVerdict(r) ==
    LET cv == [j \in 1..Len(r.cmds) |-> CmdVerdict(r.cmds[j], r)]
        failing == {j \in 1..Len(r.cmds) : ~cv[j].ok}
        badctor == {j \in 1..Len(r.ctor) : r.ctor[j][2] # "exc"}
        common == {o \in Outcomes : ~CommonOK(r.cells[o])}
    IN IF common # {} THEN [ok |-> FALSE, clause |-> "raw_value/str", at |-> MinOf(common)]
       ELSE IF failing # {} THEN cv[MinOf(failing)]
       ELSE IF badctor # {} THEN [ok |-> FALSE, clause |-> "constructor-accepts:" \o r.ctor[MinOf(badctor)][1], at |-> 0]
       ELSE [ok |-> TRUE, clause |-> "", at |-> 0]

Judge == LET r == Recs[i]
             v == RecVerdict(r)
             un == {j \in 1..Len(r.cmds) : ~HasAnswer(r.cmds[j])}
         IN /\ (un = {} \/ PrintT(<<"NOTE", r.id, "unmapped", [j \in un |-> r.cmds[j]]>>))
            /\ (v.ok \/ PrintT(<<"REJECT", r.id, v.clause, v.at>>))
=============================================================================
