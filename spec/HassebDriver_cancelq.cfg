SPECIFICATION Spec
CONSTANT Callers <- Callers3
CONSTANT Unit <- Unit3
CONSTANT Mode <- Mode3
CONSTANT Cancellable <- CancelABC
CONSTANT CancelAt <- QueuedOnly
INVARIANT TypeOK
INVARIANT TxnAtomic
INVARIANT NoCrossTalk
INVARIANT CleanEnd
PROPERTY EventuallyAllDone
CHECK_DEADLOCK FALSE
