------------------------------ MODULE WireJudge ------------------------------
(* Judges the bytes the real drivers exchanged with their (fake) gateways      *)
(* (harness/c18.py) against WireFormats.                                       *)
EXTENDS WireFormats, Json, IOUtils

Recs == ndJsonDeserialize(IOEnv.SHARD)

VARIABLE i
Init == i \in 1..Len(Recs)
Next == UNCHANGED i
Spec == Init /\ [][Next]_i

Fail(c, at) == [ok |-> FALSE, clause |-> c, at |-> at]
Pass == [ok |-> TRUE, clause |-> "", at |-> 0]

Supported(drv, bits) == CASE drv \in {"hasseb", "ltridonic", "lhasseb"} -> bits = 16
                          [] drv = "sci" -> bits \in {8, 16, 24}
                          [] OTHER -> bits \in {16, 24}

TxOK(r) ==
    LET tw == r.twice = 1
        w == r.writes
    IN
    CASE r.drv = "tridonic" -> Len(w) = 1 /\ TridonicOK(w[1], r.bits, r.frame, tw)
      [] r.drv = "hasseb" -> w = HassebWrites(r.bits, r.frame, tw)
      [] r.drv = "luba" -> w = <<LubaCmd(r.bits, r.frame, tw, r.dt)>>
      [] r.drv = "sci" -> w = <<SciCmd(r.bits, r.frame, tw)>>
      [] r.drv = "atx" -> w = <<AtxLine(r.bits, r.frame, tw)>>
      [] r.drv = "daliserver" -> w = DaliserverMsgs(r.bits, r.frame, tw)
      [] r.drv = "ltridonic" -> Len(w) = 1 /\ Len(w[1]) = 64 /\ w[1] = LegacyTridonic(w[1][2], r.frame)
      [] r.drv = "lhasseb" -> Len(w) = 1 /\ Len(w[1]) = 10 /\ w[1] = LegacyHasseb(w[1][3], r.frame, tw, r.query = 1)
      [] r.drv = "unipi" -> w = <<UnipiRegs(r.bits, r.frame, tw)>>

Verdict(r) ==
    CASE r.kind = "tx" ->
           IF ~Supported(r.drv, r.bits) THEN
               (IF r.exc # "none" /\ r.writes = <<>> THEN Pass ELSE Fail("unsupported-frame-length-not-refused", r.bits))
           ELSE IF r.exc # "none" THEN Fail("raised:" \o r.exc, 0)
           ELSE IF ~TxOK(r) THEN Fail("bytes-differ-from-wire-format", r.frame)
           ELSE Pass
      [] r.kind = "seq" ->
           IF SeqNumbersOK(r.sns) THEN Pass
           ELSE Fail("sequence-number-out-of-range-or-repeated",
                     CHOOSE k \in 1..Len(r.sns) : r.sns[k] \notin 1..255 \/ (k < Len(r.sns) /\ r.sns[k] = r.sns[k + 1]))
      [] r.kind = "rx" ->
           LET want == CASE r.drv = "ltridonic" -> LegacyTridonicRx(r.data) [] r.drv = "lhasseb" -> LegacyHassebRx(r.data)
                         [] r.drv = "unipi" -> UnipiRx(r.data) [] r.drv = "daliserver" -> DaliserverRx(r.data)
               got == <<r.got[1], r.got[2], r.got[3]>>
           IN IF want[1] = "ignore" THEN Pass
              ELSE IF got = want THEN Pass ELSE Fail("packet-decoded-differently", 0)

Judge == LET r == Recs[i]
             v == Verdict(r)
         IN v.ok \/ PrintT(<<"REJECT", r.id, v.clause, v.at>>)
=============================================================================
