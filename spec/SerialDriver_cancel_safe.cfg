SPECIFICATION Spec
CONSTANT Callers <- Callers3
CONSTANT Unit <- Unit3
CONSTANT Mode <- Mode3
CONSTANT Outcome <- OutVal3
CONSTANT Cancellable <- CancelAB
CONSTANT CancelAt <- AnyAwait
CONSTANT MaxStale = 0
CONSTANT MaySilence = FALSE
CONSTANT ConfPerTwice = 2
CONSTANT FlushAfterConfirm = FALSE
CONSTANT FlushAt = "acquired"
INVARIANT TypeOK
INVARIANT WriteByOwner
INVARIANT TxnAtomic
INVARIANT CleanEnd
PROPERTY EventuallyAllDone
CHECK_DEADLOCK FALSE
