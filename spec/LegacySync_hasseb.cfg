SPECIFICATION Spec
CONSTANT Driver = "hasseb"
CONSTANT MaxLen = 3
CONSTANT Polls = 200
CONSTANT CheckSn = FALSE
CONSTANT defaultInitValue = 0
INVARIANT HassebTyped
INVARIANT OneWrite
INVARIANT TridonicBounded
CHECK_DEADLOCK FALSE
