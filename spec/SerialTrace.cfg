SPECIFICATION TraceSpec
CONSTANT Callers <- TrCallers
CONSTANT Unit <- TrUnit
CONSTANT Mode <- TrMode
CONSTANT Outcome <- TrOutcome
CONSTANT Cancellable <- TrCallers
CONSTANT CancelAt <- TrAnyAwait
CONSTANT MaxStale = 0
CONSTANT MaySilence = FALSE
CONSTANT ConfPerTwice <- TrConfPerTwice
CONSTANT FlushAfterConfirm = FALSE
CONSTANT FlushAt = "acquired"
INVARIANT NotConsumed
CHECK_DEADLOCK FALSE
CONSTRAINT Progress
POSTCONDITION Report
