SPECIFICATION Spec
CONSTANT Configs <- ConfigsFinding
CONSTANT RandVals <- RandValsFinding
CONSTANT K = 2
CONSTANT SkipSame = "no"
CONSTANT defaultInitValue = 0
INVARIANT InvP3NoExclusion
CHECK_DEADLOCK FALSE
