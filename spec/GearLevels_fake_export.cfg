SPECIFICATION Spec
CONSTANT Vals = {0, 1, 2, 100, 254, 255}
CONSTANT PHM = 1
CONSTANT Quirks = TRUE
CONSTANT Export = TRUE
INVARIANT TypeOK
CHECK_DEADLOCK FALSE
