SPECIFICATION Spec
CONSTANT Scenarios <- ScenAll
CONSTANT defaultInitValue = 0
CONSTANT UnlatchOnError = TRUE
INVARIANT Export
CHECK_DEADLOCK FALSE
