---------------------------- MODULE BusWatchJudge ----------------------------
(* Judges bus_traffic callbacks (Tridonic watcher) and DistributorQueue       *)
(* contents (LUBA / SCI) recorded from the real drivers against BusWatch.     *)
EXTENDS BusWatch, Json, IOUtils

Recs == ndJsonDeserialize(IOEnv.SHARD)
Names == ndJsonDeserialize(IOEnv.NAMES)[1]

VARIABLE i
Init == i \in 1..Len(Recs)
Next == UNCHANGED i
Spec == Init /\ [][Next]_i

Fail(c, at) == [ok |-> FALSE, clause |-> c, at |-> at]
Pass == [ok |-> TRUE, clause |-> "", at |-> 0]

Inputs(r) == [k \in 1..Len(r.inputs) |-> <<r.inputs[k][1], r.inputs[k][2], r.inputs[k][3], r.inputs[k][4]>>]

\* what a subscriber present during [join, leave) must receive
ExpectedFor(em, join, leave) == SelectSeq(em, LAMBDA e : e[1] >= join /\ e[1] < leave)

\* serial drivers: every observed forward frame once, in order, decoded with the device type of an immediately
\* preceding ENABLE DEVICE TYPE only
SerialEmissions(inputs) ==
    FoldLeft(LAMBDA acc, x :
                IF x[2] # "fwd" THEN acc
                ELSE [out |-> Append(acc.out, <<x[1], x[4], x[3], "nil", 0, FALSE, acc.dt>>),
                      dt |-> IF IsEDT(x[3], x[4]) THEN x[4] % 256 ELSE 0],
             [out |-> <<>>, dt |-> 0], inputs).out

ItemOK(g, e) ==
    /\ g[1] = e[2] /\ g[2] = e[3]                                  \* frame, bits
    /\ g[4] = e[4] /\ (e[4] \in {"nil", "none"} \/ g[5] = e[5])    \* response
    /\ (g[6] = 1) = e[6]                                           \* failed flag
    /\ LET nm == NameOf(e[3], e[2], e[7]) IN                        \* decoded in context
       IF nm = Unnamed THEN g[3] \in DOMAIN Names /\ Names[g[3]] \in UnknownNames
       ELSE nm = "event" \/ Names[g[3]] = nm

Verdict(r) ==
    LET em == IF r.driver = "tridonic" THEN Run(Inputs(r)) ELSE SerialEmissions(Inputs(r))
        bad == {k \in 1..Len(r.subs) :
                  LET want == ExpectedFor(em, r.subs[k][2], r.subs[k][3])
                      got == r.got[k]
                  IN ~(Len(got) = Len(want) /\ \A j \in 1..Len(got) : ItemOK(got[j], want[j]))}
    IN IF r.loop_exc # "none" THEN Fail("event-loop:" \o r.loop_exc, 0)
       ELSE IF bad = {} THEN Pass
       ELSE LET k == CHOOSE x \in bad : TRUE
                want == ExpectedFor(em, r.subs[k][2], r.subs[k][3])
                got == r.got[k]
            IN IF Len(got) < Len(want) THEN Fail("report-missing:" \o r.subs[k][1], Len(got))
               ELSE IF Len(got) > Len(want) THEN Fail("report-extra-or-duplicated:" \o r.subs[k][1], Len(want))
               ELSE Fail("report-differs:" \o r.subs[k][1], CHOOSE j \in 1..Len(got) : ~ItemOK(got[j], want[j]))

Judge == LET r == Recs[i]
             v == Verdict(r)
         IN v.ok \/ PrintT(<<"REJECT", r.id, v.clause, v.at>>)
=============================================================================
