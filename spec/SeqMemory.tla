----------------------------- MODULE SeqMemory -----------------------------
(* Implementation-shaped model of the memory access sequences of             *)
(* dali/memory/location.py -- MemoryValue.read_raw, MemoryValue.write_raw and *)
(* MemoryBank.read_all, one label per yield -- composed with the unit model   *)
(* MemUnit (addressing, auto-increment, writeEnableState, lock byte, latch,   *)
(* faults).  TLC checks the clauses of C09 / C10 on every scenario of the     *)
(* model instance; every terminal state is exported and replayed on the real  *)
(* sequences, whose command stream and outcome must be identical.             *)
EXTENDS MemUnit

CONSTANTS Scenarios,       \* set of scenario records, see MC_SeqMemory
          UnlatchOnError   \* TRUE: read_all releases the latch before raising ResponseError (fix in /repo); FALSE: old code

RowNamed(tbl, nm) == tbl[CHOOSE i \in 1..Len(tbl) : tbl[i][2] = nm]
MapRow(bank, nm) == Map[CHOOSE k \in 1..Len(Map) : Map[k][1] = bank /\ Map[k][2] = nm]

\* frames of the helper commands, for gear (16 bit) and control devices (24 bit), short address UnitShort
GDest == <<"gshort", UnitShort>>
DDest == <<"dshort", UnitShort>>
Frame(kind, nm, v) ==
    IF kind = "gear"
    THEN (IF nm \in {"DTR0", "DTR1", "WriteMemoryLocation", "WriteMemoryLocationNoReply"}
          THEN EncGearSpecial(RowNamed(GearSpecial102, nm), v)
          ELSE EncGearStd(RowNamed(Gear102, nm), GDest, 0))
    ELSE (IF nm \in {"DTR0", "DTR1", "WriteMemoryLocation", "WriteMemoryLocationNoReply"}
          THEN EncDevSpecial(RowNamed(DevSpecial103, nm), 0, v)
          ELSE EncDev(RowNamed(Dev103, nm), DDest))
FLen(kind) == IF kind = "gear" THEN 16 ELSE 24

Min(a, b) == IF a < b THEN a ELSE b
WritableRow(r) == \A l \in LocsOf(r) : Writable(TypeAt(r, l))
LockableRow(r) == \E l \in LocsOf(r) : Lockable(TypeAt(r, l))

(* --algorithm Memory {
  variables
    sc = CHOOSE s \in Scenarios : TRUE,     \* scenario (chosen in "pick")
    u = [dummy |-> 0],                      \* the unit
    row = <<>>,                             \* the value's row of the memory map
    resp = <<"none", 0>>,
    log = <<>>,                             \* frames sent so far
    raw = <<>>,                             \* bytes read (read, readall: list indexed by location + 1, -1 = None)
    exc = "running",
    dtr0 = -1, j = 1, last = 0, unlock = FALSE;

  macro Yield(nm, v) {
      with (f = Frame(sc.kind, nm, v), s = Step(u, FLen(sc.kind), f)) {
          u := s.u; resp := s.resp; log := Append(log, f);
      }
  }

  {
    pick: with (s \in Scenarios) {
              sc := s;
              row := MapRow(s.bank, s.value);
              u := [kind |-> s.kind, bank |-> s.bank, mem |-> s.mem, snap |-> <<>>, dtr0 |-> 0, dtr1 |-> 0, wes |-> FALSE,
                    unlock |-> s.unlock, nobble |-> s.nobble, echoflip |-> s.echoflip, fault |-> s.fault, nans |-> 0];
          };
    s0: if (sc.op = "read") {
            \* ---- MemoryValue.read_raw -------------------------------------------------------
    r1:     Yield("DTR1", BankNumber(sc.bank));
    r2:     while (j <= row[4]) {
                if (row[3] + j - 1 # dtr0) {
                    dtr0 := row[3] + j - 1;
    r3:             Yield("DTR0", dtr0);
                };
    r4:         Yield("ReadMemoryLocation", 0);
                dtr0 := Min(dtr0 + 1, 255);
                if (resp[1] = "none") { exc := "MemoryLocationNotImplemented"; goto Done; }
                else if (resp[1] = "err") { exc := "ResponseError"; goto Done; }
                else { raw := Append(raw, resp[2]); j := j + 1; };
            };
            exc := "none";
        } else if (sc.op = "write") {
            \* ---- MemoryValue.write_raw ------------------------------------------------------
            if (~WritableRow(row)) { exc := "MemoryValueNotWriteable"; goto Done; };
    w0:     unlock := LockableRow(row);
    w1:     Yield("DTR1", BankNumber(sc.bank));
    w2:     Yield("EnableWriteMemory", 0);
            if (unlock) {
    w3:         Yield("DTR0", 2);
    w4:         Yield("WriteMemoryLocationNoReply", 85);
                dtr0 := 3;
            };
    w5:     while (j <= Len(sc.wdata)) {
                if (row[3] + j - 1 # dtr0) {
                    dtr0 := row[3] + j - 1;
    w6:             Yield("DTR0", dtr0);
                };
    w7:         if (sc.ignore) {
                    Yield("WriteMemoryLocationNoReply", sc.wdata[j]);
                } else {
                    Yield("WriteMemoryLocation", sc.wdata[j]);
                    if (resp[1] = "none") { exc := "MemoryLocationNotWriteable"; goto Done; }
                    else if (resp[1] = "err") { exc := "ResponseError"; goto Done; }
                    else if (resp[2] # sc.wdata[j]) { exc := "ResponseError"; goto Done; };
                };
    w8:         dtr0 := Min(dtr0 + 1, 255);
                j := j + 1;
            };
            if (~sc.ignore) {
    w9:         Yield("QueryContentDTR0", 0);
                if (resp[1] # "val") { exc := "ResponseError"; goto Done; }
                else if (resp[2] # dtr0) { exc := "MemoryWriteFailure"; goto Done; };
            };
    w10:    if (unlock) {
                Yield("DTR0", 2);
    w11:        Yield("WriteMemoryLocationNoReply", 255);
            };
    w12:    exc := "none";
        } else {
            \* ---- MemoryBank.read_all --------------------------------------------------------
            \* LastAddress.read(addr): DTR1, DTR0(0), READ
    a1:     Yield("DTR1", BankNumber(sc.bank));
    a2:     Yield("DTR0", 0);
    a3:     Yield("ReadMemoryLocation", 0);
            if (resp[1] = "none") { exc := "MemoryLocationNotImplemented"; goto Done; }
            else if (resp[1] = "err") { exc := "ResponseError"; goto Done; }
            else { last := resp[2]; dtr0 := 1; };
    a4:     if (sc.latch /\ Props(sc.bank).latch) {
                Yield("EnableWriteMemory", 0);
    a5:         Yield("DTR0", 2);
    a6:         Yield("WriteMemoryLocationNoReply", 170);
                dtr0 := 3;
            };
    a7:     j := IF BankNumber(sc.bank) = 0 THEN 2 ELSE 3;
            raw := [k \in 1..j |-> -1];
            if (dtr0 # j) {
                Yield("DTR0", j);
            };
    a8:     while (j <= last) {
                Yield("ReadMemoryLocation", 0);
                if (resp[1] = "err") {
                    \* a failed read does not leave the bank latched
                    if (UnlatchOnError /\ sc.latch /\ Props(sc.bank).latch) { goto e1; } else { exc := "ResponseError"; goto Done; }
                }
                else { raw := Append(raw, IF resp[1] = "val" THEN resp[2] ELSE -1); j := j + 1; };
            };
            if (sc.latch /\ Props(sc.bank).latch) {
    a9:         Yield("EnableWriteMemory", 0);
    a10:        Yield("DTR0", 2);
    a11:        Yield("WriteMemoryLocationNoReply", 255);
            };
    a12:    exc := "none"; goto Done;
    e1:     Yield("EnableWriteMemory", 0);
    e2:     Yield("DTR0", 2);
    e3:     Yield("WriteMemoryLocationNoReply", 255);
            exc := "ResponseError";
        }
  }
} *)
\* BEGIN TRANSLATION
VARIABLES pc, sc, u, row, resp, log, raw, exc, dtr0, j, last, unlock

vars == << pc, sc, u, row, resp, log, raw, exc, dtr0, j, last, unlock >>

Init == (* Global variables *)
        /\ sc = (CHOOSE s \in Scenarios : TRUE)
        /\ u = [dummy |-> 0]
        /\ row = <<>>
        /\ resp = <<"none", 0>>
        /\ log = <<>>
        /\ raw = <<>>
        /\ exc = "running"
        /\ dtr0 = -1
        /\ j = 1
        /\ last = 0
        /\ unlock = FALSE
        /\ pc = "pick"

pick == /\ pc = "pick"
        /\ \E s \in Scenarios:
             /\ sc' = s
             /\ row' = MapRow(s.bank, s.value)
             /\ u' = [kind |-> s.kind, bank |-> s.bank, mem |-> s.mem, snap |-> <<>>, dtr0 |-> 0, dtr1 |-> 0, wes |-> FALSE,
                      unlock |-> s.unlock, nobble |-> s.nobble, echoflip |-> s.echoflip, fault |-> s.fault, nans |-> 0]
        /\ pc' = "s0"
        /\ UNCHANGED << resp, log, raw, exc, dtr0, j, last, unlock >>

s0 == /\ pc = "s0"
      /\ IF sc.op = "read"
            THEN /\ pc' = "r1"
                 /\ exc' = exc
            ELSE /\ IF sc.op = "write"
                       THEN /\ IF ~WritableRow(row)
                                  THEN /\ exc' = "MemoryValueNotWriteable"
                                       /\ pc' = "Done"
                                  ELSE /\ pc' = "w0"
                                       /\ exc' = exc
                       ELSE /\ pc' = "a1"
                            /\ exc' = exc
      /\ UNCHANGED << sc, u, row, resp, log, raw, dtr0, j, last, unlock >>

r1 == /\ pc = "r1"
      /\ LET f == Frame(sc.kind, "DTR1", (BankNumber(sc.bank))) IN
           LET s == Step(u, FLen(sc.kind), f) IN
             /\ u' = s.u
             /\ resp' = s.resp
             /\ log' = Append(log, f)
      /\ pc' = "r2"
      /\ UNCHANGED << sc, row, raw, exc, dtr0, j, last, unlock >>

r2 == /\ pc = "r2"
      /\ IF j <= row[4]
            THEN /\ IF row[3] + j - 1 # dtr0
                       THEN /\ dtr0' = row[3] + j - 1
                            /\ pc' = "r3"
                       ELSE /\ pc' = "r4"
                            /\ dtr0' = dtr0
                 /\ exc' = exc
            ELSE /\ exc' = "none"
                 /\ pc' = "Done"
                 /\ dtr0' = dtr0
      /\ UNCHANGED << sc, u, row, resp, log, raw, j, last, unlock >>

r4 == /\ pc = "r4"
      /\ LET f == Frame(sc.kind, "ReadMemoryLocation", 0) IN
           LET s == Step(u, FLen(sc.kind), f) IN
             /\ u' = s.u
             /\ resp' = s.resp
             /\ log' = Append(log, f)
      /\ dtr0' = Min(dtr0 + 1, 255)
      /\ IF resp'[1] = "none"
            THEN /\ exc' = "MemoryLocationNotImplemented"
                 /\ pc' = "Done"
                 /\ UNCHANGED << raw, j >>
            ELSE /\ IF resp'[1] = "err"
                       THEN /\ exc' = "ResponseError"
                            /\ pc' = "Done"
                            /\ UNCHANGED << raw, j >>
                       ELSE /\ raw' = Append(raw, resp'[2])
                            /\ j' = j + 1
                            /\ pc' = "r2"
                            /\ exc' = exc
      /\ UNCHANGED << sc, row, last, unlock >>

r3 == /\ pc = "r3"
      /\ LET f == Frame(sc.kind, "DTR0", dtr0) IN
           LET s == Step(u, FLen(sc.kind), f) IN
             /\ u' = s.u
             /\ resp' = s.resp
             /\ log' = Append(log, f)
      /\ pc' = "r4"
      /\ UNCHANGED << sc, row, raw, exc, dtr0, j, last, unlock >>

w0 == /\ pc = "w0"
      /\ unlock' = LockableRow(row)
      /\ pc' = "w1"
      /\ UNCHANGED << sc, u, row, resp, log, raw, exc, dtr0, j, last >>

w1 == /\ pc = "w1"
      /\ LET f == Frame(sc.kind, "DTR1", (BankNumber(sc.bank))) IN
           LET s == Step(u, FLen(sc.kind), f) IN
             /\ u' = s.u
             /\ resp' = s.resp
             /\ log' = Append(log, f)
      /\ pc' = "w2"
      /\ UNCHANGED << sc, row, raw, exc, dtr0, j, last, unlock >>

w2 == /\ pc = "w2"
      /\ LET f == Frame(sc.kind, "EnableWriteMemory", 0) IN
           LET s == Step(u, FLen(sc.kind), f) IN
             /\ u' = s.u
             /\ resp' = s.resp
             /\ log' = Append(log, f)
      /\ IF unlock
            THEN /\ pc' = "w3"
            ELSE /\ pc' = "w5"
      /\ UNCHANGED << sc, row, raw, exc, dtr0, j, last, unlock >>

w3 == /\ pc = "w3"
      /\ LET f == Frame(sc.kind, "DTR0", 2) IN
           LET s == Step(u, FLen(sc.kind), f) IN
             /\ u' = s.u
             /\ resp' = s.resp
             /\ log' = Append(log, f)
      /\ pc' = "w4"
      /\ UNCHANGED << sc, row, raw, exc, dtr0, j, last, unlock >>

w4 == /\ pc = "w4"
      /\ LET f == Frame(sc.kind, "WriteMemoryLocationNoReply", 85) IN
           LET s == Step(u, FLen(sc.kind), f) IN
             /\ u' = s.u
             /\ resp' = s.resp
             /\ log' = Append(log, f)
      /\ dtr0' = 3
      /\ pc' = "w5"
      /\ UNCHANGED << sc, row, raw, exc, j, last, unlock >>

w5 == /\ pc = "w5"
      /\ IF j <= Len(sc.wdata)
            THEN /\ IF row[3] + j - 1 # dtr0
                       THEN /\ dtr0' = row[3] + j - 1
                            /\ pc' = "w6"
                       ELSE /\ pc' = "w7"
                            /\ dtr0' = dtr0
            ELSE /\ IF ~sc.ignore
                       THEN /\ pc' = "w9"
                       ELSE /\ pc' = "w10"
                 /\ dtr0' = dtr0
      /\ UNCHANGED << sc, u, row, resp, log, raw, exc, j, last, unlock >>

w7 == /\ pc = "w7"
      /\ IF sc.ignore
            THEN /\ LET f == Frame(sc.kind, "WriteMemoryLocationNoReply", (sc.wdata[j])) IN
                      LET s == Step(u, FLen(sc.kind), f) IN
                        /\ u' = s.u
                        /\ resp' = s.resp
                        /\ log' = Append(log, f)
                 /\ pc' = "w8"
                 /\ exc' = exc
            ELSE /\ LET f == Frame(sc.kind, "WriteMemoryLocation", (sc.wdata[j])) IN
                      LET s == Step(u, FLen(sc.kind), f) IN
                        /\ u' = s.u
                        /\ resp' = s.resp
                        /\ log' = Append(log, f)
                 /\ IF resp'[1] = "none"
                       THEN /\ exc' = "MemoryLocationNotWriteable"
                            /\ pc' = "Done"
                       ELSE /\ IF resp'[1] = "err"
                                  THEN /\ exc' = "ResponseError"
                                       /\ pc' = "Done"
                                  ELSE /\ IF resp'[2] # sc.wdata[j]
                                             THEN /\ exc' = "ResponseError"
                                                  /\ pc' = "Done"
                                             ELSE /\ pc' = "w8"
                                                  /\ exc' = exc
      /\ UNCHANGED << sc, row, raw, dtr0, j, last, unlock >>

w8 == /\ pc = "w8"
      /\ dtr0' = Min(dtr0 + 1, 255)
      /\ j' = j + 1
      /\ pc' = "w5"
      /\ UNCHANGED << sc, u, row, resp, log, raw, exc, last, unlock >>

w6 == /\ pc = "w6"
      /\ LET f == Frame(sc.kind, "DTR0", dtr0) IN
           LET s == Step(u, FLen(sc.kind), f) IN
             /\ u' = s.u
             /\ resp' = s.resp
             /\ log' = Append(log, f)
      /\ pc' = "w7"
      /\ UNCHANGED << sc, row, raw, exc, dtr0, j, last, unlock >>

w9 == /\ pc = "w9"
      /\ LET f == Frame(sc.kind, "QueryContentDTR0", 0) IN
           LET s == Step(u, FLen(sc.kind), f) IN
             /\ u' = s.u
             /\ resp' = s.resp
             /\ log' = Append(log, f)
      /\ IF resp'[1] # "val"
            THEN /\ exc' = "ResponseError"
                 /\ pc' = "Done"
            ELSE /\ IF resp'[2] # dtr0
                       THEN /\ exc' = "MemoryWriteFailure"
                            /\ pc' = "Done"
                       ELSE /\ pc' = "w10"
                            /\ exc' = exc
      /\ UNCHANGED << sc, row, raw, dtr0, j, last, unlock >>

w10 == /\ pc = "w10"
       /\ IF unlock
             THEN /\ LET f == Frame(sc.kind, "DTR0", 2) IN
                       LET s == Step(u, FLen(sc.kind), f) IN
                         /\ u' = s.u
                         /\ resp' = s.resp
                         /\ log' = Append(log, f)
                  /\ pc' = "w11"
             ELSE /\ pc' = "w12"
                  /\ UNCHANGED << u, resp, log >>
       /\ UNCHANGED << sc, row, raw, exc, dtr0, j, last, unlock >>

w11 == /\ pc = "w11"
       /\ LET f == Frame(sc.kind, "WriteMemoryLocationNoReply", 255) IN
            LET s == Step(u, FLen(sc.kind), f) IN
              /\ u' = s.u
              /\ resp' = s.resp
              /\ log' = Append(log, f)
       /\ pc' = "w12"
       /\ UNCHANGED << sc, row, raw, exc, dtr0, j, last, unlock >>

w12 == /\ pc = "w12"
       /\ exc' = "none"
       /\ pc' = "Done"
       /\ UNCHANGED << sc, u, row, resp, log, raw, dtr0, j, last, unlock >>

a1 == /\ pc = "a1"
      /\ LET f == Frame(sc.kind, "DTR1", (BankNumber(sc.bank))) IN
           LET s == Step(u, FLen(sc.kind), f) IN
             /\ u' = s.u
             /\ resp' = s.resp
             /\ log' = Append(log, f)
      /\ pc' = "a2"
      /\ UNCHANGED << sc, row, raw, exc, dtr0, j, last, unlock >>

a2 == /\ pc = "a2"
      /\ LET f == Frame(sc.kind, "DTR0", 0) IN
           LET s == Step(u, FLen(sc.kind), f) IN
             /\ u' = s.u
             /\ resp' = s.resp
             /\ log' = Append(log, f)
      /\ pc' = "a3"
      /\ UNCHANGED << sc, row, raw, exc, dtr0, j, last, unlock >>

a3 == /\ pc = "a3"
      /\ LET f == Frame(sc.kind, "ReadMemoryLocation", 0) IN
           LET s == Step(u, FLen(sc.kind), f) IN
             /\ u' = s.u
             /\ resp' = s.resp
             /\ log' = Append(log, f)
      /\ IF resp'[1] = "none"
            THEN /\ exc' = "MemoryLocationNotImplemented"
                 /\ pc' = "Done"
                 /\ UNCHANGED << dtr0, last >>
            ELSE /\ IF resp'[1] = "err"
                       THEN /\ exc' = "ResponseError"
                            /\ pc' = "Done"
                            /\ UNCHANGED << dtr0, last >>
                       ELSE /\ last' = resp'[2]
                            /\ dtr0' = 1
                            /\ pc' = "a4"
                            /\ exc' = exc
      /\ UNCHANGED << sc, row, raw, j, unlock >>

a4 == /\ pc = "a4"
      /\ IF sc.latch /\ Props(sc.bank).latch
            THEN /\ LET f == Frame(sc.kind, "EnableWriteMemory", 0) IN
                      LET s == Step(u, FLen(sc.kind), f) IN
                        /\ u' = s.u
                        /\ resp' = s.resp
                        /\ log' = Append(log, f)
                 /\ pc' = "a5"
            ELSE /\ pc' = "a7"
                 /\ UNCHANGED << u, resp, log >>
      /\ UNCHANGED << sc, row, raw, exc, dtr0, j, last, unlock >>

a5 == /\ pc = "a5"
      /\ LET f == Frame(sc.kind, "DTR0", 2) IN
           LET s == Step(u, FLen(sc.kind), f) IN
             /\ u' = s.u
             /\ resp' = s.resp
             /\ log' = Append(log, f)
      /\ pc' = "a6"
      /\ UNCHANGED << sc, row, raw, exc, dtr0, j, last, unlock >>

a6 == /\ pc = "a6"
      /\ LET f == Frame(sc.kind, "WriteMemoryLocationNoReply", 170) IN
           LET s == Step(u, FLen(sc.kind), f) IN
             /\ u' = s.u
             /\ resp' = s.resp
             /\ log' = Append(log, f)
      /\ dtr0' = 3
      /\ pc' = "a7"
      /\ UNCHANGED << sc, row, raw, exc, j, last, unlock >>

a7 == /\ pc = "a7"
      /\ j' = (IF BankNumber(sc.bank) = 0 THEN 2 ELSE 3)
      /\ raw' = [k \in 1..j' |-> -1]
      /\ IF dtr0 # j'
            THEN /\ LET f == Frame(sc.kind, "DTR0", j') IN
                      LET s == Step(u, FLen(sc.kind), f) IN
                        /\ u' = s.u
                        /\ resp' = s.resp
                        /\ log' = Append(log, f)
            ELSE /\ TRUE
                 /\ UNCHANGED << u, resp, log >>
      /\ pc' = "a8"
      /\ UNCHANGED << sc, row, exc, dtr0, last, unlock >>

a8 == /\ pc = "a8"
      /\ IF j <= last
            THEN /\ LET f == Frame(sc.kind, "ReadMemoryLocation", 0) IN
                      LET s == Step(u, FLen(sc.kind), f) IN
                        /\ u' = s.u
                        /\ resp' = s.resp
                        /\ log' = Append(log, f)
                 /\ IF resp'[1] = "err"
                       THEN /\ IF UnlatchOnError /\ sc.latch /\ Props(sc.bank).latch
                                  THEN /\ pc' = "e1"
                                       /\ exc' = exc
                                  ELSE /\ exc' = "ResponseError"
                                       /\ pc' = "Done"
                            /\ UNCHANGED << raw, j >>
                       ELSE /\ raw' = Append(raw, IF resp'[1] = "val" THEN resp'[2] ELSE -1)
                            /\ j' = j + 1
                            /\ pc' = "a8"
                            /\ exc' = exc
            ELSE /\ IF sc.latch /\ Props(sc.bank).latch
                       THEN /\ pc' = "a9"
                       ELSE /\ pc' = "a12"
                 /\ UNCHANGED << u, resp, log, raw, exc, j >>
      /\ UNCHANGED << sc, row, dtr0, last, unlock >>

a9 == /\ pc = "a9"
      /\ LET f == Frame(sc.kind, "EnableWriteMemory", 0) IN
           LET s == Step(u, FLen(sc.kind), f) IN
             /\ u' = s.u
             /\ resp' = s.resp
             /\ log' = Append(log, f)
      /\ pc' = "a10"
      /\ UNCHANGED << sc, row, raw, exc, dtr0, j, last, unlock >>

a10 == /\ pc = "a10"
       /\ LET f == Frame(sc.kind, "DTR0", 2) IN
            LET s == Step(u, FLen(sc.kind), f) IN
              /\ u' = s.u
              /\ resp' = s.resp
              /\ log' = Append(log, f)
       /\ pc' = "a11"
       /\ UNCHANGED << sc, row, raw, exc, dtr0, j, last, unlock >>

a11 == /\ pc = "a11"
       /\ LET f == Frame(sc.kind, "WriteMemoryLocationNoReply", 255) IN
            LET s == Step(u, FLen(sc.kind), f) IN
              /\ u' = s.u
              /\ resp' = s.resp
              /\ log' = Append(log, f)
       /\ pc' = "a12"
       /\ UNCHANGED << sc, row, raw, exc, dtr0, j, last, unlock >>

a12 == /\ pc = "a12"
       /\ exc' = "none"
       /\ pc' = "Done"
       /\ UNCHANGED << sc, u, row, resp, log, raw, dtr0, j, last, unlock >>

e1 == /\ pc = "e1"
      /\ LET f == Frame(sc.kind, "EnableWriteMemory", 0) IN
           LET s == Step(u, FLen(sc.kind), f) IN
             /\ u' = s.u
             /\ resp' = s.resp
             /\ log' = Append(log, f)
      /\ pc' = "e2"
      /\ UNCHANGED << sc, row, raw, exc, dtr0, j, last, unlock >>

e2 == /\ pc = "e2"
      /\ LET f == Frame(sc.kind, "DTR0", 2) IN
           LET s == Step(u, FLen(sc.kind), f) IN
             /\ u' = s.u
             /\ resp' = s.resp
             /\ log' = Append(log, f)
      /\ pc' = "e3"
      /\ UNCHANGED << sc, row, raw, exc, dtr0, j, last, unlock >>

e3 == /\ pc = "e3"
      /\ LET f == Frame(sc.kind, "WriteMemoryLocationNoReply", 255) IN
           LET s == Step(u, FLen(sc.kind), f) IN
             /\ u' = s.u
             /\ resp' = s.resp
             /\ log' = Append(log, f)
      /\ exc' = "ResponseError"
      /\ pc' = "Done"
      /\ UNCHANGED << sc, row, raw, dtr0, j, last, unlock >>

(* Allow infinite stuttering to prevent deadlock on termination. *)
Terminating == pc = "Done" /\ UNCHANGED vars

Next == pick \/ s0 \/ r1 \/ r2 \/ r4 \/ r3 \/ w0 \/ w1 \/ w2 \/ w3 \/ w4
           \/ w5 \/ w7 \/ w8 \/ w6 \/ w9 \/ w10 \/ w11 \/ w12 \/ a1 \/ a2 \/ a3
           \/ a4 \/ a5 \/ a6 \/ a7 \/ a8 \/ a9 \/ a10 \/ a11 \/ a12 \/ e1 \/ e2
           \/ e3
           \/ Terminating

Spec == Init /\ [][Next]_vars

Termination == <>(pc = "Done")

\* END TRANSLATION

\* ---- properties (evaluated when the sequence has ended) --------------------------------------------------------------
Ended == pc = "Done"
M0 == sc.mem
Fin == u.mem
Readable0(l) == l < 255 /\ M0[1] >= 0 /\ l <= M0[1] /\ M0[l + 1] >= 0
FaultHit == sc.fault.kind # "none" /\ u.nans >= sc.fault.at         \* the faulted answer was given
SameExceptLockByte == \A l \in 0..254 : l # 2 => Fin[l + 1] = M0[l + 1]

\* C09, one value: the bytes stored at its locations, NotImplemented exactly for an unreadable location, ResponseError
\* on a garbled answer, memory untouched
ReadOK ==
    (Ended /\ sc.op = "read") =>
        /\ Fin = M0
        /\ (sc.fault.kind = "none" =>
              IF \A l \in LocsOf(row) : Readable0(l)
              THEN exc = "none" /\ raw = [k \in 1..row[4] |-> M0[row[3] + k]]
              ELSE exc = "MemoryLocationNotImplemented")
        /\ (exc = "none" => raw = [k \in 1..row[4] |-> M0[row[3] + k]])
        /\ (FaultHit /\ sc.fault.kind \in {"err", "errsame"} => exc = "ResponseError")
        /\ exc \in {"none", "MemoryLocationNotImplemented", "ResponseError"}

\* C09, whole bank: every location up to the last accessible one as stored (None where unimplemented), memory untouched,
\* not left latched
ReadAllOK ==
    (Ended /\ sc.op = "readall") =>
        /\ SameExceptLockByte
        /\ (exc = "none" /\ sc.fault.kind = "none" =>
              /\ Len(raw) = M0[1] + 1
              /\ \A l \in (IF BankNumber(sc.bank) = 0 THEN 2 ELSE 3)..M0[1] : raw[l + 1] = (IF Readable0(l) THEN M0[l + 1] ELSE -1))
        /\ (FaultHit /\ sc.fault.kind \in {"err", "errsame"} => exc = "ResponseError")

\* ... whatever the outcome of the read
NotLeftLatched == (Ended /\ sc.op = "readall") => ~(Props(sc.bank).latch /\ Fin[3] = 170)

\* C10: stored exactly or failed loudly
Stored == /\ \A k \in 1..Len(sc.wdata) : Fin[row[3] + k] = sc.wdata[k]
          /\ \A l \in 0..254 : (l # 2 /\ (l < row[3] \/ l >= row[3] + Len(sc.wdata))) => Fin[l + 1] = M0[l + 1]
UnitFaulty == sc.nobble \/ sc.echoflip \/ (LockableRow(row) /\ sc.unlock # 85) \/ FaultHit
              \/ \E k \in 1..Len(sc.wdata) : ~Readable0(row[3] + k - 1)
WriteOK ==
    (Ended /\ sc.op = "write") =>
        /\ (~WritableRow(row) => exc = "MemoryValueNotWriteable" /\ log = <<>>)
        /\ (exc = "none" /\ ~sc.ignore => Stored)
        /\ (exc = "none" /\ LockableRow(row) => Fin[3] # 85)           \* locked again, feedback ignored or not
        /\ (exc = "none" /\ sc.ignore /\ ~UnitFaulty => Stored)
        /\ (WritableRow(row) /\ ~sc.ignore /\ UnitFaulty => exc # "none")
        /\ (WritableRow(row) /\ ~UnitFaulty => exc = "none")
        /\ exc \in {"none", "MemoryValueNotWriteable", "MemoryLocationNotWriteable", "ResponseError", "MemoryWriteFailure"}

Bounded == Len(log) <= 600

\* every terminal state, for the replay on the real sequences (spec -> code)
Export == Ended => PrintT(<<"SCEN", sc, exc, log, IF sc.op = "write" THEN <<>> ELSE raw, Fin>>)
=============================================================================
