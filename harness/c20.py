"""C20 -- observed bus traffic is reported once, decoded in context, paired up.

Spec:    spec/BusWatch.tla (timed transducer: device-type memory of exactly one frame, query/answer pairing with
         200 ms timeout, send-twice repeat detection), BusWatchJudge.tla
Binding: traffic histories (other masters' transactions with gaps shorter / longer than the timeout, interleaved
         with the driver's own sends, subscribers joining and leaving) are replayed on the real Tridonic driver
         (bus_traffic callbacks) and on the LUBA / SCI drivers (DistributorQueue children) under the virtual event
         loop; TLC runs the transducer over the same report history and compares what every subscriber received.
"""
import random

from . import core, cmdrec
from . import drivers


def us(t):
    return int(round(t * 1e6))


def frames():
    """representative frames by role (built with the library's constructors only to get realistic bit patterns)"""
    mk = drivers.make_command
    return {
        "plain": [mk("dapc", 3).frame.as_integer, mk("off", 4).frame.as_integer, 0xA300 | 0x21],
        "query": [mk("q16", 5).frame.as_integer, mk("yn16", 6).frame.as_integer, mk("st16", 7).frame.as_integer],
        "config": [mk("cfg", 8).frame.as_integer, 0xA500, 0xA700],
        "edt6": 0xC106, "edt1": 0xC101, "edt9": 0xC109,
        "ext6q": mk("qdt6", 9).frame.as_integer, "ext6c": mk("cfgdt6", 10).frame.as_integer,
        "ext1q": mk("qdt1", 11).frame.as_integer,
        "unknown16": [0xA000, 0xBF00, 0x01E0 | 0x0100],
        "q24": mk("q24", 12).frame.as_integer, "c24": mk("c24", 13).frame.as_integer, "i24": mk("i24", 14).frame.as_integer,
        "ev24": [0x000401 | (5 << 17), 0x800000 | (3 << 17) | 0x8000 | (2 << 10) | 5, 0xC08000 | 7],
    }


def history(rng, nt, serial=False):
    """list of [time, kind, value, bits] observed items"""
    F = frames()
    t = 0.05
    obs = []

    def gap(long=None):
        nonlocal t
        if long is None:
            long = rng.random() < 0.4
        t += 0.3 if long else 0.09      # two or three short gaps never add up to exactly the 200 ms timeout
        t = round(t + rng.choice([0.0, 0.003, 0.011]), 6)

    for _ in range(nt):
        kind = rng.choice(["plain", "qa", "qsilent", "qerr", "cfg2", "cfg1", "cfgint", "cfgback", "edtext", "edtplain",
                           "edtgap", "q24", "c24", "ev24", "unknown", "noframe", "strayback", "edtwrong", "edt24", "edtback", "cfgx24"])
        if kind == "plain":
            obs.append([t, "fwd", rng.choice(F["plain"]), 16])
        elif kind == "qa":
            obs.append([t, "fwd", rng.choice(F["query"]), 16]); gap(False)
            obs.append([t, "back", rng.randrange(256), 8])
        elif kind == "qsilent":
            obs.append([t, "fwd", rng.choice(F["query"]), 16])
            if rng.random() < 0.5:
                gap(True)
        elif kind == "qerr":
            obs.append([t, "fwd", rng.choice(F["query"]), 16]); gap(False)
            obs.append([t, "err", 0, 8])
        elif kind == "cfg2":
            f = rng.choice(F["config"])
            obs.append([t, "fwd", f, 16]); gap(False)
            obs.append([t, "fwd", f, 16])
        elif kind == "cfgx24":
            f = rng.choice(F["config"])
            obs.append([t, "fwd", f, 16]); gap(False)
            obs.append([t, "fwd", f, 24])             # same payload bits, other frame length: not the repeat
        elif kind == "cfg1":
            obs.append([t, "fwd", rng.choice(F["config"]), 16]); gap(True)
        elif kind == "cfgint":
            obs.append([t, "fwd", F["config"][0], 16]); gap(False)
            obs.append([t, "fwd", rng.choice(F["plain"] + [F["config"][1]]), 16])
        elif kind == "cfgback":
            obs.append([t, "fwd", rng.choice(F["config"]), 16]); gap(False)
            obs.append([t, "back", 0xFF, 8])
        elif kind == "edtext":
            obs.append([t, "fwd", F["edt6"], 16]); gap(False)
            obs.append([t, "fwd", rng.choice([F["ext6q"], F["ext6c"]]), 16]); gap(False)
            obs.append([t, "back", rng.randrange(256), 8])
        elif kind == "edtwrong":
            obs.append([t, "fwd", rng.choice([F["edt1"], F["edt9"]]), 16]); gap(False)
            obs.append([t, "fwd", F["ext6q"], 16])
        elif kind == "edtplain":
            obs.append([t, "fwd", F["edt6"], 16]); gap(False)
            obs.append([t, "fwd", rng.choice(F["plain"]), 16]); gap(False)
            obs.append([t, "fwd", F["ext6q"], 16])           # device type no longer applies
        elif kind == "edt24":
            # any frame after ENABLE DEVICE TYPE uses it up, also a 24-bit one or an event
            obs.append([t, "fwd", F["edt6"], 16]); gap(False)
            obs.append([t, "fwd", rng.choice([F["c24"], F["q24"]] + F["ev24"]), 24]); gap(rng.random() < 0.5)
            obs.append([t, "fwd", F["ext6q"], 16])
        elif kind == "edtback":
            obs.append([t, "fwd", F["edt6"], 16]); gap(False)
            obs.append([t, "back", rng.randrange(256), 8]); gap(False)
            obs.append([t, "fwd", F["ext6q"], 16])
        elif kind == "edtgap":
            obs.append([t, "fwd", F["edt6"], 16]); gap(True)
            obs.append([t, "fwd", F["ext6q"], 16]); gap(False)   # memory lasts one frame, however long the pause
            obs.append([t, "back", 5, 8])
        elif kind == "q24":
            obs.append([t, "fwd", rng.choice([F["q24"], F["i24"]]), 24]); gap(False)
            if rng.random() < 0.6:
                obs.append([t, "back", rng.randrange(256), 8])
        elif kind == "c24":
            obs.append([t, "fwd", F["c24"], 24]); gap(False)
            if rng.random() < 0.6:
                obs.append([t, "fwd", F["c24"], 24])
        elif kind == "ev24":
            obs.append([t, "fwd", rng.choice(F["ev24"]), 24])
        elif kind == "unknown":
            obs.append([t, "fwd", rng.choice(F["unknown16"]), 16])
        elif kind == "noframe":
            obs.append([t, "none", 0, 8])
        elif kind == "strayback":
            obs.append([t, "back", rng.randrange(256), 8])
        gap()
    if serial:
        obs = [o for o in obs if o[1] in ("fwd", "back")]
    return obs, t


def scenario(rng, drv, k, tier):
    nt = rng.randrange(1, 9)
    obs, tend = history(rng, nt, serial=drv != "tridonic")
    nsub = rng.randrange(0, 4) if k % 5 else 3
    subs = []
    subinfo = []
    for si in range(nsub):
        join = 0.0 if rng.random() < 0.5 else round(rng.uniform(0, tend) // 0.001 * 0.001 + 0.000537, 6)
        leave = None if rng.random() < 0.5 else round(rng.uniform(join, tend + 0.5) // 0.001 * 0.001 + 0.000771, 6)
        name = "S%d" % si
        subs.append([join, "join", name])
        if leave is not None and leave > join:
            subs.append([leave, "leave", name])
        subinfo.append([name, join, leave if leave is not None and leave > join else 1e6])
    if drv in ("tridonic", "hasseb") and k % 4 == 1 and nsub >= 1:
        # one more subscriber, registered before or between the others, whose callback raises on every report
        at = rng.choice([0.0, 0.0, round(rng.uniform(0, tend) // 0.001 * 0.001 + 0.000411, 6)])
        subs.append([at, "join", "X9"])
        subinfo.append(["X9", at, 1e6])
    if drv in ("tridonic", "hasseb") and k % 4 == 2:
        # two more subscriptions, made with one and the same callable, for the whole run
        for nm in ("D1", "D2"):
            subs.append([0.0, "join", nm])
            subinfo.append([nm, 0.0, 1e6])
    callers = []
    if drv == "tridonic" and rng.random() < 0.5:
        callers.append({"name": "A", "mode": "send", "unit": [[rng.choice(["q16", "cfg", "dapc", "qdt6"]), 20]],
                        "start": {"time": round(rng.uniform(0, tend) // 0.001 * 0.001 + 0.000313, 6)},
                        })
    if drv == "tridonic":
        q = rng.random()
        if q < 0.3:
            # the firmware quirk: a whole exchange of another master reported in response mode, sequence number not outstanding
            obs = [[t, "q" + kind, v, b] for t, kind, v, b in obs]
        if callers and rng.random() < 0.3:
            # the caller gives up in mid-transaction: the rest of its transaction is still bus traffic
            callers[0]["cancel"] = {"reports": rng.randrange(1, 4)}
    return {"driver": drv, "observe": obs, "subscribers": sorted(subs), "callers": callers, "post_idle": round(tend + 1.0, 6), "idle": round(tend + 1.0, 6),
            "keep_reports": 1, "subinfo": subinfo, "outcomes": [rng.choice([["val", 9], ["none", 0], ["err", 0]])], "tag": "%s:%d" % (drv, k)}


def query_sweep(tier, seed):
    """every query class of the library, seen on the bus and answered with values from all over the byte range (and a
    framing error), a few queries per history, closed by an ordinary frame: every one is reported, whatever its answer"""
    from dali.command import Command
    from dali import address
    core.import_all_commands()
    rng = random.Random(seed * 13 + 1)
    qs = []
    for c in sorted(Command._commands, key=lambda c_: (c_.__module__, c_.__name__)):
        if getattr(c, "response", None) is None:
            continue
        for args in ((address.GearShort(7),), (address.DeviceShort(7),), (address.DeviceShort(7), address.InstanceNumber(2)),
                     (), (9,), (address.GearShort(7), 3), (address.DeviceShort(7), 3)):
            try:
                o = c(*args)
            except Exception:
                continue
            dt = o.devicetype if isinstance(o.devicetype, int) else 0
            if len(o.frame) in (16, 24):
                qs.append((len(o.frame), o.frame.as_integer, dt))
            break
    vals = [0, 1, 4, 5, 6, 0x7F, 0x80, 0xFE, 0xFF, "err"]
    scs = []
    F = frames()
    for rep in range(3 if tier == "quick" else len(vals)):
        for k0 in range(0, len(qs), 5):
            t, obs = 0.05, []
            for j, (bits, f, dt) in enumerate(qs[k0:k0 + 5]):
                if dt:
                    obs.append([t, "fwd", 0xC100 | dt, 16]); t = round(t + 0.05, 6)
                obs.append([t, "fwd", f, bits]); t = round(t + 0.02, 6)
                v = vals[(k0 + j + 3 * rep + rng.randrange(2)) % len(vals)]
                obs.append([t, "err", 0, 8] if v == "err" else [t, "back", v, 8]); t = round(t + 0.31, 6)
            obs.append([t, "fwd", F["plain"][0], 16]); t = round(t + 0.31, 6)
            drv = "tridonic" if (k0 // 5 + rep) % 4 else ("luba" if k0 % 2 else "sci")
            if drv != "tridonic":
                obs = [o for o in obs if o[1] in ("fwd", "back")]
            scs.append({"driver": drv, "observe": obs, "subscribers": [[0.0, "join", "S0"]], "callers": [], "post_idle": round(t + 1.0, 6),
                        "idle": round(t + 1.0, 6), "keep_reports": 1, "subinfo": [["S0", 0.0, 1e6]], "outcomes": [["none", 0]],
                        "tag": "qsweep"})
    return scs


def systematic(tier):
    """every history of up to L reports over an alphabet of report kinds x {short gap, long gap}: small-scope exhaustive
    for the Tridonic watcher (L = 3 quick: 9 k histories, L = 4 thorough: 190 k) and, forward frames only, for SCI / LUBA"""
    import itertools
    F = frames()
    alpha = [("fwd", F["plain"][0], 16), ("fwd", F["query"][0], 16), ("fwd", F["config"][0], 16), ("fwd", F["config"][1], 16),
             ("fwd", F["edt6"], 16), ("fwd", F["ext6q"], 16), ("fwd", F["q24"], 24), ("fwd", F["ev24"][0], 24),
             ("back", 0x5A, 8), ("err", 0, 8), ("none", 0, 8),
             # a 24-bit frame whose report payload equals the zero-padded 16-bit configuration command
             ("fwd", F["config"][0], 24)]
    L = 3 if tier == "quick" else 4
    out = []
    for ln in range(1, L + 1):
        for items in itertools.product(range(len(alpha)), repeat=ln):
            for gaps in itertools.product((0.09, 0.31), repeat=ln - 1):
                t, obs = 0.05, []
                for j, ix in enumerate(items):
                    k, v, b = alpha[ix]
                    obs.append([round(t, 6), k, v, b])
                    if j < ln - 1:
                        t += gaps[j]
                tend = round(t + 0.5, 6)
                for drv in ("tridonic",) + (("sci",) if ln == L and all(alpha[ix][0] in ("fwd", "back") for ix in items) else ()):
                    o = obs if drv == "tridonic" else [x for x in obs if x[1] in ("fwd", "back")]
                    out.append({"driver": drv, "observe": o, "subscribers": [[0.0, "join", "S0"]], "callers": [],
                                "post_idle": round(tend + 0.6, 6), "idle": round(tend + 0.6, 6), "keep_reports": 1,
                                "subinfo": [["S0", 0.0, 1e6]], "outcomes": [["val", 9]], "tag": "sys"})
    return out


def parse_reports(r, sc):
    """the history of frames the gateway reported, as the transducer's inputs"""
    inputs = []
    if sc["driver"] == "tridonic":
        for t, rep in r["reports"]:
            mode, rtype = rep[0], rep[1]
            if mode not in (0x11, 0x12):
                continue
            if rtype == 0x73:
                inputs.append([us(t), "fwd", 16, int.from_bytes(bytes(rep[2:6]), "big")])
            elif rtype == 0x76:
                inputs.append([us(t), "fwd", 24, int.from_bytes(bytes(rep[2:6]), "big")])
            elif rtype == 0x72:
                inputs.append([us(t), "back", 8, rep[5]])
            elif rtype == 0x71:
                inputs.append([us(t), "none", 8, 0])
            elif rtype == 0x77 and rep[5] == 3:
                inputs.append([us(t), "err", 8, 255])
    else:
        for t, kind, value, bits in sc["observe"]:
            inputs.append([us(t), kind, bits, value])
    inputs.append([us(r["now"]) + 10_000_000, "end", 0, 0])
    return inputs


def run_one(sc):
    r = drivers.run_scenario(sc)
    got_by = dict((n, v) for n, v in r["traffic"])
    subs, got = [], []
    for name, join, leave in sc["subinfo"]:
        subs.append([name, us(join), us(min(leave, 1e5))])
        items = []
        for it in got_by.get(name, []):
            rk = it["resp"]
            kind = "nil" if rk["k"] == "none" else rk["raw"][0] if rk["k"] == "resp" else "other"
            items.append([it["frame"], it["bits"], cmdrec.NAMES.get(it["cls"], 0), kind, rk["raw"][1], it["err"]])
        got.append(items)
    return {"driver": sc["driver"], "inputs": parse_reports(r, sc), "subs": subs, "got": got,
            "loop_exc": r["info"]["loop_exc"], "scenario": sc}


def run(tier, seed, replay=None):
    cmdrec.init_names()
    out = core.Outcome("C20", tier, seed)
    out.is_replay = replay is not None
    rng = random.Random(seed + 20)
    with core.Scratch("c20") as scx:
        if replay is not None:
            scs = [replay["case"]["scenario"]]
        else:
            scs = []
            n = 300 if tier == "quick" else 12000
            for k in range(n):
                scs.append(scenario(rng, "tridonic" if k % 3 != 2 else rng.choice(["luba", "sci"]), k, tier))
            scs += systematic(tier)
            scs += query_sweep(tier, seed)
            out.extra["systematic_histories"] = sum(1 for s_ in scs if s_["tag"] == "sys")
        recs = core.pmap(run_one, scs, chunksize=8)
        for ix, r in enumerate(recs, 1):
            r["id"] = ix
        namefile = scx.file("names.ndjson")
        core.write_ndjson(namefile, [cmdrec.names_list()])
        slim = [{k: v for k, v in r.items() if k != "scenario"} for r in recs]
        paths, counts = core.shard_records(slim, scx, "c20", nshards=core.NCPU if len(slim) > 32 else 1)
        rejects, notes, states, trans, wall = core.judge_shards("BusWatchJudge", "BusWatchJudge.cfg", paths, scx,
                                                                expect_counts=counts, extra_env={"NAMES": namefile})
        out.states += states
        out.transitions += trans
        out.traces = len(recs)
        out.evaluations = sum(len(r["inputs"]) for r in recs)
        out.distinct_nontrivial = len({repr(r["scenario"]["observe"]) for r in recs if len(r["inputs"]) >= 4 and any(r["got"])})
        out.rule = ("one run per traffic history (1..8 transactions: plain, query+answer/silence/framing error, config sent "
                    "twice/once/interrupted, enable-device-type + extended command (also stale or mismatched), 24-bit "
                    "commands and events, unknown frames, 'no frame' reports; gaps 100 or 300 ms), optionally an own send, "
                    "0-3 subscribers joining/leaving; plus every history of up to 3 (quick) / 4 (thorough) reports over 11 report "
                    "kinds x {90 ms, 310 ms} gaps; non-trivial = histories with >= 4 reports and at least one delivery")
        byid = {r["id"]: r for r in recs}
        s0 = recs[min(2, len(recs) - 1)]
        out.samples = [{"driver": s0["driver"], "inputs": s0["inputs"][:8], "subs": s0["subs"], "got": [g[:4] for g in s0["got"]]}]
        out.assumptions = ["timeouts are never exercised at exactly 200 ms", "subscriber join/leave times never coincide with a report",
                           "class of a reported command is judged only for frames the specification's tables name"]
        rej = [({"scenario": byid[rj[1]]["scenario"]}, {"clause": rj[2], "at": rj[3], "driver": byid[rj[1]]["driver"]}) for rj in rejects]
        out.classify(rej, None)
    return out.finish()
