"""C16 -- drivers pair each command with its own answer, typed by the command (see c15.py)."""
import random

from . import c15


def stale_scenarios(tier, seed):
    """0..2 answers left over from an earlier command (or meant for another master's query) are reported by the
    gateway before a caller sends; each caller must still get the answer to its own command"""
    rng = random.Random(seed + 16)
    scs = []
    for drv in ("tridonic", "hasseb", "luba", "sci"):
        for nstale in (1, 2):
            for key in ("q16", "yn16", "st16", "qdt6"):
                for outcome in (["val", 0x33], ["none", 0], ["err", 0]):
                    for gap in (0.0, 0.001):
                        obs = [[0.0, "back", 0xA0 + k, 8] for k in range(nstale)]
                        scs.append({"driver": drv, "observe": obs, "outcomes": [outcome],
                                    "callers": [{"name": "A", "mode": "send", "unit": [[key, 3], ["dapc", 4], [key, 5]],
                                                 "start": {"time": 0.01 + gap}},
                                                {"name": "B", "mode": "send", "unit": [["q16", 9]], "start": {"writes": 2}}],
                                    "tag": "stale"})
    return scs


def sync_run(sc):
    """the synchronous drivers (daliserver client, ATX LED hat) have no schedule dimension: one command, one outcome"""
    from . import drivers, c18, core
    c18._stubs()
    cmd = drivers.make_command(sc["key"], sc["n"])
    d = drivers.describe_command(cmd)
    outcome = sc["outcome"] if d["query"] else ["none", 0]
    res, exc = None, "none"
    if sc["driver"] == "daliserver":
        import dali.driver.daliserver as DS

        class Sock:
            def send(self, data):
                return len(data)

            def recv(self, n):
                st = {"none": 0, "val": 1, "err": 255}[outcome[0]]
                return bytes([2, st, outcome[1] if outcome[0] == "val" else 0, 0])

            def close(self):
                pass
        DS.socket.create_connection = lambda target: Sock()
        try:
            res = DS.DaliServer().send(cmd)
        except Exception as e:  # noqa
            exc = type(e).__name__
    else:
        import dali.driver.atxled as AT
        import threading
        hat = AT.SyncDaliHatDriver.__new__(AT.SyncDaliHatDriver)
        hat.lock = threading.RLock()
        hat.buffer = []
        import logging
        hat.LOG = logging.getLogger("x")
        line = ("J%02X\n" % outcome[1]) if outcome[0] == "val" else "N\n"

        class Ser:
            def __init__(self):
                self.lines = [line.encode()] * (2 if d["twice"] else 1)

            def write(self, data):
                return len(data)

            def read_until(self, term):
                return self.lines.pop(0) if self.lines else b""
        hat.conn = Ser()
        try:
            res = hat.send(cmd)
        except Exception as e:  # noqa
            exc = type(e).__name__
    rec = {"driver": sc["driver"], "wire": [{"task": "S", "frame": d["frame"], "bits": d["bits"], "twice": d["twice"],
                                            "outcome": outcome}],
           "callers": [{"name": "S", "mode": "send", "unit": [dict(d, dt=0)], "results": [drivers.describe_result(res)] if exc == "none" else [],
                        "exc": exc, "closed": -1, "done": 1, "exceptions": 1}],
           "lock_free": 1, "out": {"hung": [], "setup_exc": "none"}, "info": {"loop_exc": "none"}, "now": 0, "iterations": 0,
           "nwrites": 1}
    return rec


def sync_scenarios():
    scs = []
    for drv in ("daliserver", "atx"):
        for key in ("dapc", "q16", "yn16", "st16", "cfg", "qdt6", "q24", "c24", "i24"):
            for outcome in (["none", 0], ["val", 0], ["val", 1], ["val", 0xFE], ["val", 0xFF], ["val", 0x42], ["err", 0]):
                if drv == "atx" and outcome[0] == "err":
                    continue
                scs.append({"driver": drv, "key": key, "n": 5, "outcome": outcome, "sync": 1, "tag": "sync"})
    return scs


def run(tier, seed, replay=None):
    scs = None if replay is not None else c15.scenarios(tier, seed) + stale_scenarios(tier, seed) + sync_scenarios()
    out, rej, recs = c15.judge("C16", "c16", tier, seed, replay, scs=scs)
    out.rule = ("same scenarios as C15; per command: None iff no answer is expected, else the command's own response "
                "type wrapping the outcome the fake gateway assigned to that wire entry; non-trivial as C15")
    out.assumptions = ["a framing error on the serial gateways is only logged by them: 'no answer' is accepted there",
                       "outcomes are assigned per wire entry by the fake gateway and recorded with the task that wrote it"]
    out.classify(rej, None)
    return out.finish()
