"""C16 -- drivers pair each command with its own answer, typed by the command (see c15.py)."""
import random

from . import c15, core


def stale_scenarios(tier, seed):
    """0..2 answers left over from an earlier command (or meant for another master's query) are reported by the
    gateway before a caller sends; each caller must still get the answer to its own command"""
    rng = random.Random(seed + 16)
    scs = []
    for drv in ("tridonic", "hasseb", "luba", "sci"):
        for nstale in (1, 2):
            for key in ("q16", "yn16", "st16", "qdt6"):
                for outcome in (["val", 0x33], ["none", 0], ["err", 0]):
                    for gap in (0.0, 0.001):
                        obs = [[0.0, "back", 0xA0 + k, 8] for k in range(nstale)]
                        scs.append({"driver": drv, "observe": obs, "outcomes": [outcome],
                                    "callers": [{"name": "A", "mode": "send", "unit": [[key, 3], ["dapc", 4], [key, 5]],
                                                 "start": {"time": 0.01 + gap}},
                                                {"name": "B", "mode": "send", "unit": [["q16", 9]], "start": {"writes": 2}}],
                                    "tag": "stale"})
    # ... and a left-over answer that arrives while one caller's (unanswered) command is in flight and a second caller is
    # already queued behind it: the queued caller's flush comes when its turn comes, so it still gets its own answer
    # (LUBA only: its reports say what they are; an SCI gateway answers once per command, an unsolicited block in the
    # middle of another command's exchange cannot be told from that command's own reply)
    for drv in ("luba",):
        for key in ("q16", "yn16", "st16"):
            for outcome in (["val", 0x33], ["none", 0]):
                for first in ("dapc", "off"):
                    scs.append({"driver": drv, "latency": 0.03, "observe": [[0.004, "back", 0xA7, 8]], "observe_after_cmd": 1,
                                "observe_latency": 0.0, "outcomes": [outcome],
                                "callers": [{"name": "A", "mode": "send", "unit": [[first, 4]], "start": {"time": 0.02}},
                                            {"name": "B", "mode": "send", "unit": [[key, 9]], "start": {"writes": 1}},
                                            {"name": "C", "mode": "send", "unit": [[key, 11]], "start": {"writes": 2}}],
                                "tag": "stale-queued"})
    return scs


def sync_run(sc):
    """the synchronous drivers (daliserver client, ATX LED hat) have no schedule dimension: one command, one outcome"""
    from . import drivers, c18, core
    c18._stubs()
    cmd = drivers.make_command(sc["key"], sc["n"])
    d = drivers.describe_command(cmd)
    outcome = sc["outcome"] if d["query"] else ["none", 0]
    res, exc = None, "none"
    if sc["driver"] == "daliserver":
        import dali.driver.daliserver as DS

        class Sock:
            def send(self, data):
                return len(data)

            def recv(self, n):
                st = {"none": 0, "val": 1, "err": 255}[outcome[0]]
                return bytes([2, st, outcome[1] if outcome[0] == "val" else 0, 0])

            def close(self):
                pass
        DS.socket.create_connection = lambda target: Sock()
        try:
            res = DS.DaliServer().send(cmd)
        except Exception as e:  # noqa
            exc = type(e).__name__
    else:
        import dali.driver.atxled as AT
        import threading
        hat = AT.SyncDaliHatDriver.__new__(AT.SyncDaliHatDriver)
        hat.lock = threading.RLock()
        hat.buffer = []
        import logging
        hat.LOG = logging.getLogger("x")
        line = ("J%02X\n" % outcome[1]) if outcome[0] == "val" else "N\n"
        hatmode = sc.get("hat", "normal")

        class Ser:
            def __init__(self):
                self.lines = [line.encode()] * (2 if d["twice"] else 1)
                if hatmode == "silent":
                    self.lines = []                                 # the hat says nothing at all: no answer
                elif hatmode == "foreign":
                    self.lines = [b"HFF00\n"] + self.lines          # a line that is no reply to this command comes first

            def write(self, data):
                return len(data)

            def read_until(self, term):
                return self.lines.pop(0) if self.lines else b""
        hat.conn = Ser()
        try:
            res = hat.send(cmd)
        except Exception as e:  # noqa
            exc = type(e).__name__
    rec = {"driver": sc["driver"], "wire": [{"task": "S", "frame": d["frame"], "bits": d["bits"], "twice": d["twice"],
                                            "outcome": outcome}],
           "callers": [{"name": "S", "mode": "send", "unit": [dict(d, dt=0)], "results": [drivers.describe_result(res)] if exc == "none" else [],
                        "exc": exc, "closed": -1, "done": 1, "exceptions": 1}],
           "lock_free": 1, "out": {"hung": [], "setup_exc": "none"}, "info": {"loop_exc": "none"}, "now": 0, "iterations": 0,
           "nwrites": 1}
    return rec


def atx_threads(sc):
    """two OS threads share one ATX hat driver; the hat answers in command order.  A is held at its first read until B
    has had the chance (0.3 s) to write as well -- with the driver's lock held over the whole exchange B cannot"""
    from . import drivers, c18
    import threading
    import logging
    c18._stubs()
    import dali.driver.atxled as AT
    hat = AT.SyncDaliHatDriver.__new__(AT.SyncDaliHatDriver)
    hat.lock = threading.RLock()
    hat.buffer = []
    hat.LOG = logging.getLogger("x")
    cmds = {"A": drivers.make_command(sc["unit"][0][0], sc["unit"][0][1]), "B": drivers.make_command(sc["unit"][1][0], sc["unit"][1][1])}
    descs = {k: drivers.describe_command(c) for k, c in cmds.items()}
    outcomes = {"A": sc["outcomes"][0], "B": sc["outcomes"][1]}
    a_wrote, b_wrote = threading.Event(), threading.Event()
    wire, lines = [], []
    guard = threading.Lock()

    class Ser:
        def write(self, data):
            me = threading.current_thread().name
            with guard:
                d, o = descs[me], (outcomes[me] if descs[me]["query"] else ["none", 0])
                wire.append({"task": me, "frame": d["frame"], "bits": d["bits"], "twice": d["twice"], "outcome": o})
                for _ in range(2 if d["twice"] else 1):
                    lines.append((("J%02X\n" % o[1]) if o[0] == "val" else "N\n").encode())
            (a_wrote if me == "A" else b_wrote).set()
            return len(data)

        def read_until(self, term):
            with guard:
                return lines.pop(0) if lines else b""
    hat.conn = Ser()
    results = {}

    paused = []

    def tracer(frame, event, arg):
        # thread A stops where it is about to call read_line() for the first time (after its write), i.e. at the
        # pre-emption point between the two halves of the exchange
        if event == "call" and frame.f_code.co_name == "read_line" and not paused:
            paused.append(1)
            b_wrote.wait(0.3)
        return None

    def body(name):
        import sys
        if name == "B":
            a_wrote.wait(2)
        else:
            sys.settrace(tracer)
        try:
            results[name] = ("none", hat.send(cmds[name]))
        except Exception as e:  # noqa
            results[name] = (type(e).__name__, None)
        finally:
            sys.settrace(None)
    ts = [threading.Thread(target=body, args=(n,), name=n) for n in ("A", "B")]
    for t in ts:
        t.start()
    for t in ts:
        t.join(5)
    callers = []
    for n in ("A", "B"):
        exc, res = results.get(n, ("hung", None))
        callers.append({"name": n, "mode": "send", "unit": [dict(descs[n], dt=0)],
                        "results": [drivers.describe_result(res)] if exc == "none" else [], "exc": exc, "closed": -1,
                        "done": 1, "exceptions": 1})
    return {"driver": "atx", "wire": wire, "callers": callers, "lock_free": 1, "out": {"hung": [], "setup_exc": "none"},
            "info": {"loop_exc": "none"}, "now": 0, "iterations": 0, "nwrites": len(wire)}


def daliserver_session(sc):
    """several commands over ONE connection (multiple_frames_per_connection=True): the fake server answers every
    request it receives, in order; each caller-visible result must belong to its own command"""
    from . import drivers, c18, core
    c18._stubs()
    import dali.driver.daliserver as DS
    cmds = [drivers.make_command(k, n) for k, n in sc["unit"]]
    descs = [drivers.describe_command(c) for c in cmds]
    wire, replies, broken = [], [], []
    outcomes = sc["outcomes"]

    class Sock:
        def send(self, data):
            frame = int.from_bytes(bytes(data[2:]), "big")
            k = len(wire)
            # the outcome belongs to the command this request carries (same frame -> same command instance)
            ix = next(i for i, d in enumerate(descs) if d["frame"] == frame)
            o = outcomes[ix % len(outcomes)] if descs[ix]["query"] else ["none", 0]
            wire.append({"task": "S", "frame": frame, "bits": 8 * (len(data) - 2), "twice": descs[ix]["twice"], "outcome": o, "cmd": ix})
            if sc.get("reset_at") == ix + 1:
                # the TCP connection breaks in this exchange: no reply, the next read fails
                wire[-1]["outcome"] = ["broken", 0]
                broken.append(1)
                return len(data)
            st = {"none": 0, "val": 1, "err": 255}[o[0]]
            replies.append(bytes([2, st, o[1] if o[0] == "val" else 0, 0]))
            return len(data)

        def recv(self, n):
            if broken:
                raise ConnectionResetError(104, "Connection reset by peer")
            return replies.pop(0) if replies else b"\x02\xff\x00\x00"

        def close(self):
            pass
    DS.socket.create_connection = lambda target: Sock()
    results, exc = [], "none"
    try:
        with DS.DaliServer(multiple_frames_per_connection=True) as d:
            for c in cmds:
                try:
                    results.append(drivers.describe_result(d.send(c)))
                except OSError as e:
                    if not broken:
                        raise
                    # the session ends here: the failure is the result of this command
                    results.append({"k": "exc", "cls": type(e).__name__, "raw": ["none", 0]})
                    descs = descs[:len(results)]
                    break
                if broken:
                    descs = descs[:len(results)]
                    break
    except Exception as e:  # noqa
        exc = type(e).__name__
    # one wire entry per command for the judge (a send-twice command is two identical requests)
    seen, wire1 = set(), []
    for w in wire:
        if w["cmd"] not in seen:
            seen.add(w["cmd"])
            wire1.append({k: v for k, v in w.items() if k != "cmd"})
    return {"driver": "daliserver", "wire": wire1,
            "callers": [{"name": "S", "mode": "send", "unit": [dict(d, dt=0) for d in descs], "results": results, "exc": exc,
                         "closed": -1, "done": 1, "exceptions": 1}],
            "lock_free": 1, "out": {"hung": [], "setup_exc": "none"}, "info": {"loop_exc": "none"}, "now": 0, "iterations": 0,
            "nwrites": len(wire)}


def sync_scenarios():
    scs = []
    for unit in ([["cfg", 1], ["q16", 2], ["st16", 3]], [["q16", 1], ["cfg", 2], ["cfg", 3], ["yn16", 4]],
                 [["c24", 1], ["q24", 2]], [["dapc", 1], ["q16", 2], ["q16", 3]]):
        for outcomes in ([["val", 5], ["val", 77], ["val", 200], ["val", 9]], [["none", 0], ["val", 1], ["err", 0], ["val", 2]]):
            scs.append({"driver": "daliserver", "unit": unit, "outcomes": outcomes, "sync": 2, "tag": "sync-session"})
            # ... and the TCP connection breaking in the k-th command's exchange: a failure of the transport, not an outcome on
            # the bus -- it reaches the caller as an exception, never dressed up as an answer
            for k in range(1, len(unit) + 1):
                scs.append({"driver": "daliserver", "unit": unit, "outcomes": outcomes, "sync": 2, "reset_at": k,
                            "tag": "sync-session-reset"})
    for drv in ("daliserver", "atx"):
        for key in ("dapc", "q16", "yn16", "st16", "cfg", "qdt6", "q24", "c24", "i24"):
            for outcome in (["none", 0], ["val", 0], ["val", 1], ["val", 0xFE], ["val", 0xFF], ["val", 0x42], ["err", 0]):
                if drv == "atx" and outcome[0] == "err":
                    continue
                scs.append({"driver": drv, "key": key, "n": 5, "outcome": outcome, "sync": 1, "tag": "sync"})
    # the ATX hat: every kind of command incl. the search-address commands, with a hat that stays silent (no answer) and
    # with a line that is no reply to the command arriving first (skipped: the command's own reply follows)
    for key in ("sah", "sam", "sal", "dtr", "dapc", "q16", "yn16", "cfg"):
        scs.append({"driver": "atx", "key": key, "n": 0xA5, "outcome": ["none", 0], "sync": 1, "tag": "sync"})
        scs.append({"driver": "atx", "key": key, "n": 0xA5, "outcome": ["none", 0], "hat": "silent", "sync": 1, "tag": "sync-silent"})
        for outcome in (["none", 0], ["val", 0x42]):
            scs.append({"driver": "atx", "key": key, "n": 0xA5, "outcome": outcome, "hat": "foreign", "sync": 1, "tag": "sync-foreign"})
    # two threads sharing the ATX hat driver (its send() is documented as thread safe by the lock it holds)
    for unit in ([["q16", 1], ["st16", 2]], [["cfg", 1], ["q16", 2]], [["q16", 1], ["dapc", 2]], [["yn16", 3], ["q16", 4]]):
        scs.append({"driver": "atx", "unit": unit, "outcomes": [["val", 42], ["val", 129]], "sync": 3, "tag": "sync-threads"})
    return scs


def run(tier, seed, replay=None):
    # (the bad-close family cancels a sequence in flight: what that does to the next caller's answer on drivers without
    # command identifiers is C17's known finding, so those runs are judged by C15 and C17 only)
    scs = None if replay is not None else [s_ for s_ in c15.scenarios(tier, seed) if s_.get("tag") != "bad-close"] \
        + stale_scenarios(tier, seed) + sync_scenarios()
    out, rej, recs = c15.judge("C16", "c16", tier, seed, replay, scs=scs)
    out.rule = ("same scenarios as C15; per command: None iff no answer is expected, else the command's own response "
                "type wrapping the outcome the fake gateway assigned to that wire entry; non-trivial as C15")
    out.assumptions = ["a framing error on the serial gateways is only logged by them: 'no answer' is accepted there",
                       "outcomes are assigned per wire entry by the fake gateway and recorded with the task that wrote it"]
    if replay is None:
        # extension: the synchronous legacy drivers (outside C16's anchors) -- model, named deviations, spec -> code replay
        from . import legacysync
        with core.Scratch("c16-legacy") as sc:
            devs = legacysync.model_runs(out, sc)
            block = legacysync.conformance(out, sc)
            block["named_deviations"] = devs
            out.extra["legacy_sync_conformance"] = block
    out.classify(rej, None)
    return out.finish()
