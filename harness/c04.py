"""C04 -- address and instance bytes: exact, local, mutually exclusive codec.

Spec:    spec/AddrCodec.tla, AddrCodecModel.tla (partition total/exclusive, round trip, locality)
Binding: tables of add_to_frame / from_frame / instance_from_frame / == / wrong-size refusal
         recorded from dali.address and judged cell by cell by TLC (AddrCodecJudge.tla).
"""
from . import core

core.ensure_repo_on_path()

AK = ["gshort", "ggroup", "gbcast", "gunaddr", "dshort", "dgroup", "dbcast", "dunaddr"]
IK = ["number", "group", "type", "fnumber", "fgroup", "ftype", "fbroadcast", "broadcast", "fdevice", "device",
      "reserved"]


def make_obj(o):
    from dali import address as A
    k, n = o
    return {
        "gshort": lambda: A.GearShort(n), "ggroup": lambda: A.GearGroup(n), "gbcast": A.GearBroadcast,
        "gunaddr": A.GearBroadcastUnaddressed, "dshort": lambda: A.DeviceShort(n),
        "dgroup": lambda: A.DeviceGroup(n), "dbcast": A.DeviceBroadcast, "dunaddr": A.DeviceBroadcastUnaddressed,
        "number": lambda: A.InstanceNumber(n), "group": lambda: A.InstanceGroup(n), "type": lambda: A.InstanceType(n),
        "fnumber": lambda: A.FeatureInstanceNumber(n), "fgroup": lambda: A.FeatureInstanceGroup(n),
        "ftype": lambda: A.FeatureInstanceType(n), "fbroadcast": A.FeatureInstanceBroadcast,
        "broadcast": A.InstanceBroadcast, "fdevice": A.FeatureDevice, "device": A.Device,
        "reserved": lambda: A.ReservedInstance(n),
    }[k]()


def acode(a):
    """Describe a real address object in the specification's vocabulary (kind code * 256 + number)."""
    from dali import address as A
    if a is None:
        return 0
    table = [(A.GearShort, 1, "address"), (A.GearGroup, 2, "group"), (A.GearBroadcast, 3, None),
             (A.GearBroadcastUnaddressed, 4, None), (A.DeviceShort, 5, "address"), (A.DeviceGroup, 6, "group"),
             (A.DeviceBroadcast, 7, None), (A.DeviceBroadcastUnaddressed, 8, None)]
    for cls, code, attr in table:
        if type(a) is cls:
            if sum(1 for c2, _, _ in table if isinstance(a, c2)) != 1:
                return -3       # "exactly one kind": the object also passes for another kind of address (isinstance)
            n = getattr(a, attr) if attr else 0
            return code * 256 + n if isinstance(n, int) and 0 <= n < 256 else -2
    return -1


def icode(i):
    from dali import address as A
    if i is None:
        return 0
    table = [(A.InstanceNumber, 1), (A.InstanceGroup, 2), (A.InstanceType, 3), (A.FeatureInstanceNumber, 4),
             (A.FeatureInstanceGroup, 5), (A.FeatureInstanceType, 6), (A.FeatureInstanceBroadcast, 7),
             (A.InstanceBroadcast, 8), (A.FeatureDevice, 9), (A.Device, 10), (A.ReservedInstance, 11)]
    for cls, code in table:
        if type(i) is cls:
            if sum(1 for c2, _ in table if isinstance(i, c2)) != 1:
                return -3       # "exactly one kind": the object also passes for another instance kind (isinstance)
            n = i.value if code <= 6 or code == 11 else 0
            return code * 256 + n if isinstance(n, int) and 0 <= n < 256 else -2
    return -1


GEAR = [["gshort", n] for n in range(64)] + [["ggroup", n] for n in range(16)] + [["gbcast", 0], ["gunaddr", 0]]
DEV = [["dshort", n] for n in range(64)] + [["dgroup", n] for n in range(32)] + [["dbcast", 0], ["dunaddr", 0]]
INST = [[k, n] for k in IK[:6] for n in range(32)] + [[k, 0] for k in IK[6:10]]

LOWS = {}       # name -> (index, list)


def lows(name, values=None):
    if name not in LOWS:
        LOWS[name] = (len(LOWS) + 1, list(values))
    return LOWS[name]


def _add_job(job):
    """job = (obj, len, base, lowsname) -> (cells, rb)"""
    from dali.frame import Frame
    from dali import address as A
    o, ln, base, lname = job
    obj = make_obj(o)
    isaddr = o[0] in AK
    # the same address reached by changing the public number of an object that was built with another one: what goes
    # into the frame is the address the object compares equal to (used for every other frame of the row)
    moved = None
    attr = {"gshort": "address", "dshort": "address", "ggroup": "group", "dgroup": "group"}.get(o[0])
    if attr:
        try:
            moved = make_obj([o[0], (o[1] + 5) % (64 if attr == "address" else 16)])
            setattr(moved, attr, o[1])
            if not (moved == obj):
                moved = None
        except Exception:
            moved = None
    if o[1] % 2 == 0:
        # applications hang things of their own on address objects (a label, a room): still the same address
        try:
            obj.label = "kitchen"
        except Exception:
            pass
    cells = []
    rb = 1
    for k, lo in enumerate(LOWS[lname][1]):
        f = Frame(ln, base + lo)
        try:
            (moved if moved is not None and k % 2 else obj).add_to_frame(f)
            g = f.as_integer
            if len(f) != ln:
                g = -3
        except Exception:
            g = -1
        cells.append(g)
        if g >= 0:
            try:
                back = A.from_frame(f) if isaddr else A.instance_from_frame(f)
                if not (back == obj) or (back != obj if isaddr and hasattr(type(back), "__ne__") else False):
                    rb = 0
            except Exception:
                rb = 0
    return cells, rb


def _from_job(job):
    from dali.frame import Frame
    from dali import address as A
    kind, ln, base, lname = job
    cells = []
    for lo in LOWS[lname][1]:
        f = Frame(ln, base + lo)
        try:
            if kind == "from":
                a = A.from_frame(f)
                cells.append(acode(a))
                # the caller owns what it was handed: changing it must not reach later decodes
                for attr in ("address", "group"):
                    if isinstance(getattr(a, attr, None), int):
                        try:
                            setattr(a, attr, (getattr(a, attr) + 3) % 16)
                        except Exception:
                            pass
            else:
                cells.append(icode(A.instance_from_frame(f)))
        except Exception:
            cells.append(-9)
    return cells


def build(tier):
    from dali.frame import Frame
    from dali.exceptions import IncompatibleFrame
    from dali import address as A
    LOWS.clear()
    lows("byte", range(256))
    # 24-bit: the address byte is `base`; offsets range over instance byte x opcode byte samples
    ibytes = list(range(256)) if tier == "thorough" else [0, 1, 0x1F, 0x20, 0x55, 0x7F, 0x80, 0xAA, 0xC0, 0xFC, 0xFD, 0xFE, 0xFF]
    obytes = [0, 1, 0x55, 0xAA, 0x80, 0xFF] if tier == "thorough" else [0, 0xA5, 0xFF]
    lows("io", [ib * 256 + ob for ib in ibytes for ob in obytes])
    lows("ioall", [ib * 256 + ob for ib in range(256) for ob in (0, 0xFF)])
    # instance objects: `base` is the instance byte position; offsets range over address byte x opcode byte
    lows("ao", [ab * 65536 + ob for ab in range(256) for ob in obytes])
    jobs = []       # (kind, descriptor, fn, job)
    for o in GEAR:
        for hb in range(256):
            jobs.append(("add", o, 16, hb << 8, "byte"))
    for o in DEV:
        for ab in range(256):
            jobs.append(("add", o, 24, ab << 16, "io"))
    for o in INST:
        ibs = range(256) if tier == "thorough" else [0, 0x3F, 0x55, 0xAA, 0xFE, 0xFF]
        for ib in ibs:
            jobs.append(("add", o, 24, ib << 8, "ao"))
    for hb in range(256):
        jobs.append(("from", None, 16, hb << 8, "byte"))
    for ab in range(256):
        jobs.append(("from", None, 24, ab << 16, "ioall"))
        jobs.append(("ifrom", None, 24, ab << 16, "ioall"))
    return jobs


def _run_job(j):
    kind, o, ln, base, lname = j
    if kind == "add":
        return _add_job((o, ln, base, lname))
    return _from_job((kind, ln, base, lname)), 1


def small_records(rid0):
    """equality over all pairs, wrong-size refusal, decoding of other sizes."""
    from dali.frame import Frame
    from dali.exceptions import IncompatibleFrame
    from dali import address as A
    recs = []
    objs = GEAR + DEV + INST + [["reserved", b] for b in (0x40, 0x5F, 0xE0, 0xFB)]
    real = [make_obj(o) for o in objs]
    real2 = [make_obj(o) for o in objs]      # distinct but equal objects
    rid = rid0
    for ix, o in enumerate(objs):
        cells = []
        for jx in range(len(objs)):
            try:
                e = real[ix] == real2[jx]
                n = real[ix] != real2[jx]
                cells.append((1 if e is True else 0 if e is False else 4) + (2 if n is True else 0 if n is False else 8))
            except Exception:
                cells.append(-1)
        rid += 1
        recs.append({"id": rid, "kind": "eq", "obj": o, "others": objs, "cells": cells})
    for ix, o in enumerate(objs):
        cells = []
        for n in range(1, 65):
            v = (0x5A5A5A5A5A5A5A5A5A >> 3) & ((1 << n) - 1)
            f = Frame(n, v)
            try:
                real[ix].add_to_frame(f)
                cells.append(1 if len(f) == n else -1)
            except IncompatibleFrame:
                cells.append(0 if (f.as_integer == v and len(f) == n) else -1)
            except Exception:
                cells.append(-1)
        rid += 1
        recs.append({"id": rid, "kind": "size", "obj": o, "cells": cells})
    cells = []
    for n in range(1, 65):
        bad = 0
        for v in (0, (1 << n) - 1, ((1 << n) - 1) // 3, 1 << (n - 1)):
            f = Frame(n, v)
            try:
                if A.from_frame(f) is not None and n != 16 and n != 24:
                    bad = 1
                if A.instance_from_frame(f) is not None and n != 24:
                    bad = 1
            except Exception:
                bad = 1
        cells.append(bad)
    rid += 1
    recs.append({"id": rid, "kind": "sizefrom", "cells": cells})
    return recs


def run(tier, seed, replay=None):
    out = core.Outcome("C04", tier, seed)
    out.is_replay = replay is not None
    with core.Scratch("c04") as sc:
        if replay is None:
            r = core.spec_check("AddrCodecModel", "AddrCodecModel.cfg", sc, workers=8)
            out.add_spec_run(r, "AddrCodecModel")
        jobs = build(tier)
        if replay is not None:
            c = replay["case"]
            jobs = [j for j in jobs if j[0] == c.get("kind") and j[1] == c.get("obj") and j[3] == c.get("base")
                    and j[2] == c.get("len")]
        results = core.pmap(_run_job, jobs, chunksize=64)
        rows = core.Interner()
        recs = []
        ncells = 0
        for rid, (j, (cells, rb)) in enumerate(zip(jobs, results), 1):
            kind, o, ln, base, lname = j
            ncells += len(cells)
            recs.append({"id": rid, "kind": kind, "obj": o or ["none", 0], "len": ln, "base": base,
                         "lows": LOWS[lname][0], "row": rows.add(cells), "rb": rb})
        if replay is None:
            # decoding while another thread is half way through the first-ever call (fresh interpreters)
            from . import coldrace
            probes, npre = coldrace.probe()
            out.extra["coldstart_preemption_points"] = npre
            for k_, who, ln, vals, cells in probes:
                lname = "race%d" % ln
                lows(lname, vals)
                ncells += len(cells)
                recs.append({"id": len(recs) + 1, "kind": "from", "obj": ["none", 0], "len": ln, "base": 0,
                             "lows": LOWS[lname][0], "row": rows.add(cells), "rb": 1, "race": [k_, who]})
        small = small_records(len(recs)) if replay is None or replay["case"].get("kind") in ("eq", "size", "sizefrom") else []
        if replay is not None and small:
            c = replay["case"]
            small = [s for s in small if s["kind"] == c["kind"] and s.get("obj") == c.get("obj")]
        ncells += sum(len(s["cells"]) for s in small)
        recs += small
        rowfile = rows.write(sc.file("rows.ndjson"))
        lowfile = sc.file("lows.ndjson")
        core.write_ndjson(lowfile, [v for _, v in sorted(LOWS.values())])
        paths, counts = core.shard_records(recs, sc, "c04", nshards=core.NCPU if replay is None else 1)
        rejects, notes, states, trans, wall = core.judge_shards(
            "AddrCodecJudge", "AddrCodecJudge.cfg", paths, sc, expect_counts=counts,
            extra_env={"ROWS": rowfile, "LOWS": lowfile})
        out.states += states
        out.transitions += trans
        out.traces = len(recs)
        out.evaluations = ncells
        out.distinct_nontrivial = ncells
        out.rule = ("cells = (address/instance object, frame) pairs for add_to_frame, frames for from_frame / "
                    "instance_from_frame, ordered pairs of objects for ==/!=, (object, frame size 1..64) for refusal; "
                    "all cells are distinct inputs; 16-bit space complete (82 objects x 2^16 frames, 2^16 decodes); "
                    "24-bit: all 256 address bytes x %s instance bytes x sampled opcode bytes" %
                    ("all 256" if tier == "thorough" else "13 structured"))
        out.exhaustive = tier == "thorough"
        out.extra["distinct_rows"] = len(rows.rows)
        byid = {r["id"]: r for r in recs}
        out.samples = [dict(recs[1000], cells=rows.rows[recs[1000]["row"] - 1][:8])] if len(recs) > 1000 else recs[:1]
        out.assumptions = ["real address objects are described to TLC by class and .address/.group/.value",
                           "low opcode byte sampled for 24-bit add_to_frame (the written field never includes it)"]
        rej = []
        for rj in rejects:
            rec = byid.get(rj[1], {})
            case = {k: rec.get(k) for k in ("kind", "obj", "len", "base")}
            rej.append((case, {"clause": rj[2], "at": rj[3]}))
        out.classify(rej, None)
    return out.finish()
