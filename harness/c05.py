"""C05 -- Frame behaves as a fixed-width unsigned bit vector.

Spec:    spec/FrameBV.tla (semantics), FrameBVModel.tla (exhaustive graph + laws)
Binding: (a) one implementation test per transition of the small-width graph,
         (b) random operation histories on widths up to 256;
         both judged by TLC (FrameBVJudge.tla) against FrameBV!Sem.
"""
import random

from . import core

core.ensure_repo_on_path()

EXC_CODE = {"IndexError": -1, "ValueError": -2, "TypeError": -3, "OverflowError": -4}


def _code(fn):
    try:
        return fn()
    except Exception as e:  # noqa: recorded, judged by TLC
        return EXC_CODE.get(type(e).__name__, -5)


def table_rows(maxw, only=None):
    """Every (width, value, index pair, written value) on the real Frame."""
    from dali.frame import Frame
    rows = []
    rid = 0
    steps = {0: None, 1: 1, 2: 2}
    for w in range(1, maxw + 1):
        if only and only["w"] != w:
            continue
        for v in range(1 << w):
            if only and only["v"] != v:
                continue
            for k in range(-1, w + 1):
                def get():
                    r = Frame(w, v)[k]
                    if r is True:
                        return 1
                    if r is False:
                        return 0
                    return -5

                def setk(val):
                    def f():
                        fr = Frame(w, v)
                        try:
                            fr[k] = val
                        except Exception:
                            if fr.as_integer != v or len(fr) != w:
                                return -5       # mutated on the error path
                            raise
                        if len(fr) != w:
                            return -5
                        return fr.as_integer
                    return f
                rid += 1
                rows.append({"id": rid, "kind": "bit", "w": w, "v": v, "a": k,
                             "get": _code(get), "set0": _code(setk(0)), "set1": _code(setk(1))})
            for a in range(-1, w + 1):
                for b in range(-1, w + 1):
                    for st in (0, 1, 2):
                        if st == 0:
                            vlo, vhi = -1, (1 << w)
                        else:
                            vlo, vhi = 0, 1
                        sl = slice(a, b, steps[st])

                        def get():
                            r = Frame(w, v)[sl]
                            return r if type(r) is int else -5
                        cells = []
                        for val in range(vlo, vhi + 1):
                            def put():
                                fr = Frame(w, v)
                                try:
                                    fr[sl] = val
                                except Exception:
                                    if fr.as_integer != v or len(fr) != w:
                                        return -5
                                    raise
                                if len(fr) != w:
                                    return -5
                                return fr.as_integer
                            cells.append(_code(put))
                        rid += 1
                        rows.append({"id": rid, "kind": "slice", "w": w, "v": v, "a": a, "b": b,
                                     "step": st, "vlo": vlo, "get": _code(get), "cells": cells})
    return rows


# ---------------------------------------------------------------------------
# histories
# ---------------------------------------------------------------------------

def _bits(n):
    out = []
    while n:
        out.append(n & 1)
        n >>= 1
    return out


class _NoTruth:
    """an array-like value: asking for its truth value raises (as numpy arrays with several elements do)"""

    def __bool__(self):
        raise ValueError("The truth value of an array with more than one element is ambiguous")

    def __repr__(self):
        return "<no-truth>"


def _val(x):
    if isinstance(x, _NoTruth):
        return {"t": "untruth", "neg": False, "b": [], "bytes": [], "truth": False}
    d = {"t": "other", "neg": False, "b": [], "bytes": [], "truth": bool(x)}
    if x is True:
        d["t"] = "true"
    elif x is False:
        d["t"] = "false"
    elif isinstance(x, int):
        d["t"] = "int"
        d["neg"] = x < 0
        d["b"] = _bits(abs(x))
    elif isinstance(x, (bytes, tuple, list)) and all(isinstance(c, int) and 0 <= c < 256 for c in x):
        d["t"] = "bytes"
        d["bytes"] = list(x)
    return d


def _proj(pool):
    out = []
    for f in pool:
        n = f.as_integer
        w = len(f)
        if not isinstance(n, int) or n < 0:
            b = [2] * max(1, w)
        else:
            b = _bits(n)
            b = b + [0] * (w - len(b))
        out.append({"w": w, "b": b})
    return out


def _res_ok(r, op):
    d = {"k": "ok", "cls": "", "rt": "none", "bits": [], "flag": False, "bytes": [], "w": 0}
    if op in ("setbit", "setslice"):
        return d
    if op == "len":
        d["rt"] = "int" if type(r) is int else type(r).__name__
        d["w"] = r
        return d
    if type(r) is bool:
        d["rt"] = "bool"
        d["flag"] = r
    elif type(r) is int:
        d["rt"] = "int"
        d["bits"] = _bits(r) if r >= 0 else [2]
    elif type(r) is bytes:
        d["rt"] = "bytes"
        d["bytes"] = list(r)
    elif type(r) is list:
        d["rt"] = "list"
        d["bytes"] = [c if type(c) is int else -1 for c in r]
    else:
        from dali.frame import Frame
        d["rt"] = "Frame" if isinstance(r, Frame) else type(r).__name__
    return d


WIDTHS = list(range(1, 18)) + [23, 24, 25, 31, 32, 33, 63, 64, 65, 100, 127, 128, 129, 255, 256]
class _Others(list):
    """things that are no integers: text, None, floats -- and frames, byte strings and sequences (which ARE values in other
    places of the API), a Decimal"""
    def __init__(self):
        super().__init__(["x", None, 1.5])
        self._full = False

    def fill(self):
        if not self._full:
            from decimal import Decimal
            from dali.frame import Frame, ForwardFrame, BackwardFrame

            # (an object that converts through __index__ -- a numpy integer, say -- is deliberately not in the list: whether
            # that counts as an integer operand is a choice the property leaves to the library)
            self.extend([Frame(8, 0x55), Frame(1, 1), ForwardFrame(16, 3), BackwardFrame(0), b"\x01", [1], (0,), 2.0, Decimal(1)])
            self._full = True
        return self


OTHERS = _Others()


def _idx(rng, w):
    r = rng.random()
    if r < 0.80:
        return rng.randrange(w)
    if r < 0.90:
        return rng.choice([-1, w, w + 1, -2, w + 7])
    if r < 0.95:
        return rng.choice([0, w - 1])
    return rng.choice(OTHERS)


def _ixrec(x):
    if type(x) is int:
        return "int", x
    return "other", 0


def history(seed, hk, nops, maxpool=4):
    from dali.frame import Frame, ForwardFrame
    rng = random.Random(seed * 1000003 + hk)
    OTHERS.fill()
    hid = 10_000_000 + hk
    pool = []
    for _ in range(rng.randint(1, 2)):
        w = rng.choice(WIDTHS)
        pool.append(Frame(w, rng.getrandbits(w)))
    pool0 = _proj(pool)
    evs = []
    for _ in range(nops):
        try:
            fi = rng.randrange(len(pool))
            f = pool[fi]
            w = len(f)
            op = rng.choice(["getbit", "setbit", "getslice", "setslice", "setslice", "as_integer",
                             "as_byte_sequence", "pack", "pack_len", "len", "eq", "ne", "contains",
                             "add", "new"])
            e = {"op": op, "f": fi + 1, "g": 0, "dst": 0, "ak": "int", "a": 0, "bk": "int", "b": 0,
                 "step": 0, "val": _val(None)}
            call = None
            if op == "getbit":
                k = _idx(rng, w)
                e["ak"], e["a"] = _ixrec(k)
                call = lambda: f[k]
            elif op == "setbit":
                k = _idx(rng, w)
                v = rng.choice([0, 1, True, False, 0, 1, "x", "", None, 7] + OTHERS[3:8] + [_NoTruth()])
                e["ak"], e["a"] = _ixrec(k)
                e["val"] = _val(v)

                def call():
                    f[k] = v
            elif op in ("getslice", "setslice"):
                a, b = _idx(rng, w), _idx(rng, w)
                st = rng.choice([None] * 8 + [1, 1, 2, -1])
                e["ak"], e["a"] = _ixrec(a)
                e["bk"], e["b"] = _ixrec(b)
                e["step"] = 0 if st is None else st
                sl = slice(a, b, st)
                if op == "getslice":
                    call = lambda: f[sl]
                else:
                    span = (abs(a - b) + 1) if (type(a) is int and type(b) is int) else 4
                    span = max(1, min(span, 300))
                    r = rng.random()
                    if r < 0.7:
                        v = rng.getrandbits(span)
                    elif r < 0.8:
                        v = (1 << span) - 1
                    elif r < 0.9:
                        v = (1 << span) + rng.choice([0, 1, rng.getrandbits(span)])
                    elif r < 0.95:
                        v = -rng.randint(1, 5)
                    else:
                        v = rng.choice(OTHERS)
                    e["val"] = _val(v)

                    def call():
                        f[sl] = v
            elif op == "as_integer":
                call = lambda: f.as_integer
            elif op == "as_byte_sequence":
                call = lambda: f.as_byte_sequence
            elif op == "pack":
                call = lambda: f.pack
            elif op == "pack_len":
                need = (f.as_integer.bit_length() + 7) // 8
                l = rng.choice([need, need, need + 1, need + 3, max(0, need - 1), 0, (w + 7) // 8, -1, "x"])
                e["ak"], e["a"] = _ixrec(l)
                call = lambda: f.pack_len(l)
            elif op == "len":
                call = lambda: len(f)
            elif op in ("eq", "ne"):
                r = rng.random()
                if r < 0.15:
                    other = rng.choice([f.as_integer, "x", None])
                    e["g"] = 0
                elif r < 0.5:
                    gi = rng.randrange(len(pool))
                    other = pool[gi]
                    e["g"] = gi + 1
                else:
                    # an equal-content copy or a one-bit / one-width neighbour, placed in the pool
                    kind = rng.choice(["copy", "flip", "wider"])
                    # "equality means same width and same bits": whatever kind of frame carries them
                    from dali.frame import BackwardFrame, BackwardFrameError
                    mk = rng.choice([lambda v: Frame(w, v), lambda v: ForwardFrame(w, v)] +
                                    ([lambda v: BackwardFrame(v), lambda v: BackwardFrameError(v)] * 2 if w == 8 else []))
                    if kind == "copy":
                        other = mk(f.as_integer)
                    elif kind == "flip":
                        other = mk(f.as_integer ^ (1 << rng.randrange(w)))
                    else:
                        other = Frame(w + 1, f.as_integer)
                    # materialise it as a 'new' event first so the model knows it
                    if len(pool) < maxpool:
                        dst = len(pool)
                    else:
                        dst = rng.choice([x for x in range(len(pool)) if x != fi])
                    ne = {"op": "new", "f": fi + 1, "g": 0, "dst": dst + 1, "ak": "int", "a": len(other),
                          "bk": "int", "b": 0, "step": 0, "val": _val(other.as_integer)}
                    if dst == len(pool):
                        pool.append(other)
                    else:
                        pool[dst] = other
                    ne["res"] = _res_ok(other, "new")
                    ne["post"] = _proj(pool)
                    evs.append(ne)
                    e["g"] = dst + 1
                call = (lambda: f == other) if op == "eq" else (lambda: f != other)
            elif op == "contains":
                v = rng.choice([True, False, True, False, "x", None, 2])
                e["val"] = _val(v)
                call = lambda: v in f
            elif op == "add":
                if rng.random() < 0.1:
                    other = rng.choice([1, "x", None])
                    e["g"] = 0
                else:
                    gi = rng.randrange(len(pool))
                    other = pool[gi]
                    e["g"] = gi + 1
                dst = len(pool) if len(pool) < maxpool else rng.randrange(len(pool))
                e["dst"] = dst + 1
                if e["g"] and len(f) + len(other) > 300:
                    continue

                aug = rng.random() < 0.5

                def call():
                    if aug:
                        # augmented assignment on an alias: the frame the alias names must stay what it was
                        r = f
                        r += other
                    else:
                        r = f + other
                    if dst == len(pool):
                        pool.append(r)
                    else:
                        pool[dst] = r
                    return r
            elif op == "new":
                cls = rng.choice([Frame, Frame, ForwardFrame])
                nw = rng.choice(WIDTHS + [0, -1, "x", 2.0])
                r = rng.random()
                wn = nw if type(nw) is int and nw > 0 else 8
                if r < 0.5:
                    data = rng.getrandbits(wn)
                elif r < 0.6:
                    data = (1 << wn) + rng.getrandbits(3)
                elif r < 0.65:
                    data = -1
                elif r < 0.9:
                    nb = (wn + 7) // 8 + rng.choice([0, 0, 0, 1])
                    bs = [rng.getrandbits(8) for _ in range(nb)]
                    if nb and rng.random() < 0.7:
                        top = wn - 8 * ((wn - 1) // 8)
                        bs[0] &= (1 << top) - 1
                        if nb > (wn + 7) // 8:
                            bs[0] = 0
                            bs[1] &= (1 << top) - 1
                    # "an iterable sequence of integers": also the one-shot kinds
                    form = rng.choice(["bytes", "tuple", "list", "bytearray", "iter", "gen"])
                    data = {"bytes": bytes(bs), "tuple": tuple(bs), "list": list(bs), "bytearray": bytearray(bs),
                            "iter": iter(list(bs)), "gen": (x for x in list(bs))}[form]
                else:
                    bs = None
                    data = rng.choice(["x", None, 1.5])
                e["ak"], e["a"] = _ixrec(nw)
                e["val"] = _val(list(bs)) if (0.65 <= r < 0.9) else _val(data)
                dst = len(pool) if len(pool) < maxpool else rng.randrange(len(pool))
                e["dst"] = dst + 1

                def call():
                    r = cls(nw, data)
                    if dst == len(pool):
                        pool.append(r)
                    else:
                        pool[dst] = r
                    return r
            try:
                r = call()
                e["res"] = _res_ok(r, op)
            except Exception as ex:  # noqa: recorded
                e["res"] = {"k": "exc", "cls": type(ex).__name__, "rt": "none", "bits": [], "flag": False,
                            "bytes": [], "w": 0}
            e["post"] = _proj(pool)
            evs.append(e)
        except Exception:  # harness could not build the op on a broken frame: stop here
            break
    return {"id": hid, "kind": "hist", "gen": {"seed": seed, "k": hk, "nops": nops}, "pool0": pool0, "ev": evs}


def run(tier, seed, replay=None):
    out = core.Outcome("C05", tier, seed)
    out.is_replay = replay is not None
    maxw = 5 if tier == "quick" else 8
    nhist = 1500 if tier == "quick" else 40000
    nops = 40
    with core.Scratch("c05") as sc:
        if replay is None:
            r = core.spec_check("FrameBVModel", "FrameBVModel.cfg", sc, extra=["-coverage", "1"])
            out.add_spec_run(r, "FrameBVModel(MaxW=4)")
            rows = table_rows(maxw)
            hists = [history(seed, k, nops) for k in range(nhist)]
            recs = rows + hists
        else:
            c = replay["case"]
            if c.get("kind") == "hist":
                rows, hists = [], [history(c["gen"]["seed"], c["gen"]["k"], c["gen"]["nops"])]
            else:
                rows = [r for r in table_rows(c["w"], only=c)
                        if r["kind"] == c["kind"] and r["a"] == c["a"] and r.get("b") == c.get("b")
                        and r.get("step") == c.get("step")]
                hists = []
            recs = rows + hists
        byid = {r["id"]: r for r in recs}
        # balance: interleave so that every shard gets a mix of cheap and expensive rows
        paths, counts = core.shard_records(recs, sc, "c05", nshards=None if replay is None else 1)
        rejects, notes, states, trans, wall = core.judge_shards(
            "FrameBVJudge", "FrameBVJudge.cfg", paths, sc, expect_counts=counts)
        out.states += states
        out.transitions += trans
        out.traces = len(recs)
        ncells = sum(len(r["cells"]) + 1 for r in rows if r["kind"] == "slice") + \
            3 * sum(1 for r in rows if r["kind"] == "bit")
        nev = sum(len(h["ev"]) for h in hists if h.get("kind") == "hist")
        out.evaluations = ncells + nev
        out.distinct_nontrivial = ncells + sum(
            1 for h in hists if h.get("kind") == "hist" for e in h["ev"]
            if e["op"] in ("setbit", "setslice", "add", "new"))
        out.rule = ("table: every (width<=%d, value, index pair incl. -1 and w, step, written value -1..2^w) "
                    "on a fresh Frame -- all cells are distinct transitions; histories: %d seeded random "
                    "histories x %d ops over <=4 frames of width<=256; non-trivial = state-changing ops "
                    "(setbit/setslice/add/new)" % (maxw, nhist, nops))
        out.exhaustive = False
        out.extra["table_cells"] = ncells
        out.extra["history_events"] = nev
        out.extra["max_table_width"] = maxw
        out.samples = [rows[len(rows) // 2]] if rows else []
        if hists:
            h = hists[0]
            out.samples.append({"id": h["id"], "pool0": h["pool0"], "ev": h["ev"][:3]})
        out.assumptions = [
            "exception class is required only where the docstring names it (IndexError for out-of-range "
            "indices, OverflowError for pack_len); elsewhere any of Type/Value/Index/OverflowError",
            "post-state of a frame is observed through as_integer and len()",
        ]
        rej = []
        for rj in rejects:
            rid = rj[1]
            rej.append((byid.get(rid, {"id": rid}), {"clause": rj[2], "at": rj[3]}))
        out.classify(rej, None)
    return out.finish()
