"""SeqMemory (PlusCal transcription of read_raw / write_raw / read_all against MemUnit): exhaustive TLC run of the
model instance and spec -> code replay: every terminal state TLC exports (scenario, command stream, outcome, bytes
read, final memory) is re-run on the real dali.memory sequences against the unit simulator; the command stream must
be identical frame by frame, and so must the outcome, the bytes and the final memory."""
from . import core
from . import memseq


def model_run(out, sc, tier):
    r = core.run_tlc("MC_SeqMemory", "SeqMemory.cfg", sc, workers=4, timeout=1800)
    if not r.ok:
        raise core.MachineryError("SeqMemory model check failed:\n" + r.out[-4000:])
    out.add_spec_run(r, "SeqMemory exhaustive (ReadOK, ReadAllOK, WriteOK, NotLeftLatched, Bounded)")
    r2 = core.run_tlc("MC_SeqMemory", "SeqMemory_old.cfg", sc, workers=4, timeout=1800)
    if "Invariant NotLeftLatched is violated" not in r2.out:
        raise core.MachineryError("SeqMemory with UnlatchOnError = FALSE should violate NotLeftLatched:\n" + r2.out[-3000:])
    out.add_spec_run(r2, "SeqMemory pre-fix variant (must violate NotLeftLatched)")


def exported(sc):
    r = core.run_tlc("MC_SeqMemory", "SeqMemory_export.cfg", sc, workers=4, timeout=1800, xmx="4g")
    if not r.ok:
        raise core.MachineryError("SeqMemory export failed:\n" + r.out[-3000:])
    scen = core.extract_tagged(r.out, "SCEN")
    if len(scen) < 500:
        raise core.MachineryError("SeqMemory export produced only %d terminal states" % len(scen))
    return scen, r


def to_case(s):
    unit = memseq.unit(s["kind"], s["bank"], list(s["mem"]), unlock=s["unlock"], nobble=1 if s["nobble"] else 0,
                       echoflip=1 if s["echoflip"] else 0, fault=[s["fault"]["at"], s["fault"]["kind"]])
    if s["op"] == "read":
        return {"seq": "read", "value": s["value"], "unit": unit, "raw_only": 1}
    if s["op"] == "readall":
        return {"seq": "read_all", "latch": 1 if s["latch"] else 0, "unit": unit}
    return {"seq": "write", "value": s["value"], "wdata": list(s["wdata"]), "ignore": 1 if s["ignore"] else 0, "unit": unit}


def replay_one(item):
    s, exc, log, raw, fin = item[1], item[2], list(item[3]), list(item[4]), list(item[5])
    case = to_case(s)
    rec = memseq.run_case(case)
    frames = [e["f"] for e in rec["ev"] if e["t"] == "cmd"]
    diffs = []
    if frames != log:
        k = next((i for i, (a, b) in enumerate(zip(frames, log)) if a != b), min(len(frames), len(log)))
        diffs.append("command-stream differs at %d (code %s, model %s; lengths %d/%d)" % (
            k + 1, frames[k:k + 1], log[k:k + 1], len(frames), len(log)))
    if rec["out"]["exc"] != exc:
        diffs.append("outcome: code %s, model %s" % (rec["out"]["exc"], exc))
    if list(rec["final"]) != fin:
        diffs.append("final memory differs")
    if exc == "none" and s["op"] == "read":
        got = rec.get("raw_read")
        if got is not None and list(got) != raw:
            diffs.append("bytes read: code %s, model %s" % (list(got), raw))
    return {"case": case, "op": s["op"], "diffs": diffs, "ncmd": len(frames)}


def conformance(out, sc, ops):
    scen, r = exported(sc)
    out.add_spec_run(r, "SeqMemory terminal states exported")
    items = [x for x in scen if x[1]["op"] in ops]
    res = core.pmap(replay_one, items, chunksize=16)
    drift = [x for x in res if x["diffs"]]
    out.extra["model_conformance"] = {
        "model": "SeqMemory.tla (PlusCal) x MemUnit.tla", "direction": "spec -> code",
        "terminal_states_replayed": len(items), "identical": len(items) - len(drift),
        "commands_compared": sum(x["ncmd"] for x in res),
        "drift": [{"case": {k: v for k, v in x["case"].items() if k != "unit"}, "fault": x["case"]["unit"]["fault"],
                   "diffs": x["diffs"]} for x in drift[:5]]}
    for x in drift[:5]:
        print("# DRIFT (not a verdict): the real %s sequence differs from SeqMemory.tla: %s" % (x["op"], "; ".join(x["diffs"])))
    return [x["case"] for x in res]
