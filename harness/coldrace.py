"""Cold-start race probe for address decoding: in a fresh interpreter thread A makes the first-ever call of
address.from_frame and is pre-empted at the K-th traced line inside dali/address.py; thread B then decodes a list of
frames to completion.  What B gets must be what the tables say -- decoding may not depend on another thread being half
way through its first call (lazily built class-level state).  One subprocess per K."""
import json
import os
import subprocess
import sys

from . import core

SCRIPT = r'''
import sys, json, threading
sys.path.insert(0, sys.argv[1])
from harness import c04
from dali.frame import Frame
from dali import address as A
K = int(sys.argv[2])
jobs = json.loads(sys.argv[3])
def decode_all():
    out = []
    for ln, vals in jobs:
        cells = []
        for v in vals:
            try:
                cells.append(c04.acode(A.from_frame(Frame(ln, v))))
            except Exception:
                cells.append(-9)
        out.append(cells)
    return out
state = {"hits": 0, "b": None}
def tracer(fr, event, arg):
    if fr.f_code.co_filename.replace("\\", "/").endswith("dali/address.py"):
        if event == "line":
            state["hits"] += 1
            if state["hits"] == K:
                sys.settrace(None)
                t = threading.Thread(target=lambda: state.__setitem__("b", decode_all()))
                t.start(); t.join(1.5)
                # (a library that guards a lazily built table with a lock makes thread B wait for thread A: that is
                # correct, so A goes on and B is collected at the end)
                state["t"] = t
                sys.settrace(tracer)
        return tracer
    return tracer if event == "call" else None
sys.settrace(tracer)
a = decode_all()
sys.settrace(None)
if state.get("t") is not None:
    state["t"].join(60)
print(json.dumps({"a": a, "b": state["b"], "hits": state["hits"]}))
'''

JOBS = [[16, [0x0300, 0xFF00, 0xFE00, 0x8100, 0x0B01, 0xA300]], [24, [0x03FE00, 0xFFFE00, 0x81FE00, 0xFDFE00, 0xC10000]]]


def _one(k):
    env = dict(os.environ, PYTHONPATH=os.path.dirname(os.path.dirname(os.path.abspath(__file__))))
    p = subprocess.run([sys.executable, "-c", SCRIPT, env["PYTHONPATH"], str(k), json.dumps(JOBS)], stdout=subprocess.PIPE,
                       stderr=subprocess.PIPE, text=True, timeout=120, env=env)
    if p.returncode != 0:
        raise core.MachineryError("cold-start probe failed:\n" + p.stderr[-2000:])
    return json.loads(p.stdout.strip().splitlines()[-1])


def probe():
    """-> list of (K, who, ln, values, cells)"""
    base = _one(0)
    n = min(base["hits"], 160)      # the first call is long over by then
    res = core.pmap(_one, list(range(1, n + 1)), chunksize=1) if n else []
    out = [(0, "a", JOBS[j][0], JOBS[j][1], base["a"][j]) for j in range(len(JOBS))]
    for k, r in zip(range(1, n + 1), res):
        for j in range(len(JOBS)):
            out.append((k, "a", JOBS[j][0], JOBS[j][1], r["a"][j]))
            if r["b"] is not None:
                out.append((k, "b", JOBS[j][0], JOBS[j][1], r["b"][j]))
    return out, n
