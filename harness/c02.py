"""C02 -- every constructible command or event decodes back to itself; illegal arguments are rejected.
(C03 re-uses the same recordings with MODE=c03: frame = the standard's frame, flags, names.)

Spec:    spec/CmdCodec.tla + StdTables.tla + Events103.tla; CmdJudge.tla (CtorSem / EvtSem clauses)
Binding: the real constructors are walked over the argument space described by the specification's tables
         (rows exported by TLC); per tuple: raised? frame, decode round trip flags.
"""
import random

from . import core, cmdrec
from .c04 import make_obj, GEAR, DEV, INST
from .c12 import get_map

NOARG, NONINT, IBCAST, IUNADDR = 9999, -7777, -1000, -1001
WRONGOBJ, FLOATP = -7001, -7002      # an address object of the other kind / a float where a number is expected
CARRIERS = {"102.UnknownGearCommand", "103.UnknownDeviceCommand", "Command", "103.UnknownEvent",
            "103.AmbiguousInstanceType"}


def _real(x):
    """destination / instance argument as the real constructor wants it"""
    k, n = x
    if k == "int":
        return n
    if k == "other":
        return "x"
    attr = {"gshort": "address", "dshort": "address", "ggroup": "group", "dgroup": "group"}.get(k)
    if attr and MOVED[0]:
        # the same address, reached by changing the public number of an object built with another one
        o = make_obj([k, (n + 5) % 16])
        try:
            setattr(o, attr, n)
            if o == make_obj(x):
                return o
        except Exception:
            pass
    return make_obj(x)


MOVED = [0]


_ENUMS = {}


def _p(p, gear=True):
    if MOVED[0] and type(p) is int and 0 <= p <= 0xFFFF:
        # the same number as a member of an enumeration of the application (or of dali.gear.colour): an int like any other
        if p not in _ENUMS:
            import enum
            _ENUMS[p] = enum.IntEnum("Setting%d" % p, {"member": p}).member
        return _ENUMS[p]
    if p == WRONGOBJ:
        from dali import address
        return address.DeviceShort(5) if gear else address.GearShort(5)
    if p == FLOATP:
        return 5.0
    return "x" if p == NONINT else p


def construct(tbl, row, cls, dest, inst, p):
    if tbl == "gear":
        return cls(_real(dest)) if p == NOARG else cls(_real(dest), _p(p))
    if tbl == "dapc":
        return cls(_real(dest), _p(p))
    if tbl == "gearspecial":
        fl = row[3]
        if "A" in fl:
            return cls("MASK") if p == 255 else cls(_p(p))
        if "I" in fl:
            if p == IBCAST:
                return cls(broadcast=True)
            if p == IUNADDR:
                return cls()
            if p in (-1100, -1101, -1102):          # contradictory: broadcast together with an address (0, 5, False)
                return cls(broadcast=True, address={-1100: 0, -1101: 5, -1102: False}[p])
            return cls(address=_p(p))
        return cls() if p == NOARG else cls(_p(p))
    if tbl == "dev":
        return cls(_real(dest)) if p == NOARG else cls(_real(dest), _p(p, False))
    if tbl == "inst":
        return cls(_real(dest), _real(inst)) if p == NOARG else cls(_real(dest), _real(inst), _p(p, False))
    if tbl == "devspecial":
        fl = row[4]
        if "2" in fl:
            if p == NONINT:
                return cls("x", 0)
            if p in (WRONGOBJ, FLOATP):
                return cls(_p(p, False), 0)
            if p < 0:
                return cls(-1, 0)
            return cls(p >> 8, p & 255)
        return cls() if p == NOARG else cls(_p(p, False))
    raise AssertionError(tbl)


def rt_bits(obj, m=None):
    from dali import command
    r = command.from_frame(obj.frame, devicetype=obj.devicetype, dev_inst_map=m)
    b = 0
    if type(r) is type(obj):
        b |= 1
    if hasattr(obj, "destination"):
        if getattr(r, "destination", None) == obj.destination:
            b |= 2
    else:
        b |= 2
    okp = True
    for a in ("param", "power", "address", "broadcast", "param_1", "param_2"):
        if hasattr(obj, a) and not (hasattr(r, a) and getattr(r, a) == getattr(obj, a)):
            okp = False
    if okp:
        b |= 4
    if hasattr(obj, "instance"):
        if getattr(r, "instance", None) == obj.instance:
            b |= 8
    else:
        b |= 8
    if str(r) == str(obj):
        b |= 16
    if r.frame == obj.frame and len(r.frame) == len(obj.frame):
        b |= 32
    return b


def _ctor_job(job):
    tbl, rowix, row, q, dest, inst, pvname = job
    cls = CLASSES[q]
    cells = []
    for k, p in enumerate(cmdrec.PVALS[pvname][1]):
        MOVED[0] = (k + rowix) % 2
        try:
            obj = construct(tbl, row, cls, dest, inst, p)
        except Exception:
            cells.append(-1)
            continue
        try:
            cells.append(obj.frame.as_integer * 64 + rt_bits(obj))
        except Exception:
            cells.append(obj.frame.as_integer * 64)
        if dest and dest[0] == "int":
            # what an application stepping a kept address object through the bus does: the address object of a command
            # built from a bare integer is re-targeted afterwards -- later commands built from that integer are not its business
            try:
                obj.destination.address = (obj.destination.address + 37) % 64
            except Exception:  # noqa: no such attribute on this kind of destination
                pass
    return cells


def _evt_job(job):
    q, scheme, short, inum, group, pvname = job
    cls = CLASSES[q]
    from dali.device.occupancy import OccupancyEvent
    cells = []
    for p in cmdrec.PVALS[pvname][1]:
        kw = {}
        if scheme in ("device", "device_instance"):
            kw["short_address"] = short
        if scheme in ("device_instance", "instance"):
            kw["instance_number"] = inum
        if scheme == "device_group":
            kw["device_group"] = group
        if scheme == "instance_group":
            kw["instance_group"] = group
        if p != NOARG:
            if q == "303.OccupancyEvent" and isinstance(p, int) and 0 <= p < 16:
                kw["data"] = OccupancyEvent.EventData(movement=bool(p & 1), occupied=bool(p & 2), repeat=bool(p & 4),
                                                      sensor_type="movement" if p & 8 else "presence")
            else:
                kw["data"] = _p(p)
        try:
            obj = cls(**kw)
        except Exception:
            cells.append(-1)
            continue
        try:
            from dali import command
            m = get_map(obj.instance_type + 1) if scheme == "device_instance" else None
            r = command.from_frame(obj.frame, dev_inst_map=m)
            b = 0
            if type(r) is type(obj):
                b |= 1
            if getattr(r, "short_address", None) == obj.short_address:
                b |= 2
            if all(getattr(r, a, "?") == getattr(obj, a) for a in
                   ("instance_number", "instance_group", "device_group", "instance_type")):
                b |= 4
            if getattr(r, "event_data", "?") == obj.event_data:
                b |= 8
            if str(r) == str(obj):
                b |= 16
            if r.frame == obj.frame:
                b |= 32
            cells.append(obj.frame.as_integer * 64 + b)
        except Exception:
            cells.append(obj.frame.as_integer * 64)
    return cells


CLASSES = {}


def class_table():
    Command = cmdrec.init_names()
    CLASSES.clear()
    for c in Command._commands:
        CLASSES[core.qname(c)] = c
    return Command


def build(tier, seed):
    rng = random.Random(seed)
    t = core.spec_tables()
    pv = cmdrec.pvals
    byte_all = list(range(-1, 257)) + [NONINT, WRONGOBJ, FLOATP]
    byte_q = sorted({-1, 0, 1, 2, 127, 128, 254, 255, 256} | {rng.randrange(256) for _ in range(16)}) + [NONINT, WRONGOBJ, FLOATP]
    pv("none", [NOARG])
    pv("none+", [NOARG, 0, NONINT])
    pv("nibble", [-1] + list(range(16)) + [16, NOARG, NONINT, WRONGOBJ, FLOATP])
    pv("byte", byte_all if tier == "thorough" else byte_q)
    pv("short", [-1] + list(range(64)) + [64, 127, 255, NONINT, WRONGOBJ, FLOATP])
    pv("init", [IBCAST, IUNADDR, -1] + list(range(64)) + [64, NONINT, WRONGOBJ, FLOATP, -1100, -1101, -1102])
    two_q = sorted({0, 1, 255, 256, 257, 65535, 0xFE00, 0x00FE} | {rng.randrange(65536) for _ in range(64)})
    pv("two", (list(range(65536)) if tier == "thorough" else two_q) + [65536, 65536 + 7, -1, NONINT, WRONGOBJ, FLOATP])
    ill_gear = [["int", -1], ["int", 64], ["dshort", 5], ["dgroup", 3], ["dbcast", 0], ["dunaddr", 0], ["other", 0]]
    ill_dev = [["int", 5], ["gshort", 5], ["ggroup", 3], ["gbcast", 0], ["gunaddr", 0], ["other", 0]]
    gear_dests = GEAR + [["int", n] for n in range(64)] + ill_gear
    dev_dests = DEV + ill_dev
    jobs, missing = [], []
    none = ["none", 0]
    for ix, row in enumerate(t["gear"], 1):
        q = "%s.%s" % (row[0], row[1])
        if q not in CLASSES:
            missing.append(q)
            continue
        for d in gear_dests:
            jobs.append(("gear", ix, row, q, d, none, "nibble" if "P" in row[3] else "none+"))
    for d in gear_dests:
        jobs.append(("dapc", 0, None, "102.DAPC", d, none, "byte"))
    for ix, row in enumerate(t["gearspecial"], 1):
        q = "%s.%s" % (row[0], row[1])
        if q not in CLASSES:
            missing.append(q)
            continue
        fl = row[3]
        jobs.append(("gearspecial", ix, row, q, none, none,
                     "byte" if "B" in fl else "short" if "A" in fl else "init" if "I" in fl else "none+"))
    for ix, row in enumerate(t["dev"], 1):
        q = "%s.%s" % (row[0], row[1])
        if q not in CLASSES:
            missing.append(q)
            continue
        for d in dev_dests:
            jobs.append(("dev", ix, row, q, d, none, "none+"))
    insts_all = INST
    if tier == "thorough":
        pairs = [(d, i) for d in DEV for i in insts_all]
    else:
        d8 = [["dshort", 0], ["dshort", 63], ["dshort", 21], ["dgroup", 0], ["dgroup", 31], ["dbcast", 0],
              ["dunaddr", 0], ["dgroup", 10]]
        i6 = [["number", 0], ["group", 31], ["type", 1], ["fnumber", 5], ["broadcast", 0], ["fdevice", 0]]
        pairs = [(d, i) for d in d8 for i in insts_all] + [(d, i) for d in DEV for i in i6]
    pairs += [(d, ["number", 3]) for d in ill_dev] + [(["dshort", 1], ["other", 0])]
    # the reserved instance bytes named explicitly, and values that are no byte at all
    rsv = [b for b in range(256) if (b >> 5) in (2, 7) and b < 252]
    pairs += [(["dshort", 5], ["reserved", b]) for b in (rsv if tier == "thorough" else rsv[::7] + [rsv[-1]])]
    pairs += [(d, ["reserved", b]) for d in (["dshort", 5], ["dbcast", 0])
              for b in (-1, -2, -255, -256, 256, 257, 0x145, 0x1FF, 0xFFFF, 1 << 20, 5, 255)]
    for ix, row in enumerate(t["inst"], 1):
        q = "%s.%s" % (row[0], row[1])
        if q not in CLASSES:
            missing.append(q)
            continue
        for d, i in pairs:
            jobs.append(("inst", ix, row, q, d, i, "none"))
    for ix, row in enumerate(t["devspecial"], 1):
        q = "%s.%s" % (row[0], row[1])
        if q not in CLASSES:
            missing.append(q)
            continue
        fl = row[4]
        jobs.append(("devspecial", ix, row, q, none, none, "two" if "2" in fl else "byte" if "1" in fl else "none+"))
    # events
    evjobs = []
    pv("occ", list(range(16)))
    lux_q = sorted({0, 1, 2, 511, 512, 1022, 1023} | {rng.randrange(1024) for _ in range(24)})
    pv("lux", (list(range(1024)) if tier == "thorough" else lux_q) + [-1, 1024, 4096, NONINT])
    # (push-button events carry their own event code: a data argument on top of it must not turn them into another event)
    pv("pbdata", [NOARG, 0, 1, 2, 3, 9, 14, 1023])
    evclasses = [(name, "pbdata") for _, name in t["pushbutton"]] + [("303.OccupancyEvent", "occ"), ("304.LightEvent", "lux")]
    f64 = list(range(64)) if tier == "thorough" else [0, 1, 31, 32, 62, 63]
    for q, pvn in evclasses:
        if q not in CLASSES:
            missing.append(q)
            continue
        for s in f64 + [-1, 64]:
            evjobs.append((q, "device", s, 0, 0, pvn))
        for s in f64 + [-1, 64]:
            for n in list(range(32)) + [-1, 32]:
                evjobs.append((q, "device_instance", s, n, 0, pvn))
        for g in list(range(32)) + [-1, 32]:
            evjobs.append((q, "device_group", 0, 0, g, pvn))
            evjobs.append((q, "instance_group", 0, 0, g, pvn))
        for n in list(range(32)) + [-1, 32]:
            evjobs.append((q, "instance", 0, n, 0, pvn))
    return jobs, evjobs, sorted(set(missing))


def flag_records():
    from dali.frame import BackwardFrame
    t = core.spec_tables()
    recs = []
    for tbl in ("gear", "gearspecial", "dev", "inst", "devspecial"):
        for ix, row in enumerate(t[tbl], 1):
            q = "%s.%s" % (row[0], row[1])
            c = CLASSES.get(q)
            if c is None:
                continue
            yn = 0
            if c.response is not None:
                try:
                    yn = 1 if (c.response(None).value is False and c.response(BackwardFrame(0)).value is True) else 0
                except Exception:
                    yn = 0
            recs.append({"kind": "flags", "tbl": tbl, "rowix": ix, "cls": q, "tw": 1 if c.sendtwice else 0,
                         "dt": c.devicetype if isinstance(c.devicetype, int) else -1,
                         "q": 1 if c.response is not None else 0, "yn": yn})
            # ... and what command OBJECTS say about themselves: constructed with parameters from all over the range, and
            # decoded from their own frame (a driver reads the flags off the object it is handed)
            seen = set()
            for obj in _objects(tbl, row, c):
                for o in (obj, _redecode(obj, c)):
                    if o is None:
                        continue
                    try:
                        fl = (1 if o.sendtwice else 0, o.devicetype if isinstance(o.devicetype, int) else -1,
                              1 if o.response is not None else 0)
                    except Exception:
                        fl = (-1, -1, -1)
                    if fl not in seen:
                        seen.add(fl)
                        recs.append({"kind": "flags", "tbl": tbl, "rowix": ix, "cls": q, "tw": fl[0], "dt": fl[1], "q": fl[2],
                                     "yn": yn})
    return recs


def _objects(tbl, row, c):
    none = ["none", 0]
    fl = row[4] if tbl == "devspecial" else row[3]
    if tbl == "gear":
        tries = [(["gshort", 5], none, p) for p in (NOARG, 0, 6, 15)]
    elif tbl == "gearspecial":
        tries = [(none, none, p) for p in ((0, 1, 6, 8, 200, 255) if "B" in fl else (0, 5, 63, 255) if "A" in fl else
                                           (IBCAST, IUNADDR, 5) if "I" in fl else (NOARG,))]
    elif tbl == "dev":
        tries = [(["dshort", 5], none, p) for p in (NOARG, 0, 6)]
    elif tbl == "inst":
        tries = [(["dshort", 5], ["number", 2], p) for p in (NOARG, 0, 6)]
    else:
        tries = [(none, none, p) for p in ((0x0102, 0, 0xFFFF) if "2" in fl else (0, 6, 255) if "1" in fl else (NOARG,))]
    for dest, inst, p in tries:
        try:
            yield construct(tbl, row, c, dest, inst, p)
        except Exception:
            continue


def _redecode(obj, c):
    from dali import command
    try:
        dt = c.devicetype if isinstance(c.devicetype, int) else 0
        r = command.from_frame(obj.frame, devicetype=dt)
        return r if type(r) is type(obj) else None
    except Exception:
        return None


def _run(job):
    return _evt_job(job[1:]) if job[0] == "evt" else _ctor_job(job)


def record_all(tier, seed):
    class_table()
    cmdrec.PVALS.clear()
    jobs, evjobs, missing = build(tier, seed)
    alljobs = list(jobs) + [("evt",) + j for j in evjobs]
    results = core.pmap(_run, alljobs, chunksize=128)
    rows = core.Interner()
    recs = []
    ncells = nlegal = 0
    for j, cells in zip(alljobs, results):
        ncells += len(cells)
        nlegal += sum(1 for c in cells if c >= 0)
        if j[0] == "evt":
            _, q, scheme, short, inum, group, pvn = j
            recs.append({"kind": "evctor", "cls": q, "scheme": scheme, "short": short, "inum": inum, "group": group,
                         "pv": cmdrec.PVALS[pvn][0], "row": rows.add(cells)})
        else:
            tbl, rowix, row, q, dest, inst, pvn = j
            recs.append({"kind": "ctor", "tbl": tbl, "rowix": rowix, "cls": q, "dest": dest, "inst": inst,
                         "pv": cmdrec.PVALS[pvn][0], "row": rows.add(cells)})
    tabled = {"%s.%s" % (r[0], r[1]) for k in ("gear", "gearspecial", "dev", "inst", "devspecial")
              for r in core.spec_tables()[k]} | {n for _, n in core.spec_tables()["pushbutton"]} | \
        {"102.DAPC", "303.OccupancyEvent", "304.LightEvent"}
    unmapped = sorted(set(CLASSES) - tabled - CARRIERS)
    return recs, rows, ncells, nlegal, missing, unmapped


def judge(prop, mode, tier, seed, replay, with_flags=False, with_decode=False):
    out = core.Outcome(prop, tier, seed)
    out.is_replay = replay is not None
    with core.Scratch(prop.lower()) as sc:
        recs, rows, ncells, nlegal, missing, unmapped = record_all(tier, seed)
        if with_flags:
            recs += flag_records()
        if with_decode:
            from . import c01
            djobs = [j for j in c01.build(tier, seed) if j[0] in ("dec16", "dec24") and (j[0] == "dec16" or j[1][1] == 0)]
            dres = core.pmap(c01._run, djobs, chunksize=64)
            for (kind, j), cells in zip(djobs, dres):
                ncells += len(cells)
                if kind == "dec16":
                    recs.append({"kind": kind, "dt": j[0], "hb": j[1], "row": rows.add(cells)})
                else:
                    recs.append({"kind": kind, "hi": j[0], "map": j[1], "pv": cmdrec.PVALS[j[2]][0], "row": rows.add(cells)})
        if with_decode:
            from . import freshproc
            fresh = freshproc.decode_records(rows)
            ncells += sum(len(rows.rows[r_["row"] - 1]) for r_ in fresh)
            recs += fresh
        if replay is not None:
            c = replay["case"]
            recs = [r for r in recs if all(r.get(k) == v for k, v in c.items())]
        for ix, r_ in enumerate(recs, 1):
            r_["id"] = ix
        rowfile = rows.write(sc.file("rows.ndjson"))
        namefile = sc.file("names.ndjson")
        core.write_ndjson(namefile, [cmdrec.names_list()])
        pvfile = cmdrec.pvals_file(sc)
        paths, counts = core.shard_records(recs, sc, prop.lower(), nshards=core.NCPU if replay is None else 1)
        rejects, notes, states, trans, wall = core.judge_shards(
            "CmdJudge", "CmdJudge.cfg", paths, sc, expect_counts=counts,
            extra_env={"ROWS": rowfile, "NAMES": namefile, "PVALS": pvfile, "MODE": mode})
        out.states += states
        out.transitions += trans
        out.traces = len(recs)
        out.evaluations = ncells
        out.distinct_nontrivial = nlegal if mode == "c02" else ncells
        out.extra.update({"constructed": nlegal, "rows_without_class": missing, "classes_without_row": unmapped,
                          "distinct_rows": len(rows.rows)})
        byid = {r_["id"]: r_ for r_ in recs}
        mid = recs[len(recs) // 3]
        out.samples = [dict({k: v for k, v in mid.items()}, cells_head=rows.rows[mid["row"] - 1][:6] if "row" in mid else None),
                       {"pvals": {k: v[1][:12] for k, v in cmdrec.PVALS.items()}}]
        rej = []
        for rj in rejects:
            rec = byid.get(rj[1], {})
            case = {k: rec[k] for k in ("kind", "tbl", "rowix", "cls", "dest", "inst", "scheme", "short", "inum", "group",
                                        "dt", "hb", "hi", "map") if k in rec}
            rej.append((case, {"clause": rj[2], "at": rj[3]}))
        return out, rej


def run(tier, seed, replay=None):
    out, rej = judge("C02", "c02", tier, seed, replay)
    out.rule = ("cells = (command class, destination, instance, parameter) constructor calls enumerated from the "
                "specification's tables incl. one-step illegal excursions; non-trivial = tuples that constructed an "
                "object (each then decoded and compared); events: class x scheme x field values x data")
    out.exhaustive = tier == "thorough"
    out.assumptions = ["argument spaces come from the specification's tables; classes without a table row are listed, "
                       "not judged", "equality of decoded and original object uses the library's own == on "
                       "destination/instance and attribute comparison on param/power/address/broadcast/param_1/param_2",
                       "excluded: instance-addressed command with instance byte 0xFE (as the property states)"]
    out.classify(rej, None)
    return out.finish()
