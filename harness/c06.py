"""C06 -- responses interpret every backward-frame outcome.

Spec:    spec/Responses.tla (clauses per answer kind), StdTables.tla (answer column, bit names,
         enumerations), ResponsesModel.tla (non-vacuity / discrimination of the clauses)
Binding: every response class reachable from a command class x 513 outcomes recorded from the
         real objects; TLC (ResponsesJudge.tla) judges each class against the answer column of
         every command it is attached to.
"""
from . import core


def _value_cell(fn, arg):
    from enum import Enum
    try:
        v = fn()
    except Exception as e:  # noqa: recorded
        return "exc", 0, type(e).__name__
    if v is None:
        return "none", 0, ""
    if v is True or v is False:
        return "bool", int(v), ""
    if isinstance(v, Enum):
        try:
            return "enum", int(v.value), v.name
        except Exception:
            return "other", 0, ""
    if type(v) is int:
        return "int", v, ""
    if isinstance(v, str):
        return "str", 0, ""
    if v is arg:
        return "frame", 1, ""
    from dali.frame import Frame
    if isinstance(v, Frame):
        return "frame", 0, ""
    return "other", 0, ""


def mangle(name):
    return name.replace(" ", "_").replace("-", "")


def record_class(rid, rcls, cmds, bitnames):
    from dali.frame import BackwardFrame, BackwardFrameError, Frame, ForwardFrame
    outcomes = [None] + [BackwardFrame(v) for v in range(256)] + [BackwardFrameError(v) for v in range(256)]
    cells = []
    # a caller that edits what it was handed: lists returned by an earlier response must not be what a later one
    # (same class, same byte) reports -- every mutable object a response returns is scribbled on in a first pass
    for arg in outcomes:
        try:
            r0 = rcls(arg)
            for attr in ("status", "value"):
                try:
                    v0 = getattr(r0, attr)
                except Exception:
                    continue
                if isinstance(v0, list):
                    v0.clear()
                    v0.append("#scribble")
                elif isinstance(v0, (dict, set)):
                    v0.clear()
        except Exception:
            pass
    for arg in outcomes:
        r = rcls(arg)
        try:
            raw = 1 if r.raw_value is arg else 0
        except Exception:
            raw = 0
        vk, vi, vn = _value_cell(lambda: r.value, arg)
        status = ["#na"]
        try:
            st = r.status
            if isinstance(st, (list, tuple)):
                status = [s if isinstance(s, str) else "#nonstr" for s in st]
            else:
                status = ["#nonlist"]
        except AttributeError:
            status = ["#na"]
        except Exception as e:  # noqa
            status = ["#exc", type(e).__name__]
        try:
            ev = r.error
            err = 1 if ev is True else 0 if ev is False else -3
        except AttributeError:
            err = -1
        except Exception:
            err = -3
        bits = []
        for nm in bitnames:
            if nm == "":
                bits.append(-9)
                continue
            try:
                b = getattr(r, mangle(nm))
                bits.append(1 if b is True else 0 if b is False else -1 if b is None else -3)
            except AttributeError:
                bits.append(-2)
            except Exception:
                bits.append(-3)
        try:
            s = str(r)
            sres = "ok" if isinstance(s, str) else "exc:nonstr"
            # every other way of rendering the answer as text: repr, format, %-formatting, inside a container
            for t in (repr(r), format(r), "%s" % (r,), "%r" % (r,), "{}".format(r), str([r]), str({"a": r})):
                if not isinstance(t, str):
                    sres = "exc:nonstr"
            # renderings with a format specification: whether these are supported at all is the library's choice (TypeError
            # today), but if an answer is rendered, MissingResponse / ResponseError must not come out of it
            from dali.exceptions import MissingResponse, ResponseError
            for spec in ("<24", ">12", "10", "3d", "s", "^8"):
                for how in (lambda: format(r, spec), lambda: ("{:%s}" % spec).format(r)):
                    try:
                        how()
                    except (MissingResponse, ResponseError) as e:
                        sres = "exc:" + type(e).__name__
                    except Exception:
                        pass
        except Exception as e:  # noqa
            sres = "exc:" + type(e).__name__
        cells.append({"raw": raw, "vk": vk, "vi": vi, "vn": vn, "status": status, "err": err,
                      "bits": bits, "str": sres})
    ctor = []
    from dali import command as _cmd
    from dali.frame import BackwardFrame as _BF

    class _Duck:                # looks like a backward frame, is none
        as_integer, error = 3, False

        def __len__(self):
            return 8
    for label, bad in (("int", 5), ("str", "x"), ("bytes", b"\x01"), ("Frame8", Frame(8, 1)),
                       ("ForwardFrame16", ForwardFrame(16, 1)), ("list", [1]), ("bool", True),
                       # other objects of the library that carry an answer, or look like one
                       ("Response(None)", _cmd.Response(None)), ("Response(frame)", _cmd.Response(_BF(7))),
                       ("own-class(None)", rcls(None)), ("own-class(frame)", rcls(_BF(7))),
                       ("YesNoResponse(frame)", _cmd.YesNoResponse(_BF(255))), ("Command", _cmd.Command(ForwardFrame(16, 0))),
                       ("BackwardFrame-class", _BF), ("tuple(frame)", (_BF(1),)), ("float", 7.0), ("duck", _Duck())):
        try:
            rcls(bad)
            ctor.append([label, "ok"])
        except Exception:
            ctor.append([label, "exc"])
    return {"id": rid, "cls": core.qname(rcls), "cmds": cmds, "cells": cells, "ctor": ctor}


def collect():
    Command = core.import_all_commands()
    tables = core.spec_tables()
    answer = {}
    for key in ("gear", "gearspecial", "dev", "inst"):
        for row in tables[key]:
            answer["%s.%s" % (row[0], row[1])] = row[4]
    for row in tables["devspecial"]:
        answer["%s.%s" % (row[0], row[1])] = row[5]
    byresp = {}
    for c in Command._commands:
        if c.response is not None:
            byresp.setdefault(c.response, []).append(core.qname(c))
    recs = []
    for rid, (rcls, cmds) in enumerate(sorted(byresp.items(), key=lambda kv: core.qname(kv[0])), 1):
        names = []
        for q in cmds:
            a = answer.get(q, "")
            if a.startswith("bm:"):
                names = tables["bitnames"][a[3:]]
        recs.append(record_class(rid, rcls, sorted(cmds), names))
    return recs


def run(tier, seed, replay=None):
    out = core.Outcome("C06", tier, seed)
    out.is_replay = replay is not None
    with core.Scratch("c06") as sc:
        if replay is None:
            r = core.spec_check("ResponsesModel", "ResponsesModel.cfg", sc, workers=4)
            out.add_spec_run(r, "ResponsesModel")
        recs = collect()
        if replay is not None:
            recs = [r for r in recs if r["cls"] == replay["case"]["cls"]]
        paths, counts = core.shard_records(recs, sc, "c06", nshards=min(8, len(recs)))
        rejects, notes, states, trans, wall = core.judge_shards(
            "ResponsesJudge", "ResponsesJudge.cfg", paths, sc, expect_counts=counts)
        out.states += states
        out.transitions += trans
        out.traces = len(recs)
        out.evaluations = sum(len(r["cells"]) for r in recs)
        out.distinct_nontrivial = out.evaluations
        out.exhaustive = True
        out.rule = ("every response class reachable from a command class (%d) x {no answer, 256 clean frames, "
                    "256 framing-error frames}; each (class, outcome) is a distinct cell" % len(recs))
        out.extra["response_classes"] = len(recs)
        out.extra["unmapped_commands"] = sorted({q for n in notes for q in (n[3] if isinstance(n[3], list) else [])})
        byid = {r["id"]: r for r in recs}
        r0 = recs[0]
        out.samples = [{"cls": r0["cls"], "cmds": r0["cmds"], "cells[1]": r0["cells"][0],
                        "cells[2+5]": r0["cells"][6], "cells[258+5]": r0["cells"][262], "ctor": r0["ctor"]}]
        out.assumptions = [
            "bit attribute names are the specification's display names with ' ' -> '_' and '-' removed (library API rule)",
            "numeric vs generic response for an 8-bit value is the library's choice; either is accepted, judged for "
            "consistency over all 513 outcomes",
            "text of str()/repr()/format() is not judged, only that rendering does not raise",
        ]
        rej = []
        for rj in rejects:
            rec = byid.get(rj[1], {})
            case = {"cls": rec.get("cls"), "cmds": rec.get("cmds")}
            at = rj[3]
            if isinstance(at, int) and 1 <= at <= 513 and rec:
                case["outcome_index"] = at
                case["cell"] = rec["cells"][at - 1]
            rej.append((case, {"clause": rj[2], "at": rj[3]}))
        out.classify(rej, None)
    return out.finish()
