"""C03 -- emitted frames and command flags conform to the IEC 62386 tables.

Same recordings as C02 (constructor tables) and C01 (decode tables), judged by TLC in MODE=c03:
frame = the frame the standard's tables assign; a frame built from the tables decodes to the class of
that name; sendtwice / expects-answer / yes-no vs value / devicetype flags match the tables.
"""
from . import c02


def run(tier, seed, replay=None):
    out, rej = c02.judge("C03", "c03", tier, seed, replay, with_flags=True, with_decode=True)
    out.rule = ("cells = constructor calls (frame compared with the standard's encoding), all decode cells of the "
                "16-bit x device type and 24-bit sweeps (class name compared with the name the tables give the frame), "
                "one flags record per command class")
    out.exhaustive = tier == "thorough"
    t = __import__("harness.core", fromlist=["x"]).spec_tables()
    nsrc = {"std": 0, "doc": 0}
    for k in ("gear", "gearspecial", "dev", "inst"):
        for r in t[k]:
            nsrc[r[5]] += 1
    for r in t["devspecial"]:
        nsrc[r[6]] += 1
    out.extra["table_rows_by_provenance"] = nsrc
    out.assumptions = ["tables transcribed by hand from IEC 62386; rows marked doc are pins (see DESIGN.md section 4)",
                       "what a standard opcode (<224) means after ENABLE DEVICE TYPE x is not judged"]
    out.classify(rej, None)
    return out.finish()
