"""Runs one scenario on a real asyncio driver under the virtual loop with a fake gateway and returns the
observations TLC judges (C15, C16, C17, C18, C20)."""
import asyncio
import importlib
import os
import sys
import types

from . import core
from .vloop import VLoop, Deadlock
from . import gateways as G

core.ensure_repo_on_path()


def _stub_modules():
    """serial_asyncio may be absent; the drivers only need create_serial_connection from it"""
    if "serial_asyncio" not in sys.modules:
        try:
            importlib.import_module("serial_asyncio")
        except Exception:
            m = types.ModuleType("serial_asyncio")

            async def create_serial_connection(*a, **k):
                raise RuntimeError("not patched")
            m.create_serial_connection = create_serial_connection
            m.SerialTransport = object
            sys.modules["serial_asyncio"] = m


# -- the menu of commands callers can send ----------------------------------------------------------
def make_command(key, n):
    """key selects the kind, n makes the frame distinguishable per caller/position (address 0..63)"""
    from dali import address as A
    from dali.gear import general as gg, led, emergency
    from dali.device import general as dg
    a = n % 64
    table = {
        "dapc": lambda: gg.DAPC(A.GearShort(a), 100 + n % 100),
        "off": lambda: gg.Off(A.GearShort(a)),
        "q16": lambda: gg.QueryActualLevel(A.GearShort(a)),
        "yn16": lambda: gg.QueryControlGearPresent(A.GearShort(a)),
        "st16": lambda: gg.QueryStatus(A.GearShort(a)),
        "cfg": lambda: gg.SetMaxLevel(A.GearShort(a)),
        "dtr": lambda: gg.DTR0(n % 256),
        # the search-address commands (special commands 0xB1 / 0xB3 / 0xB5: the ATX hat driver has an arm of its own for them)
        "sah": lambda: gg.SearchaddrH(n % 256),
        "sam": lambda: gg.SearchaddrM(n % 256),
        "sal": lambda: gg.SearchaddrL(n % 256),
        # ENABLE DEVICE TYPE sent by the application itself (a command like any other: device type 0)
        "edt6": lambda: gg.EnableDeviceType(6),
        "edt1": lambda: gg.EnableDeviceType(1),
        "qdt6": lambda: led.QueryGearType(A.GearShort(a)),
        "cfgdt6": lambda: led.SelectDimmingCurve(A.GearShort(a)),
        "qdt1": lambda: emergency.QueryBatteryCharge(A.GearShort(a)),
        "q24": lambda: dg.QueryDeviceStatus(A.DeviceShort(a)),
        "c24": lambda: dg.IdentifyDevice(A.DeviceShort(a)),
        "n24": lambda: dg.DTR0(n % 256),
        "i24": lambda: dg.QueryInstanceType(A.DeviceShort(a), A.InstanceNumber(n % 32)),
        # frames of a length no gateway carries (a driver must refuse them)
        "odd8": lambda: _odd(8, n % 256),
        "odd25": lambda: _odd(25, n),
    }
    return table[key]()


def _odd(bits, value):
    from dali import command, frame

    class Odd(command.Command):
        def __init__(self):
            self._data = frame.ForwardFrame(bits, value)

        @property
        def frame(self):
            return self._data
    return Odd()


def _deal_shared(r):
    """what the callable shared by the subscriptions D1 / D2 collected, dealt out alternately (both joined at the start and
    never left, so every report reaches it twice in a row)"""
    t = dict(r.traffic)
    lst = getattr(r, "_shared_list", None)
    if lst is not None:
        t["D1"], t["D2"] = lst[0::2], lst[1::2]
    return t


def describe_command(cmd):
    return {"frame": cmd.frame.as_integer, "bits": len(cmd.frame), "dt": cmd.devicetype if isinstance(cmd.devicetype, int) else 0,
            "twice": 1 if cmd.sendtwice else 0, "query": 1 if cmd.response is not None else 0,
            "resp": core.qname(cmd.response) if cmd.response is not None else "none", "cls": core.qname(type(cmd))}


def describe_result(r):
    if r is None:
        return {"k": "none", "cls": "none", "raw": ["none", 0]}
    raw = getattr(r, "raw_value", "?")
    cls = core.qname(type(r)) if type(r).__module__ in core.PART_OF_MODULE else \
        ("dali.command." + type(r).__name__ if type(r).__module__ == "dali.command" else type(r).__name__)
    if raw is None:
        return {"k": "resp", "cls": cls, "raw": ["none", 0]}
    if hasattr(raw, "as_integer"):
        return {"k": "resp", "cls": cls, "raw": ["err" if raw.error else "val", 255 if raw.error else raw.as_integer]}
    return {"k": "other", "cls": cls, "raw": ["none", 0]}


def _seq_of(cmds, flag=None):
    """a library-style sequence (generator) yielding the given items (commands, sequences.sleep, sequences.progress)
    and returning the responses to the commands; what comes back for a sleep / progress item must be None"""
    from dali.command import Command

    def gen():
        if flag is not None:
            flag["started"] = True
        out = []
        try:
            for c in cmds:
                r = yield c
                if isinstance(c, Command):
                    out.append(r)
                elif r is not None and flag is not None:
                    flag["aux_bad"] = True
        finally:
            if flag is not None and flag.get("badclose") and len(out) < sum(1 for c in cmds if isinstance(c, Command)):
                # an ill-behaved sequence: its clean-up wants to send one more command, so close() raises RuntimeError
                yield [c for c in cmds if isinstance(c, Command)][0]
        return out
    return gen()


class LoggingLock(asyncio.Lock):
    """asyncio.Lock that records acquire calls, delayed grants and releases (installed by the harness as the driver's
    public transaction_lock attribute; the driver itself is not modified)"""

    def __init__(self, log):
        super().__init__()
        self._elog = log

    async def acquire(self):
        name = G._task_name()
        fast = (not self._locked and (self._waiters is None or all(w.cancelled() for w in self._waiters)))
        self._elog({"ev": "acq_call", "c": name})
        r = await super().acquire()
        if not fast:
            self._elog({"ev": "acq_got", "c": name})
        return r


class Run:
    def __init__(self, sc):
        self.sc = sc
        self.elog = []
        self.presend = []
        self.loop = VLoop()
        self.kind = sc["driver"]
        gwcls = {"tridonic": G.GwTridonic, "hasseb": G.GwHasseb, "luba": G.GwLuba, "sci": G.GwSci}[self.kind]
        self.gw = gwcls(self.loop, sc)
        self.status = []
        self.traffic = {}
        self.callers = {}
        self.events = {}
        self.tasks = {}
        self.time_triggers = sorted(sc.get("time_triggers", []))     # [time, action]
        self.observes = sorted(sc.get("observe", []))                # [time, kind, value, bits]
        self.subs = sorted(sc.get("subscribers", []))                # [time, "join"|"leave", name]
        self.handles = {}
        self.queues = {}
        self.driver = None
        self.closed_seqs = {}
        self.lost_at = -1.0
        self.returned_in_time = True

    # -- environment -------------------------------------------------------------------------
    def boundary(self, loop, timeout):
        now = loop.time()
        gw = self.gw
        if gw.present and self.lost_at < 0 and gw.writes and gw.writes[-1].get("failed"):
            # a failed write makes the driver drop the connection although the device node is still there
            self.lost_at = gw.writes[-1]["now"]
            lim = self.sc.get("reconnect_limit")
            self.returned_in_time = lim is None or lim >= 1
        if not gw.present and self.lost_at < 0:
            self.lost_at = now
            ar = self.sc.get("auto_return")
            if ar is not None:
                self.time_triggers.append([now + ar, "return"])
                if self.sc.get("repeat"):
                    self.time_triggers.append([now + ar + 2.25, "lose"])
                    self.time_triggers.append([now + ar + 2.25 + ar, "return"])
                self.time_triggers.sort()
            lim = self.sc.get("reconnect_limit")
            iv = self.sc.get("reconnect_interval", 1)
            # would the device be back before the reconnect attempts run out?
            self.returned_in_time = (lim is None) or (ar is not None and ar < lim * iv)
        while self.time_triggers and self.time_triggers[0][0] <= now + 1e-12:
            act = self.time_triggers.pop(0)[1]
            if act == "connect":
                # the application asks for the connection again (after the driver reported 'failed')
                try:
                    self.driver.connect()
                except Exception:      # noqa: shows in what follows
                    pass
            else:
                self.gw.apply(act)
        if self.sc.get("observe_after_cmd") and not getattr(self, "_obs_anchored", False):
            # observed traffic timed relative to the moment the n-th DALI command went out
            if self.gw.ncmd >= self.sc["observe_after_cmd"]:
                self._obs_anchored = True
                self.observes = [[t + now, k, v, b] for t, k, v, b in self.observes]
        while self.observes and self.observes[0][0] <= now + 1e-12 and \
                (not self.sc.get("observe_after_cmd") or getattr(self, "_obs_anchored", False)):
            _, kind, value, bits = self.observes.pop(0)
            if "observe_latency" in self.sc:
                keep, self.gw.latency = self.gw.latency, self.sc["observe_latency"]
                self.gw.observe(kind, value, bits)
                self.gw.latency = keep
            else:
                self.gw.observe(kind, value, bits)
        while self.subs and self.subs[0][0] <= now + 1e-12:
            _, what, name = self.subs.pop(0)
            self._subscriber(what, name)
        self.gw.release(now)
        for name, c in self.callers.items():
            ev = self.events[name]
            if not ev.is_set() and self._cond(c.get("start", {"time": 0.0}), now):
                ev.set()
            t = self.tasks.get(name)
            cc = c.get("cancel")
            if cc and t is not None and not t.done() and not c.get("_cancelled") and c.get("_started") and self._cond(cc, now):
                c["_cancelled"] = True
                self.elog.append({"ev": "cancel_req", "c": name})
                t.cancel()
        return [self.gw.fd] if self.gw.readable() else []

    def on_idle(self):
        """the loop has nothing to do: start the first caller that is still waiting for its start condition"""
        for name in self.callers:
            ev = self.events[name]
            if not ev.is_set():
                ev.set()
                return True
        return False

    def _cond(self, cond, now):
        if "time" in cond:
            return now + 1e-12 >= cond["time"]
        if "writes" in cond:
            return len(self.gw.writes) >= cond["writes"]
        if "reports" in cond:
            return self.gw.nreports_delivered >= cond["reports"]
        return True

    def next_external(self):
        cands = []
        nr = self.gw.next_release()
        if nr is not None:
            cands.append(nr)
        waiting = self.sc.get("observe_after_cmd") and not getattr(self, "_obs_anchored", False)
        for lst in (self.time_triggers, [] if waiting else self.observes, self.subs):
            if lst:
                cands.append(lst[0][0])
        for name, c in self.callers.items():
            st = c.get("start", {"time": 0.0})
            if not self.events[name].is_set() and "time" in st:
                cands.append(st["time"])
            cc = c.get("cancel")
            if cc and "time" in cc and not c.get("_cancelled"):
                cands.append(cc["time"])
        return min(cands) if cands else None

    def _subscriber(self, what, name):
        d = self.driver
        if self.kind in ("tridonic", "hasseb"):
            if what == "join":
                self.traffic.setdefault(name, [])
                if name.startswith("D"):
                    # two subscriptions that hand over the SAME callable (a bound method of one object, say): both are
                    # subscriptions in their own right; the callable cannot tell which one called it, so what it collects is
                    # dealt out to the two names alternately afterwards
                    if not hasattr(self, "_shared_cb"):
                        self._shared_list = []
                        self._shared_cb = lambda drv, cmd, resp, err: self._shared_list.append(self._traffic_item(cmd, resp, err))
                    self.traffic.setdefault(name, [])
                    self.handles[name] = d.bus_traffic.register(self._shared_cb)
                    return
                def deliver(drv, cmd, resp, err, _n=name):
                    self.traffic[_n].append(self._traffic_item(cmd, resp, err))
                    if _n.startswith("X"):
                        # a subscriber of the application that chokes on what it is handed: its problem, nobody else's
                        raise RuntimeError("subscriber %s cannot cope with %s" % (_n, type(cmd).__name__))
                self.handles[name] = d.bus_traffic.register(deliver)
            else:
                h = self.handles.pop(name, None)
                if h:
                    h.unregister()
        else:
            if what == "join":
                self.queues[name] = d.new_dali_rx_queue()
                self.traffic.setdefault(name, [])
            else:
                q = self.queues.pop(name, None)
                if q is not None:
                    self._drain(name, q)
                    q._parent.del_handler(q)

    def _drain(self, name, q):
        while not q.empty():
            cmd = q.get_nowait()
            self.traffic[name].append(self._traffic_item(cmd, None, False))

    def _traffic_item(self, cmd, resp, err):
        return {"now": round(self.loop.time(), 6), "frame": cmd.frame.as_integer, "bits": len(cmd.frame),
                "cls": core.qname(type(cmd)) if type(cmd).__module__ in core.PART_OF_MODULE else type(cmd).__name__,
                "resp": describe_result(resp), "err": 1 if err else 0}

    # -- driver set-up ---------------------------------------------------------------------------
    async def setup(self):
        sc = self.sc
        if self.kind in ("tridonic", "hasseb"):
            import dali.driver.hid as H
            H.os = G.FakeHidOS(self.gw)

            class _R:
                @staticmethod
                def randint(a, b):
                    fs = sc.get("first_seq", 1)
                    return a if fs == "lo" else b if fs == "hi" else fs
            H.random = _R
            cls = H.tridonic if self.kind == "tridonic" else H.hasseb
            H.glob = G.FakeGlob(self.gw)
            if sc.get("glob"):
                # the device node is given as a pattern; the node may come back under another name that matches it
                d = cls("/dev/fake-dali*", glob=True, reconnect_interval=sc.get("reconnect_interval", 1),
                        reconnect_limit=sc.get("reconnect_limit"))
            else:
                d = cls("/dev/fake-dali", reconnect_interval=sc.get("reconnect_interval", 1),
                        reconnect_limit=sc.get("reconnect_limit"))
            d.exceptions_on_send = sc.get("exceptions", True)
            if sc.get("trace_events"):
                d.transaction_lock = LoggingLock(self.elog.append)
                self.gw.elog = self.elog.append
            self.driver = d
            d.connection_status_callback.register(lambda drv, st: self.status.append([round(self.loop.time(), 6), st]))
            if sc.get("trace_events"):
                d.connection_status_callback.register(lambda drv, st: self.elog.append({"ev": "status", "st": str(st)}))
            d.connect()
        else:
            _stub_modules()
            import dali.driver.serial as S
            gw = self.gw
            proto_holder = {}

            async def fake_create(loop=None, protocol_factory=None, **kw):
                p = protocol_factory()
                tr = G.FakeTransport(gw)
                p.connection_made(tr)
                gw.attach(p)
                proto_holder["p"] = p
                return tr, p
            S.serial_asyncio.create_serial_connection = fake_create
            cls = S.DriverLubaRs232 if self.kind == "luba" else S.DriverSCIRS232
            d = cls(("luba232" if self.kind == "luba" else "scirs232") + ":/dev/fake")
            self.driver = d
            if sc.get("send_before_connect"):
                # an application that sends too early is told so (IOError); nothing may be left behind by that
                for k in range(sc["send_before_connect"]):
                    try:
                        await asyncio.wait_for(d.send(make_command("q16" if k % 2 else "qdt6", k)), timeout=1)
                        self.presend.append("none")
                    except BaseException as e:  # noqa: recorded
                        self.presend.append(type(e).__name__)
            await d.connect()
            if sc.get("trace_events"):
                d.transaction_lock = LoggingLock(self.elog.append)
                gw.elog = self.elog.append

    async def wait_connected(self):
        d = self.driver
        if self.kind in ("tridonic", "hasseb"):
            await d.connected.wait()

    # -- callers ---------------------------------------------------------------------------------
    async def caller(self, name, c):
        await self.events[name].wait()
        self.callers[name]["_started"] = True
        d = self.driver
        from dali import sequences as _sq
        if c.get("mode") == "power":
            # switches the interface's bus power supply: each call is a unit of its own, under the transaction lock
            res = {"results": [], "exc": "none", "closed": -1, "t0": round(self.loop.time(), 6), "t1": -1, "aux_ok": 1}
            self.callers[name]["_desc"] = [{"frame": 0x4000 + (n & 1), "bits": 8, "dt": 0, "twice": 0, "query": 0, "resp": "none",
                                            "cls": "power"} for _, n in c["unit"]]
            try:
                for _, n in c["unit"]:
                    await d.power_supply(bool(n & 1))
                    res["results"].append(describe_result(None))
            except asyncio.CancelledError:
                res["exc"] = "CancelledError"
            except BaseException as e:  # noqa: recorded
                res["exc"] = type(e).__name__
            res["t1"] = round(self.loop.time(), 6)
            self.callers[name]["_res"] = res
            self.elog.append({"ev": "done", "c": name, "exc": {"none": "none", "CancelledError": "Cancelled"}.get(res["exc"], res["exc"]),
                              "nres": len(res["results"]), "res": [["none", 0] for _ in res["results"]]})
            return
        items = [(_sq.sleep(n / 1000.0) if k == "sleep" else _sq.progress(message="p%d" % n) if k == "progress" else make_command(k, n))
                 for k, n in c["unit"]]
        cmds = [x for x in items if not isinstance(x, (_sq.sleep, _sq.progress))]
        nprog = sum(1 for x in items if isinstance(x, _sq.progress))
        res = {"results": [], "exc": "none", "closed": -1, "t0": round(self.loop.time(), 6), "t1": -1, "aux_ok": 1}
        self.callers[name]["_desc"] = [describe_command(x) for x in cmds]
        kw = {}
        if self.kind in ("tridonic", "hasseb") and "exceptions" in c:
            kw["exceptions"] = c["exceptions"]
        try:
            if c.get("mode", "send") == "send":
                for x in cmds:
                    try:
                        r = await d.send(x, **kw)
                    except Exception as e:  # noqa: an expected refusal does not end the caller
                        if type(e).__name__ in c.get("continue_on", []):
                            res["results"].append({"k": "exc", "cls": type(e).__name__, "raw": ["none", 0]})
                            continue
                        raise
                    res["results"].append(describe_result(r))
            else:
                flag = {"started": False, "badclose": bool(c.get("badclose"))}
                seq = _seq_of(items, flag)
                self.closed_seqs[name] = (seq, flag)
                seen = []
                rs = await d.run_sequence(seq, progress=seen.append)
                res["results"] = [describe_result(r) for r in (rs or [])]
                # sleep / progress items: answered with None, every progress item handed to the callback, in order
                if flag.get("aux_bad") or [str(x) for x in seen] != [str(x) for x in items if isinstance(x, _sq.progress)]:
                    res["aux_ok"] = 0
        except asyncio.CancelledError:
            res["exc"] = "CancelledError"
            self.elog.append({"ev": "cancel", "c": name})
        except BaseException as e:  # noqa: recorded
            res["exc"] = type(e).__name__
        if name in self.closed_seqs:
            g, flag = self.closed_seqs[name]
            # a sequence that was never started (cancelled while still waiting for the lock) has nothing to close
            res["closed"] = 1 if (g.gi_frame is None or not flag["started"]) else 0
        res["t1"] = round(self.loop.time(), 6)
        self.callers[name]["_res"] = res
        self.elog.append({"ev": "done", "c": name, "exc": {"none": "none", "CancelledError": "Cancelled"}.get(res["exc"], res["exc"]),
                            "nres": len(res["results"]),
                            "res": [["none", 0] if r["k"] == "none" else ["noanswer", 0] if r["raw"][0] == "none" else list(r["raw"])
                                    for r in res["results"]]})

    async def main(self):
        sc = self.sc
        self.loop.boundary = self.boundary
        self.loop.next_external = self.next_external
        self.loop.on_idle = self.on_idle
        out = {"setup_exc": "none"}
        try:
            await asyncio.wait_for(self.setup_and_connect(), timeout=sc.get("connect_timeout", 30))
        except BaseException as e:  # noqa
            out["setup_exc"] = type(e).__name__
        for c in sc.get("callers", []):
            name = c["name"]
            self.callers[name] = dict(c)
            self.events[name] = asyncio.Event()
        for name, c in self.callers.items():
            self.tasks[name] = asyncio.create_task(self.caller(name, c), name=name)
        if self.tasks:
            done, pending = await asyncio.wait(self.tasks.values(), timeout=sc.get("horizon", 120))
            out["hung"] = sorted(t.get_name() for t in pending)
            for t in pending:
                self.elog.append({"ev": "cancel_req", "c": t.get_name()})
                t.cancel()
            if pending:
                await asyncio.wait(pending, timeout=1)
        else:
            out["hung"] = []
            if sc.get("idle", 0):
                await asyncio.sleep(sc["idle"])
        if sc.get("post_idle", 0):
            await asyncio.sleep(sc["post_idle"])
        # tail: after everything is quiet (and the device is back) further sends must all work
        tail = {"n": 0, "ok": 0, "exc": "none", "wrong": 0, "start": round(self.loop.time(), 6)}
        if sc.get("tail_sends", 0):
            # let the fault scenario play out completely (device back or reconnect attempts exhausted) first
            if sc.get("settle", 0):
                await asyncio.sleep(sc["settle"])
            tail["status_len"] = len(self.status)
            tail["opens_len"] = len(getattr(self.gw, "openlog", []))
            self.gw.apply("return")
            self.gw.apply("write_ok")
            self.gw.per_boundary = None
            self.gw.latency = 0.0
            self.gw.latencies = []
            self.gw.triggers = []
            try:
                await asyncio.wait_for(self.tail(tail, sc["tail_sends"]), timeout=sc.get("tail_horizon", 600))
            except BaseException as e:  # noqa
                tail["exc"] = type(e).__name__
        out["tail"] = tail
        for name, q in list(self.queues.items()):
            self._drain(name, q)
        return out

    async def setup_and_connect(self):
        await self.setup()
        if not self.sc.get("no_wait_connected"):
            await self.wait_connected()

    async def _ensure_connected(self):
        d = self.driver
        if self.kind not in ("tridonic", "hasseb"):
            return
        for _ in range(400):
            if d.connected.is_set():
                return
            # after "failed" the application has to ask for a new connection itself
            if d._reconnect_task is None and d._f is None:
                d.connect()
            await asyncio.sleep(0.05)

    async def tail(self, tail, n):
        d = self.driver
        # let a loss that has just happened be noticed before the final sends start
        await asyncio.sleep(0.2)
        await self._ensure_connected()
        for i in range(n):
            tail["n"] += 1
            cmd = make_command("q16", i)
            try:
                r = await asyncio.wait_for(d.send(cmd), timeout=5)
            except (asyncio.TimeoutError, Exception) as e:  # noqa: one retry after making sure we are connected
                if i > 3:
                    raise
                await self._ensure_connected()
                r = await asyncio.wait_for(d.send(cmd), timeout=5)
            want = self.gw.cmdlog[-1]["outcome"] if self.gw.cmdlog else None
            if want is not None and want[0] == "err":
                want = ["none", 0] if self.kind in ("luba", "sci") else ["err", 255]
            got = describe_result(r)
            if got["k"] == "resp" and want is not None and got["raw"] == list(want) and self.gw.cmdlog[-1]["frame"] == cmd.frame.as_integer:
                tail["ok"] += 1
            else:
                tail["wrong"] += 1


def run_scenario(sc):
    """-> observation record (JSON-able)"""
    core.import_all_commands()
    r = Run(sc)
    loop = r.loop
    orig_select = loop.select

    def select(timeout):
        # cap the jump of virtual time at the next external event
        ne = r.next_external() if r.driver is not None or True else None
        if ne is not None:
            gap = max(0.0, ne - loop.time())
            if timeout is None or gap < timeout:
                timeout = gap
        if (timeout is None or timeout > 3.0) and not r.gw.readable() and not (r.gw.pending and r.gw.pending[0][0] <= loop.time()):
            # nothing will happen for a long while: a caller still waiting for an unreachable start condition starts now
            if r.on_idle():
                return orig_select(0)
        return orig_select(timeout)
    loop.select = select
    info = {"loop_exc": "none"}
    asyncio.set_event_loop(loop)
    out = {}
    try:
        out = loop.run_until_complete(r.main())
    except Deadlock as e:
        info["loop_exc"] = "Deadlock"
    except BaseException as e:  # noqa
        info["loop_exc"] = type(e).__name__
        if os.environ.get("VERIF_DEBUG"):
            import traceback
            traceback.print_exc()
    # what the driver learnt in the INIT handshake vs what the gateway said on the connection that is open at the end
    hs = {"applies": 0, "fw": "", "serial": "", "inits": [], "want_fw": "4.2", "want_serial": "12345678"}
    try:
        if r.kind == "tridonic" and r.driver.connected.is_set() and r.gw.present:
            hs.update(applies=1, fw=str(r.driver.firmware_version), serial=str(r.driver.serial),
                      inits=list(getattr(r.gw, "inits_since_open", [])))
    except Exception:
        pass
    lock_free = None
    try:
        lock_free = 0 if r.driver.transaction_lock.locked() else 1
    except Exception:
        lock_free = -1
    callers = []
    for name, c in r.callers.items():
        res = c.get("_res", {"results": [], "exc": "pending", "closed": -1, "t0": -1, "t1": -1})
        t = r.tasks.get(name)
        callers.append({"name": name, "mode": c.get("mode", "send"), "unit": c.get("_desc", []),
                        "results": res["results"], "exc": res["exc"], "closed": res["closed"],
                        "done": 1 if (t is not None and t.done()) else 0, "t0": res.get("t0", -1), "t1": res.get("t1", -1),
                        "cancelled": 1 if c.get("_cancelled") else 0, "aux_ok": res.get("aux_ok", 1),
                        "badclose": 1 if c.get("badclose") else 0,
                        "exceptions": 1 if (c.get("mode") == "sequence" or c.get("exceptions", sc.get("exceptions", True))) else 0})
    try:
        pending = [t for t in asyncio.all_tasks(loop) if not t.done()]
        for t in pending:
            t.cancel()
        if pending:
            loop.boundary = lambda l, to: []
            loop.next_external = lambda: None
            r.time_triggers, r.observes, r.subs = [], [], []
            r.gw.pending.clear()
            loop.idle_rounds = 0
            loop.run_until_complete(asyncio.gather(*pending, return_exceptions=True))
    except BaseException:
        pass
    finally:
        asyncio.set_event_loop(None)
        try:
            loop.close()
        except Exception:
            pass
    return {"driver": sc["driver"], "wire": r.gw.cmdlog, "writes": r.gw.writes if sc.get("keep_writes") else [],
            "nwrites": len(r.gw.writes), "callers": callers, "lock_free": lock_free, "status": r.status,
            "traffic": [[n, v] for n, v in sorted(_deal_shared(r).items())], "out": out, "info": info, "hs": hs, "presend": r.presend,
            "opens": getattr(r.gw, "openlog", []), "present_at_end": 1 if r.gw.present else 0,
            "lost_at": round(r.lost_at, 6), "returned_in_time": r.returned_in_time,
            "reports": r.gw.reports if sc.get("keep_reports") else [],
            "events": r.elog if sc.get("trace_events") else [],
            "now": round(loop.time(), 6), "iterations": loop.iterations}
