"""GearLevels (TLA+ model of a control gear's arc-power level, limits and scenes; growth item 3 of DESIGN 14.6):
exhaustive TLC runs of the IEC reading, the reading that follows dali/tests/fakes.py (two configurations MUST violate a
named property: the deviations of the repository's stand-in gear from IEC 62386-102), and spec -> code replay of EVERY arc
of the state graph (one implementation test per transition) on fakes.Gear through the library's real command objects,
the state read back with the real query commands.

fakes.py is test-support code outside the files C08 is anchored in: everything here is reported as model conformance
(drift), never as a verdict."""
from . import core

CFGS = [("GearLevels_iec.cfg", "GearLevels IEC reading, PHM 1 (TypeOK, LimitsOrdered, LevelInLimits, ZeroSceneIsOff, MaskKeeps, OnlyOffGoesDark)"),
        ("GearLevels_iec_phm3.cfg", "GearLevels IEC reading, PHM 3"),
        ("GearLevels_fake.cfg", "GearLevels as fakes.py behaves (TypeOK, LevelInLimits, MaskKeeps, OnlyOffGoesDark)")]
MUST_VIOLATE = [("GearLevels_fake_limits.cfg", "Invariant LimitsOrdered is violated",
                 "fakes.Gear: SET MIN LEVEL with DTR0 = 0 stores a minimum level of 0 (below the physical minimum)"),
                ("GearLevels_fake_scene.cfg", "Action property ZeroSceneIsOff is violated",
                 "fakes.Gear: GO TO SCENE of a scene holding 0 goes to the minimum level instead of switching off")]


def model_runs(out, sc):
    for cfg, label in CFGS:
        r = core.run_tlc("GearLevels", cfg, sc, workers=4, timeout=600)
        if not r.ok:
            raise core.MachineryError("GearLevels model check %s failed:\n%s" % (cfg, r.out[-3000:]))
        out.add_spec_run(r, label)
    dev = []
    for cfg, needle, what in MUST_VIOLATE:
        r = core.run_tlc("GearLevels", cfg, sc, workers=4, timeout=600)
        if needle not in r.out:
            raise core.MachineryError("GearLevels %s was expected to report '%s' (named deviation: %s)" % (cfg, needle, what))
        dev.append({"cfg": cfg, "property": needle.split()[-3], "deviation": what, "violated_as_expected": True})
    return dev


def replay_arc(arc):
    """arc = ["TR", state, op, state']: put a fakes.Gear into `state`, send the real command, read the state back."""
    core.ensure_repo_on_path()
    from dali.tests import fakes
    from dali.gear import general as G
    from dali.address import GearShort
    _, s, op, t = arc
    a = GearShort(5)
    gear = fakes.Gear(shortaddr=5)
    gear.level, gear.level_min, gear.level_max, gear.dtr0 = s["level"], s["lmin"], s["lmax"], s["dtr0"]
    gear.scenes[3] = s["scene"]
    o, v = op["o"], op["v"]
    cmd = {"DAPC": lambda: G.DAPC(a, v), "DTR0": lambda: G.DTR0(v), "Off": lambda: G.Off(a),
           "RecallMax": lambda: G.RecallMaxLevel(a), "RecallMin": lambda: G.RecallMinLevel(a),
           "SetMax": lambda: G.SetMaxLevel(a), "SetMin": lambda: G.SetMinLevel(a),
           "SetScene": lambda: G.SetScene(a, 3), "RemoveScene": lambda: G.RemoveFromScene(a, 3),
           "GoToScene": lambda: G.GoToScene(a, 3)}[o]()
    diffs = []
    try:
        # through the frame: what the gear receives is what the library decodes from the bytes the command encodes to
        from dali.command import Command
        from dali.frame import Frame
        wire = Command.from_frame(Frame(16, cmd.frame.as_integer))
        if type(wire) is not type(cmd):
            diffs.append("command %r re-decodes as %r" % (cmd, wire))
        ans = gear.send(wire)
        if ans is not None:
            diffs.append("%s answered %r" % (o, ans))
        got = {"level": gear.send(G.QueryActualLevel(a)), "lmin": gear.send(G.QueryMinLevel(a)),
               "lmax": gear.send(G.QueryMaxLevel(a)), "dtr0": gear.send(G.QueryContentDTR0(a)),
               "scene": gear.send(G.QuerySceneLevel(a, 3))}
        other = [x for i, x in enumerate(gear.scenes) if i != 3]
        if other != [255] * 15:
            diffs.append("another scene changed: %r" % (gear.scenes,))
    except Exception as e:  # noqa: recorded
        got = {"exc": type(e).__name__ + ": " + str(e)[:80]}
    if got != t:
        diffs.append("code %s, model %s" % (got, t))
    return {"state": s, "op": [o, v], "diffs": diffs}


def conformance(out, sc):
    r = core.run_tlc("GearLevels", "GearLevels_fake_export.cfg", sc, workers=1, timeout=600, xmx="3g")
    if not r.ok:
        raise core.MachineryError("GearLevels export failed:\n%s" % r.out[-3000:])
    arcs = core.extract_tagged(r.out, "TR")
    if len(arcs) < 20000:
        raise core.MachineryError("GearLevels export produced only %d arcs" % len(arcs))
    res = core.pmap(replay_arc, arcs, chunksize=512)
    drift = [x for x in res if x["diffs"]]
    ops = {}
    for x in res:
        ops[x["op"][0]] = ops.get(x["op"][0], 0) + 1
    block = {"model": "GearLevels.tla (Quirks = TRUE): dali/tests/fakes.py Gear.send, level / limit / scene commands",
             "direction": "spec -> code, one replay per arc of the state graph",
             "scope": "extension: fakes.py is the repository's stand-in gear, outside the files C08 is anchored in",
             "arcs_replayed": len(arcs), "identical": len(arcs) - len(drift), "by_operation": ops, "drift": drift[:5]}
    for x in drift[:5]:
        print("# DRIFT (not a verdict): fakes.Gear differs from GearLevels.tla in state %s on %s: %s" % (
            x["state"], x["op"], "; ".join(x["diffs"])))
    return block
