"""C10 -- memory writes store exactly the data or fail loudly; never silently.

Spec:    spec/MemUnit.tla (write side: writeEnableState, lock byte, echo, DTR0 auto-increment), MemMap.tla,
         MemSeqJudge.tla (clauses)
Binding: MemoryValue.write_raw / write run against the unit simulator with every unit variant and one fault of
         each kind at each step; TLC re-executes every frame on MemUnit and evaluates the clauses.
"""
import random

from . import core, memseq


def cases(tier, seed):
    rng = random.Random(seed)
    cs = []
    for (label, name), v in sorted(memseq.VALUES.items()):
        row = [r for r in memseq.SPECMAP[label] if r[1] == name]
        if not row:
            continue
        start, width, types, dec = row[0][2], row[0][3], row[0][4], row[0][5]
        writable = all(t in "WNL" for t in (types if len(types) > 1 else types * width))
        lockable = "L" in types
        reps = 1 if tier == "quick" else 4
        for k in range(reps):
            kind = "gear" if (k + len(name)) % 2 else "device"
            base = memseq.default_image(label, rng, "rand")
            data = [rng.getrandbits(8) for _ in range(width)]
            if not writable:
                # refused before anything is sent -- whatever options the caller passes
                cs.append({"seq": "write", "value": name, "wdata": data, "unit": memseq.unit(kind, label, list(base))})
                for opts in ({"force": 1}, {"ignore": 1}, {"force": 1, "ignore": 1}):
                    cs.append(dict({"seq": "write", "value": name, "wdata": data, "unit": memseq.unit(kind, label, list(base))}, **opts))
                cs.append({"seq": "write", "value": name, "wdata": data[:-1], "unit": memseq.unit(kind, label, list(base))})
                continue
            locks = [0xFF, 0x55, 0x13] if lockable else [base[2]]
            for lk in locks:
                m = list(base)
                m[2] = lk
                cs.append({"seq": "write", "value": name, "wdata": data,
                           "unit": memseq.unit(kind, label, m, dtr0=rng.randrange(256), dtr1=rng.randrange(256),
                                               wes=rng.randrange(2))})
            # literals: all-ones (MASK) / all-ones-minus-one (TMASK) patterns, zeros
            for lit in ([0xFF] * width, [0xFF] * (width - 1) + [0xFE], [0] * width):
                cs.append({"seq": "write", "value": name, "wdata": lit, "unit": memseq.unit(kind, label, list(base))})
            if dec == "str":
                for ln in sorted({0, 1, width - 1, width, rng.randrange(0, width + 1)}):
                    txt = [rng.randrange(0x20, 0x7F) for _ in range(ln)]
                    cs.append({"seq": "write", "value": name, "wdata": txt, "how": "text",
                               "unit": memseq.unit(kind, label, list(base))})
                    if ln < width:
                        cs.append({"seq": "write", "value": name, "wdata": txt, "unit": memseq.unit(kind, label, list(base))})
            # unit variants
            for var in ({"unlock": 0x66} if lockable else {"nobble": 1}, {"nobble": 1}, {"echoflip": 1}):
                cs.append({"seq": "write", "value": name, "wdata": data, "unit": memseq.unit(kind, label, list(base), **var)})
            cs.append({"seq": "write", "value": name, "wdata": data, "ignore": 1,
                       "unit": memseq.unit(kind, label, list(base), echoflip=1)})
            # force_unlock: the lock byte is opened and closed also for values that would not need it
            if name != "LockByte":       # (forcing the lock open to write the lock byte itself ends with the re-lock value)
                cs.append({"seq": "write", "value": name, "wdata": data, "force": 1, "unit": memseq.unit(kind, label, list(base))})
                cs.append({"seq": "write", "value": name, "wdata": data, "force": 1, "ignore": 1,
                           "unit": memseq.unit(kind, label, list(base))})
            # shorter bank / hole inside the value
            for la in sorted({max(2, start - 1), start + width // 2, start + width - 1}):
                m = list(base)
                m[0] = la
                cs.append({"seq": "write", "value": name, "wdata": data, "unit": memseq.unit(kind, label, m)})
            m = list(base)
            m[start + rng.randrange(width)] = -1
            cs.append({"seq": "write", "value": name, "wdata": data, "unit": memseq.unit(kind, label, m)})
            # one fault of each kind at each answered step
            steps = range(1, width + 1) if width <= 8 or tier == "thorough" else sorted({1, width, rng.randrange(1, width + 1)})
            for at in steps:
                for fk in ("silent", "err", "errsame", "stuck"):
                    cs.append({"seq": "write", "value": name, "wdata": data,
                               "unit": memseq.unit(kind, label, list(base), fault=[at, fk])})
    # values a user of the library declares himself: locations given in any order, with gaps
    for label, locs in (("1", [0x11, 0x10]), ("1", [0x20, 0x22, 0x23]), ("1", [0x15, 0x13]), ("206", [0x06, 0x04, 0x05]),
                        ("207", [0x06, 0x04])):
        for kind in ("gear", "device"):
            base = memseq.default_image(label, rng, "rand")
            data = [rng.getrandbits(8) for _ in locs]
            for var in ({}, {"ignore": 1}, {"force": 1}):
                cs.append(dict({"seq": "write", "value": "@custom", "locs": locs, "wdata": data,
                                "unit": memseq.unit(kind, label, list(base))}, **var))
            for at in range(1, len(locs) + 1):
                for fk in ("silent", "err", "stuck"):
                    cs.append({"seq": "write", "value": "@custom", "locs": locs, "wdata": data,
                               "unit": memseq.unit(kind, label, list(base), fault=[at, fk])})
    # data that is no byte string
    done = set()
    for (label, name), v in sorted(memseq.VALUES.items()):
        row = [r for r in memseq.SPECMAP[label] if r[1] == name]
        if not row or not all(t in "NLW" for t in (row[0][4] if len(row[0][4]) > 1 else row[0][4] * row[0][3])) or len(done) >= 6:
            continue
        done.add(name)
        base = memseq.default_image(label, rng, "rand")
        # (text of the right length is not in the list: the library notices it only when the first byte is to be sent, and
        # the property quantifies over byte strings)
        for bad in ("int", "true", "one", "none", "float"):
            for short in (0, 1):
                cs.append({"seq": "write", "value": name, "wdata": [], "badraw": bad, "short": short,
                           "unit": memseq.unit("gear", label, list(base))})
    # value-level writes to user-declared quantities, unsigned and signed: numbers (also negative, also the ones that
    # do not fit) and the MASK / TMASK literals -- what ends up in the unit is the pattern of the value's kind
    for label, locs in (("1", [0x10]), ("1", [0x10, 0x11]), ("1", [0x13, 0x14, 0x15]), ("1", [0x21, 0x20])):
        w = len(locs)
        for signed in (0, 1):
            top = 256 ** w
            nums = sorted({0, 1, -1, -2, 127, 128, -128, -129, top // 2 - 1, top // 2, -(top // 2), -(top // 2) - 1, top - 1, top,
                           top - 2, rng.randrange(top), -rng.randrange(1, top // 2 + 1)})
            for kind in ("gear", "device"):
                base = memseq.default_image(label, rng, "rand")
                for lit in ("MASK", "TMASK"):
                    if signed:
                        cs.append({"seq": "write", "value": "@custom", "locs": locs, "signed": signed, "lit": lit, "wdata": [],
                                   "unit": memseq.unit(kind, label, list(base))})
                for nv in nums:
                    cs.append({"seq": "write", "value": "@custom", "locs": locs, "signed": signed, "lit": "num", "num": nv,
                               "wdata": [], "unit": memseq.unit(kind, label, list(base))})
    return cs


def run(tier, seed, replay=None):
    memseq.init()
    out, rej = memseq.judge("C10", tier, seed, replay, cases,
                            "one trace per (value, data, lock byte state, addressing kind, unit variant, fault kind and "
                            "position, bank length / hole); non-trivial = distinct cases with >= 2 commands", model_ops=("write",))
    out.assumptions = ["documented exceptions = MemoryLocationNotWriteable, MemoryWriteFailure, ResponseError, "
                       "MemoryValueNotWriteable, MemoryLocationNotImplemented",
                       "only byte strings of the permitted length are generated",
                       "whether a failed write must re-lock the bank is not stated and not judged"]
    out.classify(rej, None)
    return out.finish()
