"""A deterministic virtual-time asyncio event loop.

It is asyncio.BaseEventLoop with the selector replaced by a *boundary hook*: at the start of every loop
iteration (exactly where a real loop polls the OS) the harness decides which external events have become
visible -- which fake file descriptors are readable -- and, when nothing is ready, virtual time jumps to the
next timer.  Within an iteration CPython's own BaseEventLoop._run_once runs unchanged (I/O callbacks, then due
timers, then the handles that were ready at the start), so the interleavings explored are real ones.
"""
import asyncio
import heapq


class Deadlock(Exception):
    """nothing is ready, no timer is pending and the environment has nothing more to deliver"""


class VLoop(asyncio.BaseEventLoop):
    def __init__(self):
        super().__init__()
        self._vtime = 0.0
        self._readers = {}
        self._selector = self          # BaseEventLoop._run_once calls self._selector.select(timeout)
        self.boundary = None           # callable(loop, timeout) -> iterable of readable fds
        self.iterations = 0
        self.idle_rounds = 0
        self.max_iterations = 200000

    # -- clock ---------------------------------------------------------------
    def time(self):
        return self._vtime

    # -- selector protocol -----------------------------------------------------
    def select(self, timeout):
        self.iterations += 1
        if self.iterations > self.max_iterations:
            raise Deadlock("iteration budget exhausted (livelock?)")
        ready = []
        if self.boundary is not None:
            ready = [fd for fd in self.boundary(self, timeout) if fd in self._readers]
        if ready:
            self.idle_rounds = 0
            return ready
        if timeout is None:
            # nothing runnable, no timer: let the environment unblock something (e.g. start a caller whose start
            # condition can no longer be met), else ask once more, then give up
            hook = getattr(self, "on_idle", None)
            if hook is not None and hook():
                self.idle_rounds = 0
                return []
            self.idle_rounds += 1
            if self.idle_rounds > 3:
                raise Deadlock("no runnable task, no timer, no pending external event")
            return []
        if timeout > 0:
            self._vtime += timeout
        self.idle_rounds = 0
        return []

    def _process_events(self, event_list):
        for fd in event_list:
            handle = self._readers.get(fd)
            if handle is not None and not handle._cancelled:
                self._add_callback(handle)

    # -- fd watching -----------------------------------------------------------
    def add_reader(self, fd, callback, *args):
        old = self._readers.get(fd)
        if old is not None:
            old.cancel()
        self._readers[fd] = asyncio.Handle(callback, args, self, None)

    def remove_reader(self, fd):
        # like selector_events._remove_reader: the handle is cancelled, so a callback already queued for this
        # iteration does not run
        h = self._readers.pop(fd, None)
        if h is None:
            return False
        h.cancel()
        return True

    # -- things BaseEventLoop leaves abstract that we do not need -----------------
    def _write_to_self(self):
        pass

    def close(self):
        self._readers.clear()
        super().close()

    def next_timer(self):
        live = [h._when for h in self._scheduled if not h._cancelled]
        return min(live) if live else None


def run(loop, main_coro, until=None):
    """Run main_coro on the virtual loop to completion; returns its result."""
    asyncio.set_event_loop(loop)
    try:
        return loop.run_until_complete(main_coro)
    finally:
        try:
            pending = [t for t in asyncio.all_tasks(loop) if not t.done()]
            for t in pending:
                t.cancel()
            if pending:
                loop.boundary = lambda l, to: []
                loop.idle_rounds = 0
                try:
                    loop.run_until_complete(asyncio.gather(*pending, return_exceptions=True))
                except Exception:
                    pass
        finally:
            asyncio.set_event_loop(None)
            loop.close()
