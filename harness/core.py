"""Shared machinery: TLC runner, shard judging, evidence, findings, replays.

Nothing in here computes an expected value.  Python records what the real
code did and packs it; TLC (the TLA+ modules under /verif/spec) decides.
"""
import concurrent.futures
import json
import os
import random
import re
import shutil
import subprocess
import sys
import tempfile
import time

VERIF = os.path.dirname(os.path.dirname(os.path.abspath(__file__)))
SPEC = os.path.join(VERIF, "spec")
EVIDENCE = os.path.join(VERIF, "evidence")
REPLAYS = os.path.join(VERIF, "replays")
REPO = os.environ.get("VERIF_REPO", "/repo")
JAR = "/opt/veriftools/tla/tla2tools.jar:/opt/veriftools/tla/CommunityModules-deps.jar"
NCPU = min(16, os.cpu_count() or 1)


class MachineryError(Exception):
    """Something in the framework itself failed (exit 2, never a violation)."""


def seed_from_env(default=0):
    try:
        return int(os.environ.get("VERIF_SEED", default))
    except ValueError:
        return default


class Scratch:
    """Scratch directory outside /repo and /verif, removed afterwards."""

    def __init__(self, tag):
        self.tag = tag
        self.path = None

    def __enter__(self):
        self.path = tempfile.mkdtemp(prefix="verif-%s-" % self.tag)
        return self

    def __exit__(self, *a):
        shutil.rmtree(self.path, ignore_errors=True)

    def file(self, name):
        return os.path.join(self.path, name)


_STATES_RE = re.compile(r"(\d+) states generated, (\d+) distinct states found")
_REJECT_RE = re.compile(r'<<"REJECT"')


class TLCResult:
    def __init__(self, rc, out, wall):
        self.rc = rc
        self.out = out
        self.wall = wall
        m = None
        for m in _STATES_RE.finditer(out):
            pass
        self.generated = int(m.group(1)) if m else 0
        self.distinct = int(m.group(2)) if m else 0
        self.rejects = extract_tagged(out, "REJECT")
        self.notes = extract_tagged(out, "NOTE")
        self.ok = (rc == 0 and "Model checking completed. No error has been found." in out) \
            or (rc == 0 and "Finished computing initial states" in out and "Error:" not in out)

    def coverage(self):
        """Per-action counts from a -coverage run: {action: (distinct, total)}."""
        cov = {}
        for m in re.finditer(r"<(\w+) line \d+, col \d+ to line \d+, col \d+ of module (\w+)>: (\d+):(\d+)", self.out):
            cov[m.group(1)] = (int(m.group(3)), int(m.group(4)))
        return cov


def parse_tla_value(s):
    """Parse a TLC-printed value made of <<...>>, strings, ints, TRUE/FALSE,
    records [a |-> v, ...] and sets {..} into Python lists/dicts."""
    pos = 0
    n = len(s)

    def ws():
        nonlocal pos
        while pos < n and s[pos] in " \n\t":
            pos += 1

    def val():
        nonlocal pos
        ws()
        if s.startswith("<<", pos):
            pos += 2
            out = []
            ws()
            if s.startswith(">>", pos):
                pos += 2
                return out
            while True:
                out.append(val())
                ws()
                if s.startswith(",", pos):
                    pos += 1
                    continue
                if s.startswith(">>", pos):
                    pos += 2
                    return out
                raise ValueError("bad tuple at %d in %r" % (pos, s[:200]))
        if s.startswith("{", pos):
            pos += 1
            out = []
            ws()
            if s.startswith("}", pos):
                pos += 1
                return out
            while True:
                out.append(val())
                ws()
                if s.startswith(",", pos):
                    pos += 1
                    continue
                if s.startswith("}", pos):
                    pos += 1
                    return out
                raise ValueError("bad set at %d" % pos)
        if s.startswith("[", pos):
            pos += 1
            out = {}
            while True:
                ws()
                m = re.match(r"(\w+)\s*\|->", s[pos:])
                if not m:
                    raise ValueError("bad record at %d in %r" % (pos, s[:200]))
                pos += m.end()
                out[m.group(1)] = val()
                ws()
                if s.startswith(",", pos):
                    pos += 1
                    continue
                if s.startswith("]", pos):
                    pos += 1
                    return out
                raise ValueError("bad record end at %d" % pos)
        if s.startswith('"', pos):
            j = pos + 1
            buf = []
            while s[j] != '"':
                if s[j] == "\\":
                    j += 1
                buf.append(s[j])
                j += 1
            pos = j + 1
            return "".join(buf)
        m = re.match(r"-?\d+", s[pos:])
        if m:
            pos += m.end()
            return int(m.group(0))
        m = re.match(r"TRUE|FALSE", s[pos:])
        if m:
            pos += m.end()
            return m.group(0) == "TRUE"
        m = re.match(r"\w+", s[pos:])
        if m:
            pos += m.end()
            return m.group(0)
        raise ValueError("cannot parse at %d: %r" % (pos, s[pos:pos + 40]))

    return val()


def extract_tagged(out, tag):
    """All values of the form << "TAG", ... >> printed by TLC (possibly pretty-printed over several lines),
    found by bracket matching; duplicates removed, order kept."""
    res, seen = [], set()
    for m in re.finditer(r'<<\s*"%s"' % re.escape(tag), out):
        i = m.start()
        depth = 0
        j = i
        n = len(out)
        instr = False
        while j < n:
            c = out[j]
            if instr:
                if c == "\\":
                    j += 1
                elif c == '"':
                    instr = False
            elif c == '"':
                instr = True
            elif out.startswith("<<", j):
                depth += 1
                j += 1
            elif out.startswith(">>", j):
                depth -= 1
                j += 1
                if depth == 0:
                    break
            j += 1
        text = out[i:j + 1]
        if text in seen:
            continue
        seen.add(text)
        res.append(parse_tla_value(text))
    return res


def run_tlc(module, cfg, scratch, env=None, workers=1, timeout=1800, extra=(),
            xmx="3g", tag=None):
    """Run TLC on spec/<module>.tla with spec/<cfg>; returns TLCResult."""
    tag = tag or ("%s-%d-%d" % (module, os.getpid(), random.randrange(1 << 30)))
    meta = os.path.join(scratch.path, "meta-" + tag)
    os.makedirs(meta, exist_ok=True)
    gc = ["-XX:+UseSerialGC"] if workers == 1 else ["-XX:+UseParallelGC", "-XX:ParallelGCThreads=%d" % max(2, min(8, workers))]
    cmd = ["java"] + gc + ["-XX:TieredStopAtLevel=4", "-Xmx" + xmx, "-Xss16m", "-cp", JAR, "tlc2.TLC",
           "-workers", str(workers), "-noGenerateSpecTE", "-metadir", meta,
           "-config", cfg] + list(extra) + [module + ".tla"]
    e = dict(os.environ)
    e.pop("JAVA_TOOL_OPTIONS", None)
    if env:
        e.update({k: str(v) for k, v in env.items()})
    t0 = time.time()
    try:
        p = subprocess.run(cmd, cwd=SPEC, env=e, stdout=subprocess.PIPE,
                           stderr=subprocess.STDOUT, timeout=timeout, text=True,
                           errors="replace")
        rc, out = p.returncode, p.stdout
    except subprocess.TimeoutExpired as ex:
        rc, out = 124, (ex.stdout or "") if isinstance(ex.stdout, str) else (ex.stdout or b"").decode("utf8", "replace")
        out += "\nTIMEOUT after %ss" % timeout
    shutil.rmtree(meta, ignore_errors=True)
    return TLCResult(rc, out, time.time() - t0)


def spec_check(module, cfg, scratch, workers=None, timeout=1800, extra=(), require_ok=True):
    """Exhaustive / simulation run of a spec-side config.  Machinery error if
    TLC does not finish cleanly (a spec-internal theorem failing is a bug in
    the model, not a violation of the code)."""
    r = run_tlc(module, cfg, scratch, workers=workers or NCPU, timeout=timeout, extra=extra)
    if require_ok and not r.ok:
        raise MachineryError("spec-side TLC run %s/%s failed (rc=%s):\n%s" % (module, cfg, r.rc, r.out[-4000:]))
    return r


def write_ndjson(path, records):
    with open(path, "w") as fh:
        for r in records:
            fh.write(json.dumps(r, separators=(",", ":")))
            fh.write("\n")


def judge_shards(module, cfg, shards, scratch, env_key="SHARD", timeout=3600,
                 expect_counts=None, extra_env=None, xmx="3g"):
    """Run one single-worker TLC JVM per shard file (in parallel).  Each
    record of a shard becomes one TLC initial state; the judge invariant
    prints <<"REJECT", id, clause, ...>> for every record it rejects.

    Returns (rejects, states, transitions, wall).  Raises MachineryError if
    TLC fails or the number of states differs from the number of records
    (guards against a vacuous run)."""
    t0 = time.time()
    results = []

    def one(ix):
        env = {env_key: shards[ix]}
        if extra_env:
            env.update(extra_env)
        return run_tlc(module, cfg, scratch, env=env, workers=1, timeout=timeout,
                       tag="%s-s%d" % (module, ix), xmx=xmx)

    with concurrent.futures.ThreadPoolExecutor(max_workers=NCPU) as ex:
        results = list(ex.map(one, range(len(shards))))
    rejects, notes, states, trans = [], [], 0, 0
    for ix, r in enumerate(results):
        if not r.ok:
            raise MachineryError("judge %s on shard %s failed (rc=%s):\n%s" % (module, shards[ix], r.rc, r.out[-6000:]))
        if expect_counts is not None and r.distinct != expect_counts[ix]:
            raise MachineryError("judge %s on shard %s: %d states for %d records (vacuous?)\n%s" % (
                module, shards[ix], r.distinct, expect_counts[ix], r.out[-3000:]))
        rejects.extend(r.rejects)
        notes.extend(r.notes)
        states += r.distinct
        trans += r.generated
    return rejects, notes, states, trans, time.time() - t0


def shard_records(records, scratch, name, nshards=None):
    """Split records round-robin into shard files; returns (paths, counts)."""
    nshards = nshards or min(NCPU, max(1, len(records) // 200 + 1))
    buckets = [[] for _ in range(nshards)]
    for i, r in enumerate(records):
        buckets[i % nshards].append(r)
    paths, counts = [], []
    for i, b in enumerate(buckets):
        if not b:
            continue
        p = scratch.file("%s-%02d.ndjson" % (name, i))
        write_ndjson(p, b)
        paths.append(p)
        counts.append(len(b))
    return paths, counts


# ---------------------------------------------------------------------------
# findings, replays, evidence
# ---------------------------------------------------------------------------

def load_known_findings(prop):
    p = os.path.join(VERIF, "known_findings.json")
    if not os.path.exists(p):
        return []
    with open(p) as fh:
        d = json.load(fh)
    return [f for f in d.get("findings", []) if f.get("property") == prop]


def write_replay(prop, tier, seed, case, verdict, ix):
    os.makedirs(REPLAYS, exist_ok=True)
    p = os.path.join(REPLAYS, "%s-%s-%d-%d.json" % (prop, tier, seed, ix))
    with open(p, "w") as fh:
        json.dump({"property": prop, "tier": tier, "seed": seed, "case": case,
                   "verdict": verdict}, fh, indent=1, sort_keys=True)
    return p


class Outcome:
    """Collected result of one check run."""

    def __init__(self, prop, tier, seed):
        self.prop = prop
        self.tier = tier
        self.seed = seed
        self.t0 = time.time()
        self.states = 0
        self.transitions = 0
        self.traces = 0
        self.evaluations = 0
        self.distinct_nontrivial = 0
        self.rule = ""
        self.samples = []
        self.violations = []      # (case, verdict)
        self.known = []           # (finding, case)
        self.assumptions = []
        self.extra = {}
        self.exhaustive = False
        self.level = "model_checking"
        self.is_replay = False

    def add_spec_run(self, r, name=None):
        self.states += r.distinct
        self.transitions += r.generated
        if name:
            self.extra.setdefault("spec_runs", {})[name] = {
                "distinct_states": r.distinct, "states_generated": r.generated,
                "wall_s": round(r.wall, 1)}

    def classify(self, rejects, match_fn):
        """rejects: list of (case, verdict).  match_fn(finding, case, verdict)
        tells whether a committed known finding describes this rejection."""
        findings = load_known_findings(self.prop)
        for case, verdict in rejects:
            hit = None
            for f in findings:
                if match_fn and match_fn(f, case, verdict):
                    hit = f
                    break
            if hit:
                self.known.append((hit, case, verdict))
            else:
                self.violations.append((case, verdict))

    def finish(self):
        wall = time.time() - self.t0
        os.makedirs(EVIDENCE, exist_ok=True)
        seen = set()
        for f, case, verdict in self.known:
            if f["id"] in seen:
                continue
            seen.add(f["id"])
            print("KNOWN-FINDING: property=%s %s (%s)" % (self.prop, f["id"], f.get("what", "")))
        paths = []
        for ix, (case, verdict) in enumerate(self.violations[:20]):
            paths.append(write_replay(self.prop, self.tier, self.seed, case, verdict, ix))
        cov = {
            "states": max(1, self.states) if self.states else 0,
            "transitions": self.transitions,
            "traces_validated_against_impl": self.traces,
            "evaluations": self.evaluations,
            "distinct_nontrivial": self.distinct_nontrivial,
            "rule": self.rule,
            "samples": self.samples[:8] or ["(none)"],
            "exhaustive": self.exhaustive,
            "known_findings_hit": sorted(seen),
        }
        cov.update(self.extra)
        ev = {
            "property_id": self.prop, "tier": self.tier, "seed": self.seed,
            "level": self.level, "coverage": cov, "assumptions": self.assumptions,
            "wall_s": round(wall, 2), "violations": len(self.violations),
        }
        if not self.is_replay:
            with open(os.path.join(EVIDENCE, self.prop + ".json"), "w") as fh:
                json.dump(ev, fh, indent=1, sort_keys=True, default=str)
        for p, (case, verdict) in zip(paths, self.violations):
            print("VIOLATION property=%s replay=%s  # %s" % (self.prop, p, json.dumps(verdict, default=str)[:300]))
        if len(self.violations) > len(paths):
            print("# ... %d further rejections not written out" % (len(self.violations) - len(paths)))
        print("%s %s: %s  states=%d traces=%d evaluations=%d wall=%.1fs" % (
            self.prop, self.tier, "VIOLATED" if self.violations else "held",
            self.states, self.traces, self.evaluations, wall))
        return 1 if self.violations else 0


def repo_python_env():
    e = dict(os.environ)
    e["PYTHONPATH"] = REPO
    e["PYTHONHASHSEED"] = "0"
    return e


def ensure_repo_on_path():
    if REPO not in sys.path:
        sys.path.insert(0, REPO)
    # never write bytecode into the repository under test
    sys.dont_write_bytecode = True
    # the drivers log every dropped frame; keep the checks' output to verdict lines
    import logging
    logging.disable(logging.CRITICAL)


# ---------------------------------------------------------------------------
# tables exported from the specification
# ---------------------------------------------------------------------------
_TABLES = None


def spec_tables():
    """The specification's tables as Python data, exported by TLC
    (spec/ExportTables.tla).  Regenerated when any .tla file is newer."""
    global _TABLES
    if _TABLES is not None:
        return _TABLES
    build = os.path.join(VERIF, "build")
    os.makedirs(build, exist_ok=True)
    out = os.path.join(build, "tables.json")
    newest = max(os.path.getmtime(os.path.join(SPEC, f)) for f in os.listdir(SPEC) if f.endswith(".tla"))
    if not os.path.exists(out) or os.path.getmtime(out) < newest:
        tmp = out + ".%d.tmp" % os.getpid()
        with Scratch("export") as sc:
            r = run_tlc("ExportTables", "ExportTables.cfg", sc, env={"EXPORT_TO": tmp}, workers=1, timeout=300)
        if not os.path.exists(tmp):
            raise MachineryError("table export failed:\n" + r.out[-3000:])
        os.replace(tmp, out)
    with open(out) as fh:
        _TABLES = json.load(fh)
    return _TABLES


PART_OF_MODULE = {
    "dali.gear.general": "102", "dali.gear.emergency": "202", "dali.gear.incandescent": "205",
    "dali.gear.converter": "206", "dali.gear.led": "207", "dali.gear.colour": "209",
    "dali.device.general": "103", "dali.device.pushbutton": "301", "dali.device.occupancy": "303",
    "dali.device.light": "304",
}


def import_all_commands():
    """Import every command module of the library (the README's list)."""
    ensure_repo_on_path()
    import importlib
    for m in PART_OF_MODULE:
        importlib.import_module(m)
    from dali.command import Command
    return Command


def qname(cls):
    return "%s.%s" % (PART_OF_MODULE.get(cls.__module__, cls.__module__), cls.__name__)


# ---------------------------------------------------------------------------
# parallel recording and row interning
# ---------------------------------------------------------------------------

def pmap(fn, items, procs=None, chunksize=1):
    """Run fn over items in forked worker processes (the library is already
    imported in the parent, so children share it)."""
    import multiprocessing as mp
    procs = procs or NCPU
    if procs <= 1 or len(items) <= 1:
        return [fn(x) for x in items]
    ctx = mp.get_context("fork")
    with ctx.Pool(procs) as pool:
        return pool.map(fn, items, chunksize)


class Interner:
    """Plain de-duplication of identical rows of recorded results (lossless;
    knows nothing about what the rows mean).  Index is 1-based for TLA+."""

    def __init__(self):
        self.index = {}
        self.rows = []

    def add(self, row):
        key = json.dumps(row, separators=(",", ":"))
        ix = self.index.get(key)
        if ix is None:
            self.rows.append(row)
            ix = len(self.rows)
            self.index[key] = ix
        return ix

    def write(self, path):
        write_ndjson(path, self.rows)
        return path
