"""Trace validation of the real Tridonic driver against the implementation-shaped TLA+ model AsyncDriver
(spec/AsyncTrace.tla): every recorded execution must be a behaviour of the model.  A rejected trace is *drift*
(the model no longer describes the code), reported in the evidence; verdicts come from the property-level specs."""
import concurrent.futures
import json
import random

from . import core
from . import drivers


def scenarios(seed, n, prop="c15"):
    rng = random.Random(seed + 99)
    ploss = 0.6 if prop == "c17" else 0.0      # the C15/C16 judges assume a fault-free gateway
    scs = []
    for k in range(n):
        ncallers = rng.choice([1, 2, 2, 3])
        callers = []
        for ci in range(ncallers):
            mode = rng.choice(["send", "sequence"])
            unit = [[rng.choice(["dapc", "q16", "cfg", "qdt6", "cfgdt6", "q24", "c24"]), 8 * ci + j + 1]
                    for j in range(rng.randrange(1, 4))]
            c = {"name": "ABC"[ci], "mode": mode, "unit": unit,
                 "start": rng.choice([{"time": 0.0}, {"writes": rng.randrange(1, 6)}, {"reports": rng.randrange(1, 8)}])}
            if rng.random() < 0.3:
                c["cancel"] = rng.choice([{"writes": rng.randrange(2, 8)}, {"reports": rng.randrange(2, 10)}])
            callers.append(c)
        if k % 4 == 3 and len(callers) < 3 and prop != "c17":
            # a caller switching the interface's power supply while the others are under way
            callers.append({"name": "P", "mode": "power", "unit": [["power", j] for j in range(rng.randrange(1, 3))],
                            "start": rng.choice([{"time": 0.0}, {"writes": rng.randrange(1, 6)}, {"reports": rng.randrange(1, 8)}])})
        sc = {"driver": "tridonic", "callers": callers, "first_seq": 1, "trace_events": 1,
              "release_plan": [rng.choice([0, 1, 1, 2, -1]) for _ in range(rng.randrange(0, 30))], "tag": "trace:%d" % k}
        if prop == "c17" and rng.random() < 0.4:
            sc["reconnect_limit"] = rng.choice([0, 1, 3])
            sc["post_idle"] = 6       # let the reconnect attempts run out (or the device come back) before the run ends
        if rng.random() < ploss:
            sc["triggers"] = [[rng.choice(["after_write", "after_report"]), rng.randrange(1, 10), "lose"]]
            sc["auto_return"] = rng.choice([0.5, 1.5])
            if prop == "c17" and rng.random() < 0.5:
                sc["repeat"] = 1
            sc["exceptions"] = rng.random() < 0.5 or sc.get("reconnect_limit") is not None
            for c in callers:
                if c["mode"] == "send":
                    c["exceptions"] = sc["exceptions"]
        scs.append(sc)
    return scs


def serial_scenarios(seed, n, prop="c15"):
    """LUBA / SCI runs with prompt report delivery (the model's timeouts fire only when nothing is coming)"""
    rng = random.Random(seed + 199)
    scs = []
    for k in range(n):
        drv = "luba" if k % 2 else "sci"
        callers = []
        for ci in range(rng.choice([1, 2, 2, 3])):
            unit = [[rng.choice(["dapc", "q16", "cfg", "qdt6", "cfgdt6", "q24", "c24", "yn16"]), 8 * ci + j + 1]
                    for j in range(rng.randrange(1, 4))]
            c = {"name": "ABC"[ci], "mode": rng.choice(["send", "sequence"]), "unit": unit,
                 "start": rng.choice([{"time": 0.0}, {"writes": rng.randrange(1, 6)}, {"reports": rng.randrange(1, 8)}])}
            if prop == "c17" and rng.random() < 0.35:
                c["cancel"] = rng.choice([{"writes": rng.randrange(1, 8)}, {"reports": rng.randrange(1, 10)}])
            callers.append(c)
        nout = sum(len(c["unit"]) for c in callers) * 2 + 2
        outcomes = []
        for j in range(nout):
            r = rng.random()
            outcomes.append(["val", 10 + j] if r < 0.7 else ["none", 0] if r < 0.9 else ["err", 0])
        scs.append({"driver": drv, "callers": callers, "trace_events": 1, "outcomes": outcomes,
                    "release_plan": [rng.choice([1, 1, 2, -1]) for _ in range(rng.randrange(0, 30))], "tag": "strace:%d" % k})
    return scs


def hasseb_scenarios(seed, n, prop="c15"):
    rng = random.Random(seed + 299)
    scs = []
    for k in range(n):
        callers = []
        for ci in range(rng.choice([1, 2, 2, 3])):
            unit = [[rng.choice(["dapc", "q16", "cfg", "qdt6", "cfgdt6", "yn16", "st16"]), 8 * ci + j + 1]
                    for j in range(rng.randrange(1, 4))]
            c = {"name": "ABC"[ci], "mode": rng.choice(["send", "sequence"]), "unit": unit,
                 "start": rng.choice([{"time": 0.0}, {"writes": rng.randrange(1, 6)}, {"reports": rng.randrange(1, 8)}])}
            if prop == "c17" and rng.random() < 0.35:
                c["cancel"] = rng.choice([{"writes": rng.randrange(1, 8)}, {"reports": rng.randrange(1, 10)}])
            callers.append(c)
        nout = sum(len(c["unit"]) for c in callers) * 2 + 2
        outcomes = []
        for j in range(nout):
            r = rng.random()
            outcomes.append(["val", 10 + j] if r < 0.7 else ["none", 0] if r < 0.9 else ["err", 0])
        scs.append({"driver": "hasseb", "callers": callers, "trace_events": 1, "outcomes": outcomes,
                    "release_plan": [rng.choice([0, 1, 1, 2, -1]) for _ in range(rng.randrange(0, 30))], "tag": "htrace:%d" % k})
    return scs


def to_trace(r):
    """projection of one recorded run onto the trace format read by AsyncTrace.tla"""
    callers = [{"name": c["name"], "mode": c["mode"], "exceptions": c["exceptions"],
                "unit": [{"dt": u["dt"], "twice": u["twice"], "query": u["query"]} for u in c["unit"]]} for c in r["callers"]]
    known = {c["name"] for c in callers}
    lim = r["scenario"].get("reconnect_limit")
    return {"callers": callers, "limit": -1 if lim is None else lim, "tag": r["scenario"].get("tag"), "id": r.get("id", 0),
            "driver": r["scenario"]["driver"], "conf_per_twice": 1 if r["scenario"]["driver"] == "sci" else 2,
            "events": [e for e in r["events"] if ("c" not in e or e["c"] in known)
                       and (r["scenario"]["driver"] == "tridonic" or e["ev"] not in ("status", "deliver_info"))]}


def record(sc):
    r = drivers.run_scenario(sc)
    r["scenario"] = sc
    return to_trace(r)


def validate(traces, sc):
    """one TLC run per trace (constants come from the trace); returns list of (accepted, maxl, len)"""
    def one(ix):
        t = traces[ix]
        path = sc.file("trace-%d-%d.json" % (id(traces) % 100000, ix))
        with open(path, "w") as fh:
            json.dump({"callers": t["callers"], "events": t["events"], "limit": t["limit"],
                       "conf_per_twice": t.get("conf_per_twice", 2)}, fh)
        module = {"luba": "SerialTrace", "sci": "SerialTrace", "hasseb": "HassebTrace"}.get(t.get("driver"), "AsyncTrace")
        r = core.run_tlc(module, module + ".cfg", sc, env={"TRACE": path}, workers=1, timeout=300, tag="tr%d" % ix, xmx="1g")
        accepted = "Invariant NotConsumed is violated" in r.out
        maxl = 0
        for v in core.extract_tagged(r.out, "MAXL"):
            maxl = v[1]
        if not accepted and "Model checking completed" not in r.out:
            raise core.MachineryError("trace validation failed to run:\n" + r.out[-3000:])
        return accepted, maxl, len(t["events"]), r.distinct
    with concurrent.futures.ThreadPoolExecutor(max_workers=core.NCPU) as ex:
        return list(ex.map(one, range(len(traces))))


# ---- spec-side exhaustive runs of the implementation-shaped model --------------------------------------------------
# (module, cfg, invariant that MUST be violated or None)
MODEL_CFGS = {
    "c15": [("MC_AsyncDriver", "AsyncDriver_c15.cfg", None), ("MC_AsyncDriver", "AsyncDriver_cancel.cfg", None),
            ("MC_AsyncDriver", "AsyncDriver_cancel_old.cfg", "NoAssertion"),
            # power_supply() requests: units of their own under the transaction lock; without the lock (seeded C15f) the
            # model must break TxnAtomic
            ("MC_AsyncDriver", "AsyncDriver_power.cfg", None), ("MC_AsyncDriver", "AsyncDriver_power_nolock.cfg", "TxnAtomic"),
            ("MC_SerialDriver", "SerialDriver_plain.cfg", None), ("MC_SerialDriver", "SerialDriver_cancelq.cfg", None),
            ("MC_SerialDriver", "SerialDriver_cancel_safe.cfg", None),
            ("MC_HassebDriver", "HassebDriver_plain.cfg", None), ("MC_HassebDriver", "HassebDriver_cancelq.cfg", None),
            ("MC_HassebDriver", "HassebDriver_cancel_safe.cfg", None)],
    "c16": [("MC_AsyncDriver", "AsyncDriver_c15.cfg", None), ("MC_AsyncDriver", "AsyncDriver_cancel.cfg", None),
            ("MC_AsyncDriver", "AsyncDriver_loss.cfg", None),
            ("MC_SerialDriver", "SerialDriver_plain.cfg", None), ("MC_SerialDriver", "SerialDriver_silent.cfg", None),
            ("MC_SerialDriver", "SerialDriver_stale_fac.cfg", None),
            # flushing the answer queue (again) when the frame has been confirmed loses answers that arrived together
            # with the confirmation: the seeded change C16b at model level
            ("MC_SerialDriver", "SerialDriver_plain_fac.cfg", "ExactPairing"),
            # an answer that belongs to nobody can only be mistaken for one's own if it arrived inside one's own transaction;
            # flushing before waiting for the lock instead of after (seeded C16f) must break that
            ("MC_SerialDriver", "SerialDriver_stale_own.cfg", None), ("MC_SerialDriver", "SerialDriver_stale_called.cfg", "OwnWindow"),
            ("MC_HassebDriver", "HassebDriver_plain.cfg", None)],
    "c17": [("MC_AsyncDriver", "AsyncDriver_loss.cfg", None), ("MC_AsyncDriver", "AsyncDriver_limit.cfg", None),
            ("MC_SerialDriver", "SerialDriver_silent.cfg", None), ("MC_SerialDriver", "SerialDriver_cancel_safe.cfg", None),
            # the known finding orphaned-answer-after-cancel at model level: cancellation in flight breaks NoCrossTalk
            ("MC_SerialDriver", "SerialDriver_cancel.cfg", "NoCrossTalk"),
            ("MC_HassebDriver", "HassebDriver_cancel_safe.cfg", None), ("MC_HassebDriver", "HassebDriver_cancel.cfg", "NoCrossTalk")],
}
THOROUGH_EXTRA = [("MC_AsyncDriver", "AsyncDriver_big.cfg", None)]


def model_runs(out, sc, mode, tier):
    """exhaustive TLC runs of the implementation-shaped driver models; variants that model a known defect must be
    *rejected* by TLC (a model that cannot see the defect would not be worth binding to)"""
    for module, cfg, must_violate in MODEL_CFGS[mode] + (THOROUGH_EXTRA if tier == "thorough" else []):
        r = core.run_tlc(module, cfg, sc, workers=core.NCPU, timeout=3000, xmx="6g")
        if must_violate is None and not r.ok:
            raise core.MachineryError("driver model %s failed:\n%s" % (cfg, r.out[-4000:]))
        if must_violate is not None and ("Invariant %s is violated" % must_violate) not in r.out:
            raise core.MachineryError("driver model %s should violate %s\n%s" % (cfg, must_violate, r.out[-3000:]))
        out.add_spec_run(r, cfg[:-4].replace("_", "/", 1) + (" (violates %s, as intended)" % must_violate if must_violate else ""))


def conformance(out, recs, sc):
    """validate the event traces of the recorded runs that carry one against AsyncTrace; drift goes to the evidence"""
    traces = [to_trace(r) for r in recs if r.get("events")]
    if not traces:
        return
    res = validate(traces, sc)
    # the binding must be able to fail: two corrupted copies of an accepted trace have to be rejected
    probes = []
    for t, (acc, m, n, st) in zip(traces, res):
        names = [c["name"] for c in t["callers"]]
        wr = [k for k, e in enumerate(t["events"]) if e["ev"] == "write"]
        dl = [k for k, e in enumerate(t["events"]) if e["ev"] == "deliver"]
        if acc and len(names) >= 2 and wr and dl:
            a = dict(t, events=[dict(e) for e in t["events"]])
            a["events"][wr[-1]]["c"] = [x for x in names if x != a["events"][wr[-1]]["c"]][0]
            b = dict(t, events=[e for k, e in enumerate(t["events"]) if k != dl[0]])
            probes = [a, b]
            break
    if probes:
        pres = validate(probes, sc)
        if any(acc for acc, _, _, _ in pres):
            raise core.MachineryError("AsyncTrace accepted a corrupted trace (write attributed to another caller / a report dropped)")
    out.extra["binding_selftest"] = "2 corrupted traces rejected" if probes else "no suitable trace"
    drift = [(t, m) for t, (acc, m, n, st) in zip(traces, res) if not acc]
    out.states += sum(st for _, _, _, st in res)
    out.extra["model_conformance"] = {
        "model": "AsyncDriver.tla via AsyncTrace.tla (Tridonic), HassebDriver.tla via HassebTrace.tla, "
                 "SerialDriver.tla via SerialTrace.tla (LUBA, SCI)",
        "traces": len(traces), "accepted": len(traces) - len(drift),
        "traces_by_driver": {d: sum(1 for t in traces if t["driver"] == d) for d in ("tridonic", "hasseb", "luba", "sci")},
        "events": sum(len(t["events"]) for t in traces),
        "drift": [{"id": t["id"], "matched_prefix": m - 1, "next_events": t["events"][max(0, m - 2):m + 1]} for t, m in drift[:5]]}
    for t, m in drift[:5]:
        print("# DRIFT (not a verdict): run %s is not a behaviour of the driver model after %d of %d events; next: %s" % (
            t["id"], m - 1, len(t["events"]), json.dumps(t["events"][m - 1:m])))
