"""Decode tables computed in a fresh interpreter that imports only what an application has to import (one submodule of
dali.gear / dali.device): the registries the decoder relies on are filled as a side effect of importing the package, so
what is registered must not depend on which submodules somebody happened to import."""
import json
import subprocess
import sys

from . import core
from . import cmdrec

SCRIPT = r'''
import sys, json
sys.path.insert(0, sys.argv[1])
import logging
logging.disable(logging.CRITICAL)
entry = sys.argv[2]
declare = entry.endswith("+decl")
entry = entry.split("+")[0]
__import__(entry)
from dali import command, frame
if declare:
    # an application declaring classes of its own on top of the library's, the way the library's own modules do it: an
    # abstract vendor event base without an instance type, a vendor event with one, a vendor command
    from dali.device import general as _G
    try:
        class _VendorEvent(_G._Event):
            pass
        class VendorEvent(_VendorEvent):
            _instance_type = 29
            _event_info = 0
        class VendorThing(command.Command):
            pass
    except Exception:
        pass
jobs = json.loads(sys.argv[3])
out = []
for kind, a, b in jobs:
    cells = []
    if kind == "dec16":
        vals = [(16, (b << 8) | lb, a) for lb in range(256)]
    else:
        vals = [(24, (a << 8) | ob, 0) for ob in b]
    for ln, v, dt in vals:
        try:
            f = frame.ForwardFrame(ln, v)
            r = command.from_frame(f, devicetype=dt)
        except Exception:
            cells.append(["", "", -1])
            continue
        fl = 0
        try:
            if r.frame.as_integer == v and f.as_integer == v:
                fl |= 1
            if len(r.frame) == ln:
                fl |= 2
        except Exception:
            pass
        try:
            if isinstance(str(r), str):
                fl |= 4
        except Exception:
            pass
        if isinstance(r, command.Command):
            fl |= 8
        cells.append([type(r).__module__, type(r).__name__, fl])
    out.append(cells)
print(json.dumps(out))
'''


def decode_records(rows):
    """-> records shaped like c01's dec16 / dec24 records, computed in fresh interpreters"""
    cmdrec.pvals("obfresh", [0, 1, 2, 5, 9, 11, 15, 255])
    obs = cmdrec.PVALS["obfresh"][1]
    jobs16 = [["dec16", dt, hb] for dt in (1, 4, 5, 6, 8) for hb in (0x01, 0x0B, 0x7F, 0x81, 0xFF)]
    # device-scheme events of instance types 1, 3, 4 (short address 5) and instance-scheme events
    jobs24 = [["dec24", ((5 << 9) | (t << 2) | d) & 0xFFFF, obs] for t in (1, 3, 4) for d in (0, 1, 2, 3)]
    recs = []
    # device/instance-scheme events (no map: ambiguous), also after the application has declared classes of its own
    jobs24a = jobs24 + [["dec24", ((5 << 9) | 0x80 | (n << 2) | d) & 0xFFFF, obs] for n in (0, 2, 31) for d in (0, 3)]
    for entry, jobs in (("dali.gear.general", jobs16), ("dali.driver.hid", jobs16), ("dali.device.general", jobs24),
                        ("dali.device.general+decl", jobs24a)):
        p = subprocess.run([sys.executable, "-c", SCRIPT, core.REPO, entry, json.dumps(jobs)], stdout=subprocess.PIPE,
                           stderr=subprocess.PIPE, text=True, timeout=300)
        if p.returncode != 0:
            raise core.MachineryError("fresh interpreter (%s) failed:\n%s" % (entry, p.stderr[-2000:]))
        for job, cells in zip(jobs, json.loads(p.stdout)):
            conv = []
            for mod, cls, fl in cells:
                if fl < 0:
                    conv.append(-1)
                    continue
                q = ("%s.%s" % (core.PART_OF_MODULE[mod], cls)) if mod in core.PART_OF_MODULE else cls
                conv.append(cmdrec.NAMES.get(q, 0) * 16 + fl)
            if job[0] == "dec16":
                recs.append({"kind": "dec16", "dt": job[1], "hb": job[2], "row": rows.add(conv), "fresh": entry})
            else:
                recs.append({"kind": "dec24", "hi": job[1], "map": 0, "pv": cmdrec.PVALS["obfresh"][0], "row": rows.add(conv),
                             "fresh": entry})
    return recs
