"""C17 -- gateway loss or silence fails sends promptly and recovery is clean.

Spec:    spec/AsyncJudge.tla (property-level Recovery), AsyncDriver.tla (implementation-shaped model)
Binding: fault scenarios (device loss by EOF / read error / write error at chosen points, return after a delay,
         reconnect limits, callers cancelled mid-send, silent serial gateway) are replayed on the real drivers under the
         virtual event loop; each run ends with the device back and 300 further sends (sequence numbers wrap);
         TLC evaluates the Recovery clauses on the observations.
"""
import random

from . import core
from . import drivers
from . import asynctrace
from .c15 import MENU


def us(t):
    return int(round(t * 1e6))


def hid_scenarios(tier, seed):
    rng = random.Random(seed + 17)
    scs = []
    n = 220 if tier == "quick" else 8000
    for k in range(n):
        drv = "tridonic" if k % 3 else "hasseb"
        limit = rng.choice([None, None, None, 0, 1, 3])
        interval = 1
        ncallers = rng.choice([0, 1, 1, 2, 2, 3])
        exceptions = rng.random() < 0.6
        returns = rng.random() < 0.75 or limit is None or not exceptions
        if not exceptions and not returns:
            returns = True
        callers = []
        n_ = 0
        for ci in range(ncallers):
            mode = rng.choice(["send", "send", "sequence"])
            unit = []
            for _ in range(rng.randrange(1, 4)):
                n_ += 1
                unit.append([rng.choice(MENU[drv]), 8 * ci + n_ % 8 + 1])
            c = {"name": "ABC"[ci], "mode": mode, "unit": unit,
                 "start": rng.choice([{"time": 0.0}, {"writes": rng.randrange(1, 6)}, {"reports": rng.randrange(1, 8)},
                                      {"time": round(rng.choice([0.5, 1.5, 2.5]), 3)}])}
            if mode == "send":
                c["exceptions"] = exceptions
            callers.append(c)
        kind = rng.choice(["after_write", "after_write", "after_report", "after_report", "time", "handshake", "write_error"])
        triggers, ttrig = [], []
        lost_at = 0.0
        if kind == "after_write":
            triggers.append(["after_write", rng.randrange(1, 9), rng.choice(["lose", "lose_keep"])])
        elif kind == "after_report":
            triggers.append(["after_report", rng.randrange(1, 12), rng.choice(["lose", "lose_keep"])])
        elif kind == "handshake":
            triggers.append([rng.choice(["after_write", "after_report"]), rng.choice([1, 2]), "lose"])
        elif kind == "write_error":
            triggers.append(["after_write", rng.randrange(2, 7), "write_error"])
        else:
            ttrig.append([0.0001, "lose"])
        outage = rng.choice([0.5, 1.5, 2.5, 3.5, 7.5])
        if limit is not None and not exceptions:
            # callers that wait for the device need it back before the reconnect attempts run out
            if limit == 0:
                exceptions = True
                for c in callers:
                    if "exceptions" in c:
                        c["exceptions"] = True
            else:
                outage = rng.choice([x for x in (0.5, 1.5, 2.5) if x < limit * interval])
        repeat = rng.random() < 0.25
        sc = {"driver": drv, "callers": callers, "exceptions": exceptions, "reconnect_limit": limit,
              "reconnect_interval": interval, "triggers": triggers, "time_triggers": ttrig,
              "loss_mode": rng.choice(["eof", "oserror"]), "first_seq": rng.randrange(1, 256),
              "release_plan": [rng.choice([1, 1, 2, -1, 0]) for _ in range(rng.randrange(0, 25))],
              "tail_sends": 300, "horizon": 60, "settle": 30, "returns": returns, "outage": outage, "repeat": repeat, "tag": "hid:%d" % k,
              "sequence_exceptions": exceptions}
        if k % 3 == 1:
            sc["glob"] = 1                         # device node given as a pattern ...
            sc["rename_on_return"] = k % 2         # ... and the device may come back under another matching name
        scs.append(sc)
    # the driver has given up ('failed'), the application calls connect() again while the device is still missing, the device
    # comes back during that second round: attempts at the configured interval again, the handshake, sends work
    for drv in ("tridonic", "hasseb"):
        for limit in (1, 2, 3):
            for back in (0.4, 1.3):
                if back < limit:
                    call_at = limit + 3.0
                    scs.append({"driver": drv, "exceptions": True, "reconnect_limit": limit, "reconnect_interval": 1,
                                "callers": [{"name": "A", "mode": "send", "unit": [["q16", 3]], "exceptions": True}],
                                "triggers": [], "time_triggers": [[0.3, "lose"], [call_at, "connect"], [call_at + back, "return"]],
                                "loss_mode": "eof", "first_seq": 9, "release_plan": [1] * 12, "tail_sends": 20,
                                "horizon": 60, "settle": 8, "post_idle": call_at + limit + 4, "connect_again_at": call_at,
                                "tag": "connect-after-failed", "sequence_exceptions": True})
    # a device-type command sent with exceptions off, the gateway lost at every point of its two frames and back after
    # half a second: the transparent retry must put the whole unit (prefix + command) on the wire again
    for drv in ("tridonic", "hasseb"):
        for key in ("qdt6", "cfgdt6"):
            for kind in ("after_write", "after_report"):
                for n in range(1, 8):
                    for act in ("lose", "lose_keep"):
                        scs.append({"driver": drv, "exceptions": False, "reconnect_limit": None, "reconnect_interval": 1,
                                    "callers": [{"name": "A", "mode": "send", "unit": [[key, 3], ["q16", 4]], "exceptions": False}],
                                    "triggers": [[kind, n, act]], "time_triggers": [], "loss_mode": "eof", "first_seq": 17,
                                    "release_plan": [1] * 12, "tail_sends": 20, "horizon": 60, "settle": 5, "returns": True,
                                    "outage": 0.5, "repeat": False, "tag": "dt-retry", "sequence_exceptions": False})
    # cancellation at every await point of a single send, then 300 sends
    for drv in ("tridonic", "hasseb"):
        for key in ("q16", "cfg", "qdt6", "dapc"):
            for cond in [{"writes": w} for w in range(1, 5)] + [{"reports": w} for w in range(1, 8)] + [{"time": 0.0}]:
                # hasseb has no sequence numbers: a cancelled query's answer that is delivered after the next write is
                # taken for the next query's answer (known finding orphaned-answer-after-cancel)
                for plan in ([1] * 20, [-1], [0, 1, 0, 1, 1, 1, 1, 1, 1, 1, 1, 1]):
                    scs.append({"driver": drv, "callers": [{"name": "A", "mode": "send", "unit": [[key, 3], ["q16", 4]],
                                                           "cancel": cond},
                                                          {"name": "B", "mode": "send", "unit": [["q16", 9]],
                                                           "start": {"writes": 3} if drv == "tridonic" else {"time": 0.01}}],
                                "release_plan": list(plan), "first_seq": 200, "tail_sends": 300, "tag": "cancel"})
    return scs


def serial_scenarios(tier, seed):
    scs = []
    for drv in ("luba", "sci"):
        for key in ("q16", "dapc", "cfg", "qdt6", "yn16"):
            for k in (1, 2, 3):
                scs.append({"driver": drv, "silent_confirm": k, "outcomes": [["val", 9]],
                            "callers": [{"name": "A", "mode": "send", "unit": [[key, 2], ["q16", 3]]},
                                        {"name": "B", "mode": "sequence", "unit": [["q16", 8], ["dapc", 9]], "start": {"writes": 3}}],
                            "tail_sends": 20, "tag": "silent-confirm"})
            # the gateway dies for good at the k-th command, possibly in the middle of a report: every send from then on
            # fails within the documented timeout, nobody hangs, the lock is free
            for k in (1, 2):
                for cut in (0, 1, 2, 4, 6, 9):
                    if key in ("q16", "cfg") or cut in (0, 4):
                        scs.append({"driver": drv, "silent_from": k, "truncate_confirm": cut, "outcomes": [["val", 9]],
                                    "callers": [{"name": "A", "mode": "send", "unit": [[key, 2], ["q16", 3]]},
                                                {"name": "B", "mode": "send", "unit": [["q16", 8]], "start": {"time": 6.0}},
                                                {"name": "C", "mode": "sequence", "unit": [["dapc", 9], ["q16", 10]],
                                                 "start": {"time": 12.0}}],
                                    "tail_sends": 0, "tag": "dies-mid-report"})
            # a confirmation that comes only after the driver has stopped waiting for it, then silence for good: the next send
            # fails within the timeout like the first (the late confirmation is not taken for its own)
            if key in ("q16", "dapc", "cfg"):
                scs.append({"driver": drv, "late_confirm": 1, "late_by": 0.16 if drv == "sci" else 1.3, "silent_from": 2,
                            "outcomes": [["val", 9]],
                            "callers": [{"name": "A", "mode": "send", "unit": [[key, 2]]},
                                        {"name": "B", "mode": "send", "unit": [["q16", 8]], "start": {"time": 4.0}},
                                        {"name": "C", "mode": "send", "unit": [["dapc", 9]], "start": {"time": 8.0}}],
                            "tail_sends": 0, "tag": "late-confirm"})
            for outcome in (["none", 0], ["err", 0]):
                scs.append({"driver": drv, "outcomes": [outcome],
                            "callers": [{"name": "A", "mode": "send", "unit": [[key, 2], ["q16", 3]]}], "tail_sends": 5,
                            "tag": "silent-answer"})
        # a caller cancelled at every await point of a send (lock wait, confirmation wait, answer wait), a second caller
        # behind it, then further sends
        for key in ("q16", "cfg", "qdt6", "dapc"):
            for cond in [{"writes": w} for w in range(1, 4)] + [{"reports": w} for w in range(1, 5)] + [{"time": 0.0}]:
                for plan in ([1] * 20, [-1], [0, 0, 0, 1, 1, 1, 1, 1, 1, 1, 1, 1]):
                    scs.append({"driver": drv, "outcomes": [["val", 7], ["val", 200], ["none", 0], ["val", 31]],
                                "callers": [{"name": "A", "mode": "send", "unit": [[key, 3], ["q16", 4]], "cancel": cond},
                                            {"name": "B", "mode": "send", "unit": [["q16", 9]], "start": {"writes": 1}}],
                                "release_plan": list(plan), "tail_sends": 20, "tag": "serial-cancel"})
    return scs


def prepare(sc):
    """turn the declarative loss description into gateway triggers (device returns after `outage` seconds)"""
    sc = dict(sc)
    if sc["driver"] in ("tridonic", "hasseb") and "returns" in sc:
        # 'return' is scheduled relative to the moment of loss by a watcher inside the run (see Run wrapper below)
        sc["auto_return"] = sc["outage"] if sc["returns"] else None
    return sc


def run_one(sc):
    sc2 = prepare(sc)
    r = drivers.run_scenario(sc2)
    return r


def run(tier, seed, replay=None):
    out = core.Outcome("C17", tier, seed)
    out.is_replay = replay is not None
    with core.Scratch("c17") as scx:
        if replay is not None:
            scs = [replay["case"]["scenario"]]
        else:
            scs = hid_scenarios(tier, seed) + serial_scenarios(tier, seed)
            asynctrace.model_runs(out, scx, "c17", tier)
            scs = scs + asynctrace.scenarios(seed, 32 if tier == "quick" else 400, "c17") \
                + asynctrace.serial_scenarios(seed, 32 if tier == "quick" else 400, "c17") \
                + asynctrace.hasseb_scenarios(seed, 16 if tier == "quick" else 200, "c17")
        recs = core.pmap(run_one, scs, chunksize=4)
        slim = []
        for ix, (sc, r) in enumerate(zip(scs, recs), 1):
            r["id"] = ix
            r["scenario"] = sc
            limit = sc.get("reconnect_limit")
            lost = r.get("lost_at", -1)
            expect_failed = 1 if (sc["driver"] in ("tridonic", "hasseb") and limit is not None and r.get("lost_at", -1) >= 0
                                  and not r.get("returned_in_time", True)) else 0
            if expect_failed and r["now"] - r["lost_at"] < (limit + 1) * sc.get("reconnect_interval", 1) + 0.5:
                expect_failed = -1      # the run ended before the attempts could run out: neither required nor forbidden
            if sc.get("connect_again_at") is not None:
                expect_failed = -1      # 'failed' is reported on the way, 'connected' at the end: judged by what follows
            s = {k: v for k, v in r.items() if k not in ("scenario", "writes", "traffic", "events")}
            tl = r["out"].get("tail", {})
            s["status"] = [[us(t), st] for t, st in r["status"][:tl.get("status_len", len(r["status"]))]]
            s["opens"] = [[us(t), ok] for t, ok in r["opens"][:tl.get("opens_len", len(r["opens"]))]]
            s["out"] = dict(r["out"], tail={k: v for k, v in tl.items() if k in ("n", "ok", "exc", "wrong")})
            for c in s["callers"]:
                c["after_loss"] = 1 if (lost >= 0 and c["t0"] >= lost) else 0
                c["t0"], c["t1"] = us(max(0, c["t0"])), us(max(0, c["t1"]))
            s["params"] = {"limit": -1 if limit is None else limit, "interval": us(sc.get("reconnect_interval", 1)),
                           "expect_failed": expect_failed, "lost_at": us(lost) if lost >= 0 else 0,
                           "call_at": us(sc["connect_again_at"]) if sc.get("connect_again_at") is not None else -1,
                           "timeout_confirm": us(1.0 if sc["driver"] == "luba" else 0.1),
                           "timeout_answer": us(0.025 if sc["driver"] == "luba" else 0.03)}
            s["now"] = us(r["now"])
            slim.append(s)
        if replay is None:
            asynctrace.conformance(out, recs, scx)
        paths, counts = core.shard_records(slim, scx, "c17", nshards=core.NCPU if len(slim) > 32 else 1)
        rejects, notes, states, trans, wall = core.judge_shards("AsyncJudge", "AsyncJudge.cfg", paths, scx,
                                                                expect_counts=counts, extra_env={"MODE": "c17"})
        out.states += states
        out.transitions += trans
        out.traces = len(recs)
        out.evaluations = sum(r["iterations"] for r in recs)
        out.distinct_nontrivial = len({repr(r["scenario"]) for r in recs if r.get("lost_at", -1) >= 0 or
                                       any(c.get("cancelled") for c in r["callers"]) or r["scenario"].get("silent_confirm")
                                       or r["scenario"].get("silent_from")})
        out.rule = ("one run per fault scenario; evaluations = event loop iterations executed; non-trivial = distinct "
                    "scenarios in which the device was actually lost, a caller was actually cancelled, or the serial "
                    "gateway stayed silent; every run ends with the device back and 300 (serial: 5-20) further sends")
        out.extra["by_tag"] = {t: sum(1 for s_ in scs if s_["tag"].split(":")[0] == t) for t in
                               ("hid", "cancel", "dt-retry", "silent-confirm", "silent-answer", "serial-cancel")}
        out.extra["expect_failed_runs"] = sum(1 for s_ in slim if s_["params"]["expect_failed"] == 1)
        byid = {r["id"]: r for r in recs}
        s0 = recs[min(1, len(recs) - 1)]
        out.samples = [{"scenario": s0["scenario"], "status": s0["status"], "opens": s0["opens"],
                        "callers": [[c["name"], c["exc"]] for c in s0["callers"]], "tail": s0["out"].get("tail")}]
        out.assumptions = ["loss = reads return EOF or raise OSError and writes raise OSError on the fake hidraw node",
                           "a caller with exceptions off needs the device to return; such scenarios always let it return",
                           "reconnect attempts are observed as open() calls on the fake OS with virtual timestamps"]
        rej = [({"scenario": byid[rj[1]]["scenario"]}, {"clause": rj[2], "at": rj[3], "driver": byid[rj[1]]["driver"]}) for rj in rejects]
        out.classify(rej, match_known)
        kf = {}
        for f, case, verdict in out.known:
            kf[verdict.get("driver", "?")] = kf.get(verdict.get("driver", "?"), 0) + 1
        out.extra["known_finding_runs_by_driver"] = kf
    return out.finish()


def match_known(f, case, verdict):
    # the witness is computed by TLC (AsyncJudge!Orphan) and is part of the clause
    return f.get("id") == "orphaned-answer-after-cancel" and verdict.get("driver") in ("hasseb", "luba", "sci") \
        and str(verdict.get("clause", "")).endswith(":after-a-send-cancelled-in-flight")
