"""./check Cxx [--tier quick|thorough] [--replay path]"""
import argparse
import importlib
import json
import os
import sys
import traceback

from . import core


def main(argv=None):
    ap = argparse.ArgumentParser()
    ap.add_argument("prop")
    ap.add_argument("--tier", default=os.environ.get("VERIF_TIER", "quick"), choices=["quick", "thorough"])
    ap.add_argument("--replay")
    a = ap.parse_args(argv)
    seed = core.seed_from_env(0)
    name = a.prop.lower()
    try:
        mod = importlib.import_module("harness." + name)
        replay = None
        if a.replay:
            with open(a.replay) as fh:
                replay = json.load(fh)
            seed = replay.get("seed", seed)
        rc = mod.run(a.tier, seed, replay=replay)
    except core.MachineryError as e:
        print("MACHINERY-FAILURE %s: %s" % (a.prop, e), file=sys.stderr)
        return 2
    except Exception:
        traceback.print_exc()
        print("MACHINERY-FAILURE %s: unexpected exception in the harness" % a.prop, file=sys.stderr)
        return 2
    return rc


if __name__ == "__main__":
    sys.exit(main())
