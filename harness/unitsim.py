"""Small bus-unit simulators used to answer the library's sequences.

They are NOT trusted: every step they take is re-executed by TLC on the TLA+ unit model
(Gear102 / MemUnit / Dev103 / Gear209) and a disagreement is a machinery failure (exit 2).
Frames are decoded with tables exported from the specification, never with the library.
"""
from . import core


class Decoder16:
    def __init__(self):
        t = core.spec_tables()
        self.std = {}
        for row in t["gear"]:
            if row[0] != "102":
                continue
            for k in range(16 if "P" in row[3] else 1):
                self.std[row[2] + k] = row[1]
        self.special = {row[2]: row[1] for row in t["gearspecial"]}

    def decode(self, f):
        """-> (name, dest, lowbyte); dest = (kind, n) or None"""
        a7, sel, lb = f >> 9, (f >> 8) & 1, f & 0xFF
        if a7 < 64:
            dest = ("gshort", a7)
        elif a7 < 80:
            dest = ("ggroup", a7 - 64)
        elif a7 == 127:
            dest = ("gbcast", 0)
        elif a7 == 126:
            dest = ("gunaddr", 0)
        else:
            return self.special.get(f >> 8, "?"), None, lb
        if not sel:
            return "DAPC", dest, lb
        return self.std.get(lb, "?"), dest, lb


class Gear:
    def __init__(self, short=255, rand=0, store_ok=True, groups=(), dts=(), init="DISABLED", stuck=False):
        self.short, self.rand, self.store_ok = short, rand, store_ok
        self.stuck = stuck      # Gear102 stuckdel: the address memory cannot be written at all (SET SHORT ADDRESS ignored too)
        self.init = init
        self.groups = set(groups)
        self.dts = list(dts)
        self.dtpos = 0


class GearBus:
    def __init__(self, gear, dtr0=0):
        self.gear = gear
        self.search = 0
        self.dtr0 = dtr0
        self.dec = Decoder16()

    def _addressed(self, g, dest):
        k, n = dest
        return (k == "gshort" and g.short == n) or (k == "ggroup" and n in g.groups) or k == "gbcast" or \
            (k == "gunaddr" and g.short == 255)

    @staticmethod
    def _short_from(b, old):
        if b == 255:
            return 255
        if b < 128 and b % 2 == 1:
            return b >> 1
        return old

    def step(self, f, draws=None):
        """-> ("none"|"val"|"err", v)"""
        name, dest, lb = self.dec.decode(f)
        ans = []
        if name != "QueryNextDeviceType":
            for g in self.gear:
                g.dtpos = 0
        G = self.gear
        if name == "DTR0":
            self.dtr0 = lb
        elif name == "SetShortAddress":
            for g in G:
                if self._addressed(g, dest) and not g.stuck:
                    g.short = self._short_from(self.dtr0, g.short)
        elif name == "QueryControlGearPresent":
            ans = [255 for g in G if self._addressed(g, dest)]
        elif name == "QueryMissingShortAddress":
            ans = [255 for g in G if self._addressed(g, dest) and g.short == 255]
        elif name == "Terminate":
            for g in G:
                g.init = "DISABLED"
        elif name == "Initialise":
            for g in G:
                if lb == 0 or (lb == 255 and g.short == 255) or (lb < 128 and lb % 2 == 1 and g.short == lb >> 1):
                    g.init = "ENABLED"
        elif name == "Randomise":
            for k, g in enumerate(G):
                if g.init != "DISABLED":
                    g.rand = draws[k]
        elif name == "SearchaddrH":
            self.search = (lb << 16) | (self.search & 0xFFFF)
        elif name == "SearchaddrM":
            self.search = (self.search & 0xFF00FF) | (lb << 8)
        elif name == "SearchaddrL":
            self.search = (self.search & 0xFFFF00) | lb
        elif name == "Compare":
            ans = [255 for g in G if g.init == "ENABLED" and g.rand <= self.search]
        elif name == "Withdraw":
            for g in G:
                if g.init == "ENABLED" and g.rand == self.search:
                    g.init = "WITHDRAWN"
        elif name == "ProgramShortAddress":
            for g in G:
                if g.init != "DISABLED" and g.rand == self.search and g.store_ok:
                    g.short = self._short_from(lb, g.short)
        elif name == "VerifyShortAddress":
            ans = [255 for g in G if g.init != "DISABLED" and lb < 128 and lb % 2 == 1 and g.short == lb >> 1]
        elif name == "QueryShortAddress":
            ans = [(255 if g.short == 255 else 2 * g.short + 1) for g in G
                   if g.init != "DISABLED" and g.rand == self.search]
        elif name == "AddToGroup":
            for g in G:
                if self._addressed(g, dest):
                    g.groups.add(lb % 16)
        elif name == "RemoveFromGroup":
            for g in G:
                if self._addressed(g, dest):
                    g.groups.discard(lb % 16)
        elif name == "QueryGroupsZeroToSeven":
            ans = [sum(1 << j for j in range(8) if j in g.groups) for g in G if self._addressed(g, dest)]
        elif name == "QueryGroupsEightToFifteen":
            ans = [sum(1 << j for j in range(8) if j + 8 in g.groups) for g in G if self._addressed(g, dest)]
        elif name == "QueryDeviceType":
            for g in G:
                if self._addressed(g, dest):
                    ans.append(254 if not g.dts else g.dts[0] if len(g.dts) == 1 else 255)
                    if len(g.dts) > 1:
                        g.dtpos = 1
        elif name == "QueryNextDeviceType":
            for g in G:
                if self._addressed(g, dest) and g.dtpos > 0:
                    if g.dtpos <= len(g.dts):
                        ans.append(g.dts[g.dtpos - 1])
                        g.dtpos += 1
                    else:
                        ans.append(254)
                        g.dtpos = 0
        if not ans:
            return ("none", 0)
        if len(ans) == 1:
            return ("val", ans[0])
        return ("err", 0)

    def shorts(self):
        return [g.short for g in self.gear]


def to_response(cmd, resp):
    """Wrap a bus answer as the library's response object for cmd."""
    from dali.frame import BackwardFrame, BackwardFrameError
    if cmd.response is None:
        return None
    kind, v = resp
    if kind == "none":
        return cmd.response(None)
    if kind == "val":
        return cmd.response(BackwardFrame(v))
    return cmd.response(BackwardFrameError(v))


def drive(gen, answer, cap):
    """Run a library sequence (generator).  answer(cmd) -> (resp tuple, event dict).
    Returns (events, outcome dict)."""
    from dali.command import Command
    events = []
    send = None
    out = {"exc": "none", "ret": None}
    try:
        while True:
            item = gen.send(send)
            if isinstance(item, Command):
                if len(events) >= cap:
                    out["exc"] = "nonterminating"
                    gen.close()
                    break
                resp, ev = answer(item)
                events.extend(ev if isinstance(ev, list) else [ev])
                send = to_response(item, resp)
            else:
                send = None
    except StopIteration as s:
        out["ret"] = s.value
    except Exception as e:  # noqa: recorded
        out["exc"] = type(e).__name__
    return events, out


def drive_iter(gen, answer, cap):
    """drive() as a generator of its own: pauses after every command so that several sequences can be run interleaved.
    The result (events, outcome) is the generator's return value."""
    from dali.command import Command
    events = []
    send = None
    out = {"exc": "none", "ret": None}
    try:
        while True:
            item = gen.send(send)
            if isinstance(item, Command):
                if len(events) >= cap:
                    out["exc"] = "nonterminating"
                    gen.close()
                    break
                resp, ev = answer(item)
                events.extend(ev if isinstance(ev, list) else [ev])
                send = to_response(item, resp)
                yield
            else:
                send = None
    except StopIteration as s:
        out["ret"] = s.value
    except Exception as e:  # noqa: recorded
        out["exc"] = type(e).__name__
    return events, out


def drive_interleaved(parts, cap, burst=1):
    """parts = [(make_gen, answer)]: the sequences take turns, `burst` commands at a time; make_gen() is called at the
    sequence's first turn.  Returns [(events, outcome)] in the order of parts."""
    its, res = [], [None] * len(parts)
    for mk, ans in parts:
        try:
            its.append(drive_iter(mk(), ans, cap))
        except Exception as e:  # noqa: recorded
            its.append(None)
            res[len(its) - 1] = ([], {"exc": type(e).__name__, "ret": None})
    live = [k for k, it in enumerate(its) if it is not None]
    while live:
        for k in list(live):
            try:
                for _ in range(burst):
                    next(its[k])
            except StopIteration as s:
                res[k] = s.value
                live.remove(k)
    return res


class Decoder24:
    def __init__(self):
        t = core.spec_tables()
        self.dev = {row[2]: row[1] for row in t["dev"]}
        self.inst = {row[2]: row[1] for row in t["inst"]}
        self.special = [(row[2], row[3], row[4], row[1]) for row in t["devspecial"]]

    def decode(self, f):
        """-> (name, dest, opcode byte)"""
        ab, ib, ob = f >> 16, (f >> 8) & 0xFF, f & 0xFF
        if not (ab & 1):
            return "event", None, ob
        a7 = ab >> 1
        dest = None
        if a7 < 64:
            dest = ("dshort", a7)
        elif a7 < 96:
            dest = ("dgroup", a7 - 64)
        elif a7 == 127:
            dest = ("dbcast", 0)
        elif a7 == 126:
            dest = ("dunaddr", 0)
        if dest is not None:
            return (self.dev.get(ob, "?") if ib == 0xFE else self.inst.get(ob, "?")), dest, ob
        for sab, sib, fl, name in self.special:
            if sab == ab and ("2" in fl or sib == ib):
                if "2" in fl or "1" in fl or ob == 0:
                    return name, None, ob
        return "?", None, ob


class MemUnitSim:
    """One memory bank of a bus unit with short address 5 (mirror of spec/MemUnit.tla)."""

    def __init__(self, kind, bank, bankno, mem, types, latchable, unlock=0x55, nobble=False, echoflip=False,
                 fault=(0, "none"), dtr0=0, dtr1=0, wes=False):
        self.kind, self.bank, self.bankno = kind, bank, bankno
        self.mem = list(mem)
        self.types = types            # loc -> letter ("R" when the map has no value there)
        self.latchable = latchable
        self.snap = None
        self.unlock, self.nobble, self.echoflip, self.fault = unlock, nobble, echoflip, tuple(fault)
        self.dtr0, self.dtr1, self.wes = dtr0, dtr1, wes
        self.nans = 0
        self.d16, self.d24 = Decoder16(), Decoder24()

    def view(self, l):
        if self.latchable and self.snap is not None and self.mem[2] == 0xAA:
            return self.snap[l]
        return self.mem[l]

    def _faulted(self, ans):
        if self.fault[1] != "none" and self.nans + 1 == self.fault[0]:
            if self.fault[1] == "silent":
                return ("none", 0)
            if self.fault[1] == "stuck":
                return ans
            if self.fault[1] == "errsame" and ans[0] == "val":
                return ("err", ans[1])
            return ("err", 255)
        return ans

    def step(self, ln, f):
        if (ln == 16) != (self.kind == "gear"):
            return ("none", 0)
        name, dest, v = self.d16.decode(f) if ln == 16 else self.d24.decode(f)
        addressed = dest in (("gshort", 5), ("gbcast", 0), ("dshort", 5), ("dbcast", 0))
        if name == "DTR0":
            self.dtr0 = v
        elif name == "DTR1":
            self.dtr1 = v
        elif name == "DTR2":
            pass
        elif name == "QueryContentDTR0":
            return ("val", self.dtr0) if addressed else ("none", 0)
        elif name == "QueryContentDTR1":
            return ("val", self.dtr1) if addressed else ("none", 0)
        elif name == "EnableWriteMemory":
            self.wes = addressed
        elif name == "ReadMemoryLocation":
            self.wes = False
            if not addressed or self.dtr1 != self.bankno:
                return ("none", 0)
            l = self.dtr0
            ok = l < 255 and self.view(0) >= 0 and l <= self.view(0) and self.view(l) >= 0
            ans = ("val", self.view(l)) if ok else ("none", 0)
            ans = self._faulted(ans)
            self.nans += 1
            self.dtr0 = min(l + 1, 255)
            return ans
        elif name in ("WriteMemoryLocation", "WriteMemoryLocationNoReply"):
            if not self.wes or self.dtr1 != self.bankno:
                return ("none", 0)
            l = self.dtr0
            t = self.types.get(l, "R")
            ok = l < 255 and self.view(0) >= 0 and l <= self.view(0) and self.mem[l] >= 0 and t in "WNL" and \
                (t != "L" or self.mem[2] == self.unlock)
            if ok:
                self.mem[l] = v
                if l == 2 and v == 0xAA and self.latchable:
                    self.snap = list(self.mem)
            stuck = self.fault[1] == "stuck" and name == "WriteMemoryLocation" and self.nans + 1 == self.fault[0]
            if not self.nobble and not stuck:
                self.dtr0 = min(l + 1, 255)
            if name == "WriteMemoryLocation":
                ans = ("val", (v + 1) % 256 if self.echoflip else v) if ok else ("none", 0)
                ans = self._faulted(ans)
                self.nans += 1
                return ans
            return ("none", 0)
        else:
            self.wes = False
        return ("none", 0)

    def tick(self, changes):
        for l, v in changes:
            self.mem[l] = v


class DevBusSim:
    """Control devices with instances (mirror of spec/Dev103.tla)."""

    def __init__(self, bus):
        import copy
        self.dev = copy.deepcopy(bus["dev"])
        self.dtr0, self.dtr1, self.dtr2 = bus["dtr0"], bus["dtr1"], bus["dtr2"]
        self.fault = tuple(bus["fault"])
        self.nans = 0
        self.latch = []
        self.quiescent = False
        self.d24 = Decoder24()

    @staticmethod
    def value_bytes(bits):
        n = len(bits)
        nb = (n + 7) // 8
        stream = [bits[k % n] for k in range(8 * nb)]
        return [int("".join(str(b) for b in stream[8 * j:8 * j + 8]), 2) for j in range(nb)]

    def _faulted(self, ans):
        self.nans += 1
        if self.fault[1] != "none" and self.nans == self.fault[0]:
            if self.fault[1] == "silent":
                return ("none", 0)
            if self.fault[1] == "errsame" and ans[0] == "val":
                return ("err", ans[1])          # garbled, yet the data bits are those of the right answer
            return ("err", 255)
        return ans

    @staticmethod
    def _collect(ans):
        ans = [a for a in ans if a >= 0]
        if not ans:
            return ("none", 0)
        if len(ans) == 1:
            return ("val", ans[0])
        return ("err", 0)

    def step(self, f):
        name, dest, ob = self.d24.decode(f)
        ib = (f >> 8) & 0xFF
        k0 = ib if ib < 32 else -1

        def addressed(d):
            if dest is None:
                return False
            k, n = dest
            return (k == "dshort" and d["short"] == n) or k == "dbcast" or (k == "dunaddr" and d["short"] == 255)

        def q(fn):
            return self._faulted(self._collect([fn(d) if addressed(d) else -1 for d in self.dev]))

        def qi(fn):
            return q(lambda d: fn(d["inst"][k0]) if 0 <= k0 < len(d["inst"]) else -1)

        def upd(fn):
            for d in self.dev:
                if addressed(d) and 0 <= k0 < len(d["inst"]):
                    fn(d["inst"][k0])
            return ("none", 0)

        if name == "DTR0":
            self.dtr0 = ob
        elif name == "DTR1":
            self.dtr1 = ob
        elif name == "DTR2":
            self.dtr2 = ob
        elif name == "DTR1DTR0":
            self.dtr1, self.dtr0 = ib, ob
        elif name == "DTR2DTR1":
            self.dtr2, self.dtr1 = ib, ob
        elif name == "StartQuiescentMode":
            self.quiescent = True
        elif name == "StopQuiescentMode":
            self.quiescent = False
        elif name == "QueryDeviceStatus":
            return q(lambda d: d["status"])
        elif name == "QueryNumberOfInstances":
            return q(lambda d: len(d["inst"]))
        elif name == "QueryInstanceEnabled":
            return qi(lambda x: 255 if x["enabled"] else -1)
        elif name == "QueryInstanceType":
            return qi(lambda x: x["type"])
        elif name == "QueryResolution":
            return qi(lambda x: x["res"])
        elif name == "QueryEventScheme":
            return qi(lambda x: x["scheme"])
        elif name == "SetEventScheme":
            def f_(x):
                if self.dtr0 <= 4:
                    x["scheme"] = self.dtr0
            return upd(f_)
        elif name == "SetEventFilter":
            def f_(x):
                w = x["width"]
                x["filter"] = [self.dtr0, self.dtr1 if w >= 16 else 0, self.dtr2 if w >= 24 else 0]
            return upd(f_)
        elif name == "QueryEventFilterZeroToSeven":
            return qi(lambda x: x["filter"][0])
        elif name == "QueryEventFilterEightToFifteen":
            return qi(lambda x: x["filter"][1])
        elif name == "QueryEventFilterSixteenToTwentyThree":
            return qi(lambda x: x["filter"][2])
        elif name == "QueryInputValue":
            src = [d for d in self.dev if addressed(d) and 0 <= k0 < len(d["inst"])]
            r = qi(lambda x: self.value_bytes(x["value"])[0])
            self.latch = self.value_bytes(src[0]["inst"][k0]["value"])[1:] if src else []
            return r
        elif name == "QueryInputValueLatch":
            a = ("val", self.latch[0]) if self.latch else ("none", 0)
            self.latch = self.latch[1:]
            return self._faulted(a)
        return ("none", 0)
