"""C07 -- commissioning terminates and assigns distinct, permitted short addresses.

Spec:    spec/Gear102.tla (bus of IEC 62386-102 gear), SeqCommissioning.tla (PlusCal transcription of the
         generator, exhaustive over draw streams), CommClauses.tla (P1..P6), CommJudge.tla (trace judge)
Binding: the real generator runs against a unit simulator; TLC re-executes every yielded frame on Gear102,
         checks answers/state (environment check) and evaluates P1..P6.  Scenarios come from TLC
         (-simulate behaviours of SeqCommissioning; the P3 counterexample of the finding config) and from a
         seeded Python generator (0..70 gear, forced clashes, store faults).
"""
import random
import re

from . import core
from .unitsim import Gear, GearBus, drive

core.ensure_repo_on_path()


def run_scenario(sc):
    """sc = {shorts, storeOK, permitted, readdress, dryrun, draws:[[...]...], maxrounds} -> trace record"""
    from dali.sequences import Commissioning
    n = len(sc["shorts"])
    inits = sc.get("inits") or ["DISABLED"] * n
    stuck = sc.get("stuck") or [False] * n
    bus = GearBus([Gear(short=s, store_ok=ok, init=it, stuck=st) for s, ok, it, st in zip(sc["shorts"], sc["storeOK"], inits, stuck)])
    draws = list(sc["draws"])
    state = {"round": 0}

    def answer(cmd):
        f = cmd.frame.as_integer
        name, _, _ = bus.dec.decode(f) if len(cmd.frame) == 16 else ("?", None, 0)
        d = []
        if name == "Randomise":
            r = state["round"]
            d = draws[r] if r < len(draws) else draws[-1] if draws else [0] * n
            state["round"] += 1
        resp = bus.step(f, d)
        return resp, {"f": f, "resp": list(resp), "draws": list(d), "shorts": bus.shorts()}

    cap = 200 + sc["maxrounds"] * (n + 1) * 250 + 5
    gen = Commissioning(available_addresses=list(sc["permitted"]), readdress=sc["readdress"], dry_run=sc["dryrun"])
    events, out = drive(gen, answer, cap)
    cfg = {"shorts": sc["shorts"], "storeOK": sc["storeOK"], "permitted": sc["permitted"],
           "readdress": sc["readdress"], "dryrun": sc["dryrun"], "rands": [0] * n, "groups": [[] for _ in range(n)],
           "dts": [[] for _ in range(n)], "dtr0": 0, "inits": list(inits), "stuck": list(stuck)}
    return {"seq": "Commissioning", "cfg": cfg, "maxrounds": sc["maxrounds"], "ev": events,
            "out": {"exc": out["exc"]}, "scenario": sc}


def py_scenario(seed, k):
    rng = random.Random(seed * 10007 + k)
    n = rng.choice([0, 1, 2, 3, 3, 4, 5, 8, 12, 20]) if k % 7 else rng.choice([40, 64, 70])
    shorts = []
    for _ in range(n):
        r = rng.random()
        shorts.append(255 if r < 0.6 else rng.randrange(64) if r < 0.9 else rng.choice([0, 1, 63]))
    store = [rng.random() > 0.04 for _ in range(n)]
    r = rng.random()
    if r < 0.4:
        permitted = list(range(64))
    elif r < 0.8:
        permitted = rng.sample(range(64), rng.randrange(0, 64))
    else:
        permitted = rng.sample(range(64), rng.randrange(0, 4))
    clash_rounds = rng.choice([0, 0, 0, 1, 1, 2, 3])
    draws = []
    for _ in range(clash_rounds):
        vals = rng.choice([[0, 1], [0xFFFFFF, 0xFFFFFE], [5], [0, 0xFFFFFF, 0x800000], [rng.getrandbits(24), rng.getrandbits(24)]])
        draws.append([rng.choice(vals) for _ in range(n)])
    pool = set()
    while len(pool) < n:
        pool.add(rng.choice([0, 1, 0xFFFFFF, 0xFFFFFE, 0x800000, 0x7FFFFF]) if rng.random() < 0.15 else rng.getrandbits(24))
    final = list(pool)
    rng.shuffle(final)
    draws.append(final)
    sc = {"shorts": shorts, "storeOK": store, "permitted": permitted, "readdress": rng.random() < 0.5,
          "dryrun": rng.random() < 0.2, "draws": draws, "maxrounds": clash_rounds + 1, "src": "py:%d:%d" % (seed, k)}
    if k % 4 == 1:
        # history: an earlier commissioning run was abandoned, some units are still in initialisation mode
        sc["inits"] = [rng.choice(["DISABLED", "ENABLED", "WITHDRAWN"]) for _ in range(n)]
        if k % 8 == 1 and n:
            # ... and every permitted address is taken
            sc["permitted"] = sorted({s_ for s_ in shorts if s_ != 255})[:3]
            sc["readdress"] = False
    return sc


def _tla_cfg_to_scenario(cfgv, drawlog, maxrounds, src):
    return {"shorts": cfgv["shorts"], "storeOK": cfgv["storeOK"], "permitted": cfgv["permitted"],
            "readdress": cfgv["readdress"], "dryrun": cfgv["dryrun"], "draws": drawlog, "maxrounds": maxrounds,
            "src": src}


def tlc_scenarios(sc, tier, seed):
    """Behaviours of SeqCommissioning printed by the Export invariant under -simulate."""
    num = 150 if tier == "quick" else 3000
    r = core.run_tlc("SeqCommissioning", "SeqCommissioning_sim.cfg", sc, workers=1, timeout=900,
                     extra=["-simulate", "num=%d" % num, "-depth", "1600", "-seed", str(seed + 1)])
    scen = []
    for v in core.extract_tagged(r.out, "SCEN"):
        s = _tla_cfg_to_scenario(v[1], v[2], 3, "tlc-simulate")
        s["expect"] = {"outcome": v[3], "shorts": v[4], "witness": v[5], "count": v[6]}
        scen.append(s)
    if not scen:
        raise core.MachineryError("no scenarios from tlc -simulate:\n" + r.out[-2000:])
    return scen, r


def bytes_scenarios(sc):
    """Every terminal state of the byte-boundary instance (3 unaddressed gear drawing 0x123456 / 0xFFFEFF / 0xFFFF80, one
    clash round): exhaustive export, replayed on the real generator like the simulated behaviours."""
    r = core.run_tlc("SeqCommissioning", "SeqCommissioning_bytes_export.cfg", sc, workers=4, timeout=1500, xmx="4g")
    scen = []
    for v in core.extract_tagged(r.out, "SCEN"):
        s = _tla_cfg_to_scenario(v[1], v[2], 2, "tlc-bytes")
        s["expect"] = {"outcome": v[3], "shorts": v[4], "witness": v[5], "count": v[6]}
        scen.append(s)
    if len(scen) < 50:
        raise core.MachineryError("byte-boundary export produced only %d terminal states:\n%s" % (len(scen), r.out[-2000:]))
    return scen, r


def bytes_model(out, sc):
    """the byte-boundary instance: the code's search (all three bytes per probe) and a correct 'skip unchanged bytes'
    optimisation hold; the optimisation with the slip of the seeded change C07f must violate P2"""
    for cfg, label, must in (("SeqCommissioning_bytes.cfg", "SeqCommissioning byte-boundary random addresses (3 gear, K = 1)", None),
                             ("SeqCommissioning_bytes_exact.cfg", "... with a correct skip-unchanged-bytes optimisation", None),
                             ("SeqCommissioning_bytes_slip.cfg", "... with the slip of C07f (violates P2, as intended)", "InvP2")):
        r = core.run_tlc("SeqCommissioning", cfg, sc, workers=8, timeout=1500, xmx="4g")
        if must is None and not r.ok:
            raise core.MachineryError("%s failed:\n%s" % (cfg, r.out[-3000:]))
        if must is not None and ("Invariant %s is violated" % must) not in r.out:
            raise core.MachineryError("%s should violate %s" % (cfg, must))
        out.add_spec_run(r, label)


def finding_scenario(sc):
    """TLC's counterexample to P3 without the witness exclusion -> draw stream for the real generator."""
    r = core.run_tlc("SeqCommissioning", "SeqCommissioning_finding.cfg", sc, workers=core.NCPU, timeout=900)
    if "Invariant InvP3NoExclusion is violated" not in r.out:
        return None, r
    m = None
    for m in re.finditer(r"/\\ drawlog = (<<.*?>>)\n/\\", r.out, re.S):
        pass
    mc = None
    for mc in re.finditer(r"/\\ cfg = (\[.*?\])\n/\\", r.out, re.S):
        pass
    if not m or not mc:
        raise core.MachineryError("cannot parse TLC counterexample")
    draws = core.parse_tla_value(m.group(1))
    cfgv = core.parse_tla_value(mc.group(1))
    return _tla_cfg_to_scenario(cfgv, draws, 3, "tlc-counterexample"), r


def match_known(f, case, verdict):
    return f.get("id") == "withdrawn-collision" and verdict.get("clause", "")[:2] in ("P2", "P3") and verdict.get("witness") is True


def boundary_scenarios(tier, seed):
    """Random addresses on byte boundaries of the 24-bit search address, in pairs where finding one unit is followed by
    a search for a unit just above it (same / next low byte, next middle byte, next high byte): whatever the sequence
    remembers from one search must still be true in the next."""
    rng = random.Random(seed * 31 + 7)
    bs = (0x00, 0x01, 0x7F, 0x80, 0xFE, 0xFF)
    out = []
    for h in bs:
        for m in bs:
            for lo in bs:
                x = (h << 16) | (m << 8) | lo
                ys = {x + 1, x + 2, (x | 0xFF) + 1, (x | 0xFF) + 0x81, (x | 0xFFFF) + 1, (x | 0xFFFF) + 0x8001, 0xFFFFFE, 0xFFFFFF}
                ys = sorted(y for y in ys if x < y <= 0xFFFFFF)
                if tier == "quick":
                    ys = [y for j, y in enumerate(ys) if lo == 0xFF or (h + m + lo + j) % 5 == 0][:3]
                for y in ys:
                    third = rng.choice([None, 0x123456, x // 2, 0])
                    final = [x, y] + ([third] if third is not None and third not in (x, y) else [])
                    rng.shuffle(final)
                    n = len(final)
                    out.append({"shorts": [255] * n, "storeOK": [True] * n, "permitted": list(range(64)),
                                "readdress": rng.random() < 0.5, "dryrun": False, "draws": [final], "maxrounds": 1,
                                "src": "boundary:%06x:%06x" % (x, y)})
    return out


def long_clash_scenarios(tier):
    """two (three) unaddressed gear that draw the same random address round after round -- far more often than chance
    allows, but a draw stream like any other -- and different ones in the end: the sequence goes on until they do"""
    out = []
    for n, rounds, v in ((2, 258, 0x123456), (3, 300, 0xFFFFFF)) if tier == "thorough" else ((2, 258, 0x123456),):
        draws = [[v] * n for _ in range(rounds)] + [[0x000100 + 77 * k for k in range(n)]]
        out.append({"shorts": [255] * n, "storeOK": [True] * n, "permitted": list(range(64)), "readdress": False,
                    "dryrun": False, "draws": draws, "maxrounds": rounds + 1, "src": "long-clash:%d" % rounds})
    return out


def stuck_scenarios(tier, seed):
    """re-addressing a bus on which one addressed unit cannot rewrite its address memory at all: it ignores the broadcast
    'delete short address' as well as PROGRAM SHORT ADDRESS.  All 64 addresses are permitted (they never run out), so the
    unit is reached and must make the sequence raise -- it must not be passed over while its address goes to another unit"""
    rng = random.Random(seed * 7919 + 5)
    out = []
    for n in (2, 3, 4, 6) if tier == "quick" else (2, 3, 4, 5, 6, 9, 14):
        for s in sorted({0, 1, n - 2}):
            for where in range(n if tier == "thorough" else min(n, 3)):
                shorts = [rng.choice([255, 255, 10 + rng.randrange(50)]) for _ in range(n)]
                shorts[where] = s
                store = [True] * n
                store[where] = False
                stuck = [k == where for k in range(n)]
                draws = rng.sample(range(0x1000000), n)
                out.append({"shorts": shorts, "storeOK": store, "stuck": stuck, "permitted": list(range(64)),
                            "readdress": True, "dryrun": rng.random() < 0.15, "draws": [draws], "maxrounds": 1,
                            "src": "stuck:%d:%d:%d" % (n, s, where)})
    return out


def run(tier, seed, replay=None):
    out = core.Outcome("C07", tier, seed)
    out.is_replay = replay is not None
    with core.Scratch("c07") as sc:
        scen = []
        drift = 0
        if replay is None:
            if tier == "quick":
                r = core.spec_check("SeqCommissioning", "SeqCommissioning_small.cfg", sc, timeout=3000)
                out.add_spec_run(r, "SeqCommissioning exhaustive (2 gear, clash rounds K = 2)")
            else:
                # 3 gear, boundary random addresses, one clash round: exhaustive (5.0 M states, ~6 min); the full instance
                # (4 random addresses, two clash rounds; > 50 M states, does not finish in 50 min) is sampled with
                # tlc -simulate, invariants P1..P6 evaluated in every state
                r = core.spec_check("SeqCommissioning", "SeqCommissioning_small.cfg", sc, timeout=3000)
                out.add_spec_run(r, "SeqCommissioning exhaustive (2 gear, clash rounds K = 2)")
                r = core.spec_check("SeqCommissioning", "SeqCommissioning_mid1.cfg", sc, timeout=3000)
                out.add_spec_run(r, "SeqCommissioning exhaustive (3 gear, K = 1)")
                r = core.run_tlc("SeqCommissioning", "SeqCommissioning_full.cfg", sc, workers=core.NCPU, timeout=3000,
                                 extra=["-simulate", "num=2500", "-depth", "1600", "-seed", str(seed + 11)])
                if r.rc != 0 or "Error:" in r.out:
                    raise core.MachineryError("SeqCommissioning full instance, simulation failed:\n" + r.out[-3000:])
                import re as _re
                m = _re.search(r"(\d+) states checked, (\d+) traces generated", r.out)
                out.extra.setdefault("spec_runs", {})["SeqCommissioning full instance (3 gear, 4 values, K = 2), tlc -simulate"] = {
                    "states_checked": int(m.group(1)) if m else 0, "traces": int(m.group(2)) if m else 0, "wall_s": round(r.wall, 1)}
                out.transitions += int(m.group(1)) if m else 0
            fs, fr = finding_scenario(sc)
            out.add_spec_run(fr, "SeqCommissioning finding config (P3 without exclusion)")
            out.extra["tlc_p3_counterexample_found"] = fs is not None
            if fs:
                scen.append(fs)
            ts, tr = tlc_scenarios(sc, tier, seed)
            out.add_spec_run(tr, "SeqCommissioning -simulate (scenario export)")
            scen += ts
            bytes_model(out, sc)
            bs, br = bytes_scenarios(sc)
            out.add_spec_run(br, "SeqCommissioning byte-boundary instance, terminal states exported")
            scen += bs if tier == "thorough" else bs[::4]
            npy = 300 if tier == "quick" else 12000
            scen += [py_scenario(seed, k) for k in range(npy)]
            scen += boundary_scenarios(tier, seed)
            scen += long_clash_scenarios(tier)
            scen += stuck_scenarios(tier, seed)
        else:
            scen = [replay["case"]["scenario"]]
        recs = core.pmap(run_scenario, scen, chunksize=8)
        for ix, (s, rec) in enumerate(zip(scen, recs), 1):
            rec["id"] = ix
            exp = s.get("expect")
            if exp:
                # spec -> code direction: the behaviour TLC printed must be what the real generator did
                if exp["shorts"] != (rec["ev"][-1]["shorts"] if rec["ev"] else s["shorts"]) or \
                        exp["count"] != len(rec["ev"]) or exp["outcome"] != ("ok" if rec["out"]["exc"] == "none" else rec["out"]["exc"]):
                    drift += 1
        for rec in recs:
            if rec["out"]["exc"] == "none":
                rec["out"]["exc"] = "ok"
        slim = [{k: v for k, v in rec.items() if k != "scenario"} for rec in recs]
        paths, counts = core.shard_records(slim, sc, "c07", nshards=core.NCPU if len(slim) > 32 else 1)
        rejects, notes, states, trans, wall = core.judge_shards("CommJudge", "CommJudge.cfg", paths, sc,
                                                                expect_counts=counts)
        out.states += states
        out.transitions += trans
        out.traces = len(recs)
        out.evaluations = sum(len(r_["ev"]) for r_ in recs)
        out.distinct_nontrivial = sum(1 for r_ in recs if len(r_["cfg"]["shorts"]) >= 2)
        out.rule = ("one trace per scenario (bus configuration + draw stream + faults); non-trivial = buses with >= 2 "
                    "gear; sources: TLC counterexample, tlc -simulate behaviours of SeqCommissioning, seeded Python "
                    "generator (0..70 gear, duplicates, permitted subsets, forced clash rounds, store faults)")
        out.extra["spec_conformance"] = "drift:%d" % drift if drift else "ok"
        out.extra["scenario_sources"] = {k: sum(1 for s in scen if s["src"].startswith(k)) for k in ("tlc-c", "tlc-s", "py")}
        if drift:
            out.level = "exploration"
        byid = {r_["id"]: r_ for r_ in recs}
        s0 = recs[min(3, len(recs) - 1)]
        out.samples = [{"cfg": s0["cfg"], "draws": s0["scenario"]["draws"], "ev_head": s0["ev"][:4], "n_ev": len(s0["ev"]),
                        "out": s0["out"]}]
        out.assumptions = ["bus answers: 0 units -> none, 1 -> its byte, >= 2 -> framing error",
                           "RANDOMISE redraws for every unit not DISABLED (incl. WITHDRAWN); PROGRAM/VERIFY SHORT ADDRESS "
                           "apply to units not DISABLED (IEC 62386-102:2014 11.7)",
                           "draw streams: clashes allowed in the first rounds, then injective (the property's assumption)"]
        rej = []
        env = [rj for rj in rejects if str(rj[2]).startswith("env-")]
        if env:
            raise core.MachineryError("unit simulator disagrees with Gear102: %r" % env[:3])
        for rj in rejects:
            rec = byid.get(rj[1], {})
            rej.append(({"scenario": rec.get("scenario")}, {"clause": rj[2], "at": rj[3], "witness": rj[4]}))
        out.classify(rej, match_known)
    return out.finish()
