"""C15 -- async drivers keep transactions atomic and device-type prefixes adjacent.
(C16 re-uses the scenarios with MODE=c16: each command gets its own answer, typed by the command.)

Spec:    spec/AsyncJudge.tla (property-level TxnAtomic / AnswerPairing), AsyncDriver.tla (implementation-shaped
         model of lock / semaphore / per-command mailboxes, exhaustive for 2 callers)
Binding: scenarios (callers, start points, report release plans, outcomes) are replayed on the real drivers under
         the virtual event loop against recording fake gateways; TLC judges the wire log and the callers' results.
"""
import itertools
import random

from . import core
from . import drivers

MENU = {"tridonic": ["dapc", "q16", "yn16", "cfg", "qdt6", "cfgdt6", "q24", "c24", "i24", "dtr", "st16"],
        "hasseb": ["dapc", "q16", "yn16", "cfg", "qdt6", "cfgdt6", "dtr", "st16"],
        "luba": ["dapc", "q16", "yn16", "cfg", "qdt6", "cfgdt6", "q24", "c24", "i24", "dtr", "st16"],
        "sci": ["dapc", "q16", "yn16", "cfg", "qdt6", "cfgdt6", "q24", "c24", "i24", "dtr", "st16"]}


def rand_scenario(rng, drv, k):
    ncallers = rng.choice([2, 2, 3, 3, 4])
    callers = []
    n = 0
    for ci in range(ncallers):
        mode = rng.choice(["send", "sequence"])
        ln = rng.randrange(1, 4) if mode == "send" else rng.randrange(2, 5)
        unit = []
        for _ in range(ln):
            n += 1
            unit.append([rng.choice(MENU[drv]), 8 * ci + n % 8 + 1])
            if mode == "sequence" and rng.random() < 0.2:
                # what library sequences also yield: a pause (milliseconds) or a progress note
                unit.append(rng.choice([["sleep", rng.choice([0, 1, 30])], ["progress", n]]))
        r = rng.random()
        if ci == 0 or r < 0.3:
            start = {"time": 0.0}
        elif r < 0.65:
            start = {"writes": rng.randrange(1, 8)}
        else:
            start = {"reports": rng.randrange(1, 10)}
        callers.append({"name": "ABCD"[ci], "mode": mode, "unit": unit, "start": start})
    outcomes = []
    for _ in range(rng.randrange(3, 9)):
        r = rng.random()
        outcomes.append(["val", rng.choice([0, 1, 0xFE, 0xFF, rng.randrange(256)])] if r < 0.6 else
                        ["none", 0] if r < 0.85 else ["err", 0])
    sc = {"driver": drv, "callers": callers, "outcomes": outcomes, "first_seq": rng.randrange(1, 256),
          "release_plan": [rng.choice([0, 1, 1, 1, 2, -1]) for _ in range(rng.randrange(0, 40))],
          "latencies": [rng.choice([0.0, 0.0, 0.0005, 0.002]) for _ in range(rng.randrange(0, 30))], "tag": "rand:%d" % k}
    if drv in ("luba", "sci"):
        sc["coalesce"] = rng.choice([0, 0, 1, 2])      # how the serial port hands over frames that arrived together
        if rng.random() < 0.3:
            # bus time: what the gateway reports for a frame arrives 30 ms after the write, i.e. later than the 25 ms the
            # driver waits for an answer once the frame has been confirmed
            sc["latency"] = 0.03
            sc["latencies"] = []
        if rng.random() < 0.15:
            sc["send_before_connect"] = rng.choice([1, 2])
    return sc


def systematic(drv, tier):
    """2 callers (single send with device type vs 3-command sequence with a send-twice command and a query), every
    start point of the second caller and every release plan of bounded length"""
    out = []
    base = [{"name": "A", "mode": "sequence", "unit": [["dapc", 1], ["cfg", 2], ["q16", 3]]},
            {"name": "B", "mode": "send", "unit": [["qdt6", 9]]}]
    starts = [{"time": 0.0}] + [{"writes": w} for w in range(1, 5)] + [{"reports": w} for w in range(1, 8)]
    depth = 5 if tier == "quick" else 8
    plans = list(itertools.product([0, 1, -1], repeat=depth))
    if tier == "quick":
        plans = plans[::7]
    for st in starts:
        for first in ("A", "B"):
            for plan in plans:
                cs = [dict(c) for c in base]
                other = cs[1] if first == "A" else cs[0]
                mine = cs[0] if first == "A" else cs[1]
                mine["start"] = {"time": 0.0}
                other["start"] = st
                out.append({"driver": drv, "callers": cs, "release_plan": list(plan) + [1] * 12, "outcomes": [["val", 7], ["none", 0], ["val", 200]],
                            "tag": "sys"})
    return out


def cancel_queued(drv, tier):
    """A runs (sequence or send), B is queued on the transaction lock and is cancelled before it obtains it, C is queued
    behind B: A and C must still come out whole and the lock must end up free"""
    out = []
    for amode in ("sequence", "send"):
        for bmode in ("sequence", "send"):
            for cmode in ("send", "sequence"):
                for cw in (1, 2, 3):
                    for plan in ([1] * 30, [0, 1, 1, 0, 1, 1, 1, 1, 1, 1, 1, 1, 1, 1, 1, 1, 1, 1, 1, 1], [-1]):
                        out.append({"driver": drv, "release_plan": list(plan), "outcomes": [["val", 11], ["none", 0], ["val", 99]],
                                    "callers": [
                                        {"name": "A", "mode": amode, "unit": [["q16", 1], ["cfg", 2], ["q16", 3]], "start": {"time": 0.0}},
                                        {"name": "B", "mode": bmode, "unit": [["q16", 9], ["dapc", 10]], "start": {"writes": 1},
                                         "cancel": {"writes": 1 + cw}},
                                        {"name": "C", "mode": cmode, "unit": [["qdt6", 17] if drv != "sci" else ["q16", 17], ["dapc", 18]],
                                         "start": {"writes": 1}}],
                                    "tag": "cancel-queued"})
    return out if tier == "thorough" else out[::2]


def bad_close(drv, tier):
    """a sequence whose clean-up misbehaves (it yields once more when it is closed) is cancelled in mid-flight while
    two callers wait: close() raises, yet the lock must be free again and the others must come out whole"""
    out = []
    for cw in (2, 3, 4):
        for cmode in ("send", "sequence"):
            for plan in ([1] * 30, [-1], [0, 1, 1, 0, 1, 1, 1, 1, 1, 1, 1, 1, 1, 1, 1, 1]):
                out.append({"driver": drv, "release_plan": list(plan), "outcomes": [["val", 11], ["none", 0], ["val", 99]],
                            "callers": [
                                {"name": "A", "mode": "sequence", "unit": [["q16", 1], ["cfg", 2], ["q16", 3], ["q16", 4]],
                                 "start": {"time": 0.0}, "cancel": {"writes": cw}, "badclose": 1},
                                {"name": "B", "mode": cmode, "unit": [["q16", 9], ["dapc", 10]], "start": {"writes": 1}},
                                {"name": "C", "mode": "send", "unit": [["q16", 17]], "start": {"writes": 1}}],
                            "tag": "bad-close"})
    return out if tier == "thorough" else out[::2]


def long_sleep(drv, tier):
    """a sequence that pauses for a long time between its commands (a second, a minute: waiting for a fade or an identify
    to end) while other callers are queued: the pause belongs to the transaction, whatever its length"""
    out = []
    for ms in (1000, 2500, 60000) if tier == "quick" else (999, 1000, 1001, 2500, 10000, 60000):
        for bstart in ({"writes": 1}, {"writes": 2}, {"time": 0.2}):
            for plan in ([1] * 30, [-1]):
                out.append({"driver": drv, "release_plan": list(plan), "outcomes": [["val", 11], ["none", 0], ["val", 99]],
                            "callers": [{"name": "A", "mode": "sequence", "start": {"time": 0.0},
                                         "unit": [["dapc", 1], ["sleep", ms], ["cfg", 2], ["sleep", ms], ["q16", 3]]},
                                        {"name": "B", "mode": "send", "unit": [["qdt6", 9] if drv != "sci" else ["q16", 9]], "start": bstart},
                                        {"name": "C", "mode": "sequence", "unit": [["q16", 17], ["dapc", 18]], "start": {"writes": 2}}],
                            "horizon": 600, "tag": "long-sleep"})
    return out


def power_requests(tier):
    """Tridonic: a caller switching the interface's bus power supply while a sequence and a device-type command of other
    callers are under way -- the request is a unit of its own (it takes the transaction lock like a send)"""
    out = []
    starts = [{"time": 0.0}] + [{"writes": w} for w in range(1, 7)] + [{"reports": w} for w in range(1, 9)]
    for st in starts:
        for plan in ([1] * 30, [-1], [0, 1, 0, 1, 1, 0, 1, 1, 1, 1, 1, 1, 1, 1, 1, 1, 1, 1]):
            out.append({"driver": "tridonic", "release_plan": list(plan), "outcomes": [["val", 11], ["none", 0], ["val", 99]],
                        "callers": [{"name": "A", "mode": "sequence", "unit": [["dapc", 1], ["qdt6", 2], ["cfg", 3], ["q16", 4]],
                                     "start": {"time": 0.0}},
                                    {"name": "P", "mode": "power", "unit": [["power", 0], ["power", 1]], "start": st},
                                    {"name": "B", "mode": "send", "unit": [["qdt6", 9], ["q16", 10]], "start": {"writes": 2}}],
                        "tag": "power"})
    return out if tier == "thorough" else out[::2]


def explicit_edt(drv, tier):
    """sequences (and single sends) in which the application sends ENABLE DEVICE TYPE itself, before / between commands
    that need a device type: every such command still goes out with its own prefix directly in front of it"""
    out = []
    units = ([["edt6", 1], ["qdt6", 2], ["cfgdt6", 3], ["dapc", 4], ["qdt6", 5]],
             [["edt6", 1], ["qdt6", 2], ["qdt6", 3]],
             [["qdt6", 1], ["edt6", 2], ["dapc", 3], ["cfgdt6", 4], ["qdt6", 5]],
             [["edt1", 1], ["qdt6", 2], ["edt6", 3], ["qdt1", 4], ["qdt1", 5]])
    for unit in units:
        for mode in ("sequence", "send"):
            for plan in ([1] * 40, [-1]):
                out.append({"driver": drv, "release_plan": list(plan), "outcomes": [["val", 11], ["none", 0], ["val", 99]],
                            "callers": [{"name": "A", "mode": mode, "unit": unit, "start": {"time": 0.0}},
                                        {"name": "B", "mode": "send", "unit": [["qdt6", 9], ["q16", 10]], "start": {"writes": 2}}],
                            "tag": "explicit-edt"})
    return out


def scenarios(tier, seed, drivers_=("tridonic", "hasseb", "luba", "sci")):
    rng = random.Random(seed)
    scs = []
    n = 250 if tier == "quick" else 12000
    for drv in drivers_:
        for k in range(n):
            scs.append(rand_scenario(rng, drv, k))
        sysm = systematic(drv, tier)
        if tier == "quick":
            sysm = sysm[::3]
        scs += sysm
        scs += cancel_queued(drv, tier)
        scs += bad_close(drv, tier)
        scs += explicit_edt(drv, tier)
        scs += long_sleep(drv, tier)
        if drv == "tridonic":
            scs += power_requests(tier)
    return scs


def _run_any(sc):
    if sc.get("sync") == 3:
        from . import c16
        return c16.atx_threads(sc)
    if sc.get("sync") == 2:
        from . import c16
        return c16.daliserver_session(sc)
    if sc.get("sync"):
        from . import c16
        return c16.sync_run(sc)
    return drivers.run_scenario(sc)


def record(scs):
    recs = core.pmap(_run_any, scs, chunksize=16)
    for ix, (sc, r) in enumerate(zip(scs, recs), 1):
        r["id"] = ix
        r["scenario"] = sc
    return recs


def judge(prop, mode, tier, seed, replay, scs=None):
    from . import asynctrace
    out = core.Outcome(prop, tier, seed)
    out.is_replay = replay is not None
    with core.Scratch(prop.lower()) as sc:
        if replay is not None:
            scs = [replay["case"]["scenario"]]
        else:
            if scs is None:
                scs = scenarios(tier, seed)
            # the implementation-shaped model: exhaustive on the spec side, and these runs' event traces must be
            # behaviours of it (they are judged by the property-level spec like every other run)
            asynctrace.model_runs(out, sc, mode, tier)
            scs = scs + asynctrace.scenarios(seed, 32 if tier == "quick" else 400, mode) \
                + asynctrace.serial_scenarios(seed, 32 if tier == "quick" else 400, mode) \
                + asynctrace.hasseb_scenarios(seed, 16 if tier == "quick" else 200, mode)
        recs = record(scs)
        if replay is None:
            asynctrace.conformance(out, recs, sc)
        slim = [{k: v for k, v in r.items() if k not in ("scenario", "writes", "traffic", "status", "events")} for r in recs]
        paths, counts = core.shard_records(slim, sc, prop.lower(), nshards=core.NCPU if len(slim) > 32 else 1)
        rejects, notes, states, trans, wall = core.judge_shards("AsyncJudge", "AsyncJudge.cfg", paths, sc,
                                                                expect_counts=counts, extra_env={"MODE": mode})
        out.states += states
        out.transitions += trans
        out.traces = len(recs)
        out.evaluations = sum(len(r["wire"]) for r in recs)

        def overlapped(r):
            tasks = [w["task"] for w in r["wire"]]
            changes = sum(1 for a, b in zip(tasks, tasks[1:]) if a != b)
            return changes >= 2
        out.distinct_nontrivial = len({repr(r["scenario"]) for r in recs if overlapped(r)})
        out.extra["runs_by_driver"] = {d: sum(1 for r in recs if r["driver"] == d) for d in
                                       ("tridonic", "hasseb", "luba", "sci", "daliserver", "atx")}
        out.extra["loop_iterations"] = sum(r["iterations"] for r in recs)
        byid = {r["id"]: r for r in recs}
        s0 = recs[len(recs) // 2]
        out.samples = [{"scenario": s0["scenario"], "wire": [[w["task"], w["frame"], w["outcome"]] for w in s0["wire"]],
                        "callers": [[c["name"], c["exc"], [x["raw"] for x in c["results"]]] for c in s0["callers"]]}]
        rej = [({"scenario": byid[rj[1]]["scenario"]}, {"clause": rj[2], "at": rj[3], "driver": byid[rj[1]]["driver"]}) for rj in rejects]
        return out, rej, recs


def run(tier, seed, replay=None):
    out, rej, recs = judge("C15", "c15", tier, seed, replay)
    out.rule = ("one run per scenario (driver, 2-4 callers mixing single sends and sequences, start points by time / "
                "writes seen / reports delivered, report release plan per loop iteration, latencies, outcomes); "
                "non-trivial = distinct scenarios whose wire log alternates between callers at least twice")
    out.assumptions = ["asyncio semantics are those of CPython 3.12.1 (the real BaseEventLoop._run_once runs unchanged)",
                       "gateway reports are delivered FIFO; the scenario only decides when",
                       "a hasseb send-twice command is two consecutive writes counted as one wire entry"]
    out.classify(rej, None)
    return out.finish()
