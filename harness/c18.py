"""C18 -- bytes exchanged with each gateway follow that gateway's wire format.

Spec:    spec/WireFormats.tla (packet layouts, checksums, sequence-number rule, receive-side meaning),
         WireModel.tla (checksum / recoverability / sequence automaton theorems), WireJudge.tla
Binding: the async drivers (HID Tridonic, HID hasseb, LUBA, SCI) send commands under the virtual loop against fake
         gateways that record every write; the synchronous / legacy drivers (daliserver, ATX hat, legacy Tridonic USB,
         legacy hasseb, UniPi) are driven through fake socket / serial objects or their construct()/extract();
         TLC compares the recorded bytes with the wire format.
"""
import random
import sys
import types

from . import core
from . import drivers

core.ensure_repo_on_path()


def _stubs():
    for name in ("usb", "usb.core", "usb.util", "hid", "pymodbus", "pymodbus.client", "pymodbus.client.sync", "serial"):
        if name not in sys.modules:
            try:
                __import__(name)
            except Exception:
                m = types.ModuleType(name)
                if name == "pymodbus.client.sync":
                    m.ModbusSerialClient = m.ModbusTcpClient = object
                if name == "serial":
                    m.Serial = object
                    m.PARITY_NONE = m.STOPBITS_ONE = m.EIGHTBITS = 0
                sys.modules[name] = m


KEYS16 = ["dapc", "off", "q16", "yn16", "st16", "cfg", "dtr", "qdt6", "cfgdt6", "qdt1"]
KEYS24 = ["q24", "c24", "n24", "i24"]


def async_records(job):
    """one scenario per driver: a caller sends a list of commands one by one; returns tx records"""
    drv, items = job[0], job[1]
    sc = {"driver": drv, "keep_writes": 1, "first_seq": job[2] if len(job) > 2 else 250,
          "callers": [{"name": "A", "unit": items, "mode": "send", "continue_on": ["UnsupportedFrameTypeError", "ValueError"]}]}
    r = drivers.run_scenario(sc)
    recs = []
    writes = r["writes"]
    # writes belonging to DALI commands: by gateway command log (write index = last write of the command)
    caller = r["callers"][0]
    desc = caller["unit"]
    wire = r["wire"]
    # expand units into wire commands (ENABLE DEVICE TYPE prefixes are commands of their own)
    sent = []
    results = caller["results"]
    for k, d in enumerate(desc):
        if d["bits"] not in (16, 24):
            # a frame length the gateway cannot carry, in the middle of a long run: refused, nothing written, and the
            # run goes on (the sequence numbers after it are judged with the rest)
            refused = k < len(results) and results[k]["k"] == "exc"
            recs.append({"kind": "tx", "drv": drv, "bits": d["bits"], "frame": 1, "twice": 0, "query": 0, "dt": 0,
                         "writes": [], "exc": results[k]["cls"] if refused else "none"})
            continue
        if d["dt"]:
            sent.append({"frame": 0xC100 | d["dt"], "bits": 16, "twice": 0, "query": 0, "dt": 0})
        sent.append(d)
    prev = 0
    handshake = 0
    data_writes = [w for w in writes if w["task"] != "reader" and w["task"] != "Task-1"]
    for k, w in enumerate(wire):
        ws = [x["data"] for x in writes[prev:w["write"]] if x["task"] == "A"]
        prev = w["write"]
        d = sent[k] if k < len(sent) else {"frame": -1, "bits": w["bits"], "twice": 0, "query": 0, "dt": 0}
        recs.append({"kind": "tx", "drv": drv, "bits": d["bits"], "frame": d["frame"], "twice": d["twice"],
                     "query": d["query"], "dt": d.get("dt", 0), "writes": ws, "exc": "none"})
    if caller["exc"] != "none" and len(wire) < len(sent):
        # the send that raised: nothing usable reached the wire for a frame the gateway can carry -> judged by TLC
        d = sent[len(wire)]
        recs.append({"kind": "tx", "drv": drv, "bits": d["bits"], "frame": d["frame"], "twice": d["twice"],
                     "query": d["query"], "dt": d.get("dt", 0), "writes": [], "exc": caller["exc"]})
    seqrec = None
    if drv == "tridonic":
        seqrec = {"kind": "seq", "drv": drv, "sns": [w["seq"] for w in wire]}
    meta = {"exc": caller["exc"], "nwire": len(wire), "nsent": len(sent), "loop": r["info"]["loop_exc"]}
    return recs, seqrec, meta


def unsupported_records():
    """frame lengths a gateway cannot carry must be refused"""
    import asyncio
    from dali import command, frame
    recs = []
    for drv in ("tridonic", "hasseb", "luba", "sci"):
        for bits in ([8, 17, 20, 25, 32] + ([24] if drv == "hasseb" else [])):
            class Odd(command.Command):
                _framesize = 0
            try:
                c = command.Command(frame.ForwardFrame(bits, 1))
            except Exception:
                continue
            sc = {"driver": drv, "keep_writes": 1, "callers": []}
            run = drivers.Run(sc)
            loop = run.loop
            res = {"exc": "none", "n": 0}

            async def main():
                loop.boundary = run.boundary
                await run.setup_and_connect()
                n0 = len(run.gw.writes)
                try:
                    await asyncio.wait_for(run.driver.send(c), timeout=5)
                except BaseException as e:  # noqa
                    res["exc"] = type(e).__name__
                res["w"] = [w["data"] for w in run.gw.writes[n0:]]
            orig = loop.select

            def select(timeout):
                ne = run.next_external()
                if ne is not None:
                    gap = max(0.0, ne - loop.time())
                    if timeout is None or gap < timeout:
                        timeout = gap
                return orig(timeout)
            loop.select = select
            asyncio.set_event_loop(loop)
            try:
                loop.run_until_complete(main())
            except BaseException as e:  # noqa
                res["exc"] = res["exc"] if res["exc"] != "none" else type(e).__name__
            finally:
                asyncio.set_event_loop(None)
                try:
                    loop.close()
                except Exception:
                    pass
            recs.append({"kind": "tx", "drv": drv, "bits": bits, "frame": 1, "twice": 0, "query": 0, "dt": 0,
                         "writes": res.get("w", []), "exc": res["exc"]})
    return recs


def sync_records(tier, seed):
    _stubs()
    rng = random.Random(seed)
    recs = []
    cmds = []
    for k in KEYS16 + KEYS24:
        for n in range(4 if tier == "quick" else 40):
            cmds.append(drivers.make_command(k, rng.randrange(64)))
    # every 16-bit frame for the cheap drivers (as generic commands)
    from dali import command, frame
    all16 = [command.from_frame(frame.ForwardFrame(16, f)) for f in (range(0, 65536, 97) if tier == "quick" else range(65536))]
    # 24-bit frames: every first byte (leading zero digits, special and reserved ranges) with a few tails
    tails = (0x0000, 0xFE30, 0x8001, 0xFFFF) if tier == "quick" else (0x0000, 0xFE30, 0x8001, 0xFFFF, 0x0A0B, 0x1D00, 0x00FF, 0x7F80)
    all24 = [command.from_frame(frame.ForwardFrame(24, (b << 16) | t)) for b in range(256) for t in tails]
    all16 = all16 + all24
    # daliserver through a fake socket
    import dali.driver.daliserver as DS

    class Sock:
        def __init__(self):
            self.sent = []

        def send(self, data):
            self.sent.append(list(data))
            return len(data)

        def recv(self, n):
            return bytes([2, 0, 0, 0])

        def close(self):
            pass
    for c in cmds + all16:
        s = Sock()
        DS.socket.create_connection = lambda target, _s=s: _s
        d = drivers.describe_command(c)
        try:
            DS.DaliServer().send(c)
            exc = "none"
        except Exception as e:  # noqa
            exc = type(e).__name__
        recs.append({"kind": "tx", "drv": "daliserver", "bits": d["bits"], "frame": d["frame"], "twice": d["twice"],
                     "query": d["query"], "dt": 0, "writes": s.sent, "exc": exc})
    for status in range(256):
        for rval in (0, 1, 0x42, 255):
            c = drivers.make_command("q16", 1)
            try:
                r = DS.DaliServer().unpack_response(c, bytes([2, status, rval, 0]))
                got = drivers.describe_result(r)["raw"]
                kind = {"none": "none", "val": "back", "err": "err"}[got[0]]
                item = [kind, 8 if kind != "none" else 0, got[1] if kind != "none" else 0]
            except Exception as e:  # noqa
                item = ["error", 0, status]
            recs.append({"kind": "rx", "drv": "daliserver", "data": [2, status, rval, 0], "got": item})
    # ATX hat: construct()
    import dali.driver.atxled as AT
    hat = AT.DaliHatSerialDriver.__new__(AT.DaliHatSerialDriver)
    for c in cmds + all16:
        d = drivers.describe_command(c)
        try:
            w = [list(hat.construct(c))]
            exc = "none"
        except Exception as e:  # noqa
            w, exc = [], type(e).__name__
        recs.append({"kind": "tx", "drv": "atx", "bits": d["bits"], "frame": d["frame"], "twice": d["twice"],
                     "query": d["query"], "dt": 0, "writes": w, "exc": exc})
    # legacy drivers: construct() / extract()
    import dali.driver.tridonic as LT
    import dali.driver.hasseb as LH
    import dali.driver.unipi as LU
    lt = LT.TridonicDALIUSBDriver()
    lh = LH.HassebDALIUSBDriver.__new__(LH.HassebDALIUSBDriver)
    lh.sn = 0

    class HDev:                      # the HID handle: control packets (firmware version, sniffer on / off) go through it
        def __init__(self):
            self.written = []

        def write(self, data):
            self.written.append(list(data))
            return len(data)

        def read(self, n):
            last = self.written[-1] if self.written else [0] * 10
            return [0xAA, last[1], last[2], 4, 2, 0, 0, 0, 0, 0]
    hdev = HDev()
    lh.device = hdev
    lu = LU.UnipiDALIDriver()
    sns_t, sns_h = [], []
    for ci, c in enumerate(cmds + all16[:800]):
        d = drivers.describe_command(c)
        if ci % 37 == 5:
            # control packets share the sequence counter with the DALI frame packets
            for fn in (lh.readFirmwareVersion, lh.enableSniffing, lh.disableSniffing)[: 1 + ci % 3]:
                n0 = len(hdev.written)
                try:
                    fn()
                except Exception:   # noqa
                    pass
                sns_h += [w_[2] for w_ in hdev.written[n0:]]
        for drv, obj in (("ltridonic", lt), ("lhasseb", lh), ("unipi", lu)):
            try:
                data = obj.construct(c)
                w = [list(data)]
                exc = "none"
                if drv == "ltridonic":
                    sns_t.append(data[1])
                if drv == "lhasseb":
                    sns_h.append(data[2])
            except Exception as e:  # noqa
                w, exc = [], type(e).__name__
            recs.append({"kind": "tx", "drv": drv, "bits": d["bits"], "frame": d["frame"], "twice": d["twice"],
                         "query": d["query"], "dt": 0, "writes": w, "exc": exc})
    recs.append({"kind": "seq", "drv": "ltridonic", "sns": sns_t[:700]})
    recs.append({"kind": "seq", "drv": "lhasseb", "sns": sns_h[:700]})

    def frame_item(fr):
        from dali.frame import ForwardFrame, BackwardFrame
        if isinstance(fr, ForwardFrame):
            return ["fwd", len(fr), fr.as_integer]
        if isinstance(fr, BackwardFrame):
            return ["err", 8, 255] if fr.error else ["back", 8, fr.as_integer]
        if fr is None:
            return ["nothing", 0, 0]
        return ["none", 0, 0]
    for dr in (0x11, 0x12):
        for ty in (0x71, 0x72, 0x73, 0x74):
            for ad, cm in ((0xFF, 0x93), (0x02, 0x00), (0xA1, 0x00)):
                data = bytes([dr, ty, 0, 0, ad, cm, 0xFF, 0xFF, 7] + [0] * 55)
                try:
                    got = frame_item(lt.extract(data))
                except Exception:
                    got = ["exc", 0, 0]
                recs.append({"kind": "rx", "drv": "ltridonic", "data": list(data[:16]), "got": got})
    for st in range(0, 7):
        for ln, val in ((1, 0x42), (0, 0), (1, 0xFF)):
            data = [0xAA, 0x07, 1, st, ln, val, 0, 0, 0, 0]
            try:
                got = frame_item(lh.extract(data))
            except Exception:
                got = ["exc", 0, 0]
            recs.append({"kind": "rx", "drv": "lhasseb", "data": data, "got": got})
    for r0, r1 in ((0x100, 0x42), (0x100, 0xFF), (0x200, 0xFF93), (0x200, 0x0200), (0, 0), (0x300, 5)):
        try:
            got = frame_item(lu.extract((r0, r1)))
        except Exception:
            got = ["exc", 0, 0]
        recs.append({"kind": "rx", "drv": "unipi", "data": [r0, r1], "got": got})
    return recs


def run(tier, seed, replay=None):
    out = core.Outcome("C18", tier, seed)
    out.is_replay = replay is not None
    rng = random.Random(seed)
    with core.Scratch("c18") as sc:
        if replay is None:
            r = core.spec_check("WireModel", "WireModel.cfg", sc, workers=8)
            out.add_spec_run(r, "WireModel")
        jobs = []
        n = 700 if tier == "quick" else 3000
        for drv in ("tridonic", "hasseb", "luba", "sci"):
            keys = KEYS16 + (KEYS24 if drv != "hasseb" else [])
            if drv == "tridonic":
                items = [[rng.choice(keys), rng.randrange(256)] for _ in range(n)]     # > 600 consecutive sends ...
                for pos in (40, 41, 300):                                               # ... with refusals in between
                    items.insert(pos, [rng.choice(["odd8", "odd25"]), rng.randrange(256)])
                jobs.append((drv, items))
                # fresh drivers whose random start of the sequence counter falls on either end of the range it is drawn from
                for fs in ("lo", "hi"):
                    jobs.append((drv, [[rng.choice(keys), rng.randrange(256)] for _ in range(6)], fs))
            else:
                for _ in range(4):
                    jobs.append((drv, [[rng.choice(keys), rng.randrange(256)] for _ in range(n // 8)]))
        res = core.pmap(async_records, jobs, chunksize=1)
        recs = []
        metas = []
        for rs, seqrec, meta in res:
            recs += rs
            if seqrec:
                recs.append(seqrec)
            metas.append(meta)
        bad = [m for m in metas if m["loop"] != "none" or (m["exc"] == "none" and m["nwire"] != m["nsent"])]
        recs += unsupported_records()
        recs += sync_records(tier, seed)
        if replay is not None:
            c = replay["case"]
            recs = [r_ for r_ in recs if all(r_.get(k) == v for k, v in c.items())][:1]
        for ix, r_ in enumerate(recs, 1):
            r_["id"] = ix
        paths, counts = core.shard_records(recs, sc, "c18", nshards=core.NCPU if len(recs) > 32 else 1)
        rejects, notes, states, trans, wall = core.judge_shards("WireJudge", "WireJudge.cfg", paths, sc, expect_counts=counts)
        out.states += states
        out.transitions += trans
        out.traces = len(recs)
        out.evaluations = len(recs)
        out.distinct_nontrivial = len({(r_["drv"], r_.get("bits"), r_.get("frame"), r_.get("twice")) for r_ in recs if r_["kind"] == "tx"})
        out.rule = ("one record per (driver, command) with the bytes written, per receive-side packet, and per run of "
                    "consecutive sequence numbers (> 600 sends); non-trivial = distinct (driver, frame length, frame, "
                    "send-twice) combinations")
        out.extra["records_by_driver"] = {d: sum(1 for r_ in recs if r_["drv"] == d) for d in
                                          ("tridonic", "hasseb", "luba", "sci", "daliserver", "atx", "ltridonic", "lhasseb", "unipi")}
        out.extra["async_runs_with_problems"] = bad
        out.samples = [recs[3], recs[-1]]
        out.assumptions = ["SCI transmit data alignment and LUBA priority classes are pins of the driver's current "
                           "behaviour (no independent protocol document in the sandbox)",
                           "legacy drivers are imported over inert stubs for usb / hid / pymodbus"]
        byid = {r_["id"]: r_ for r_ in recs}
        rej = []
        for rj in rejects:
            rec = byid.get(rj[1], {})
            rej.append(({k: rec[k] for k in ("kind", "drv", "bits", "frame", "twice", "data") if k in rec}, {"clause": rj[2], "at": rj[3]}))
        if bad:
            raise core.MachineryError("async scenario did not complete: %r" % bad[:2])
        out.classify(rej, None)
    return out.finish()
