"""Shared recorder for C09 (memory reads) and C10 (memory writes): runs the real dali.memory sequences against
MemUnitSim, logs one event per yield with a small state projection, judged by TLC (MemSeqJudge.tla)."""
import random

from . import core
from .unitsim import MemUnitSim, drive
from .c11 import value_index, interp, cell_of, BANKS

core.ensure_repo_on_path()

VALUES = {}
SPECMAP = {}


def init():
    VALUES.clear()
    VALUES.update(value_index())
    t = core.spec_tables()
    SPECMAP.clear()
    for row in t["memmap"]:
        SPECMAP.setdefault(row[0], []).append(row)
    return t


def types_of(bank):
    ty = {}
    for row in SPECMAP[bank]:
        for j in range(row[3]):
            ty[row[2] + j] = row[4] if len(row[4]) == 1 else row[4][j]
    return ty


def bank_obj(label):
    import importlib
    for mod, attr, lab in BANKS:
        if lab == label:
            return getattr(importlib.import_module(mod), attr)


def make_unit(u):
    t = core.spec_tables()
    bp = t["bankprops"][u["bank"]]
    return MemUnitSim(u["kind"], u["bank"], bp["number"], u["mem"], types_of(u["bank"]), bp["latch"],
                      unlock=u["unlock"], nobble=bool(u["nobble"]), echoflip=bool(u["echoflip"]), fault=u["fault"],
                      dtr0=u["dtr0"], dtr1=u["dtr1"], wes=bool(u["wes"]))


_CUSTOM = {}


def custom_value(label, locs, signed=False):
    """a MemoryValue declared the way a user of the library would: own bank object (same bank number), locations in the
    given order -- they need not be contiguous or ascending"""
    key = (label, tuple(locs), bool(signed))
    if key not in _CUSTOM:
        from dali.memory.location import MemoryBank, MemoryLocation, MemoryType, NumericValue
        t = core.spec_tables()
        bp = t["bankprops"][label]
        ty = types_of(label)
        tmap = {"R": MemoryType.ROM, "r": MemoryType.RAM_RO, "W": MemoryType.RAM_RW, "n": MemoryType.NVM_RO,
                "N": MemoryType.NVM_RW, "L": MemoryType.NVM_RW_L}
        bank = MemoryBank(bp["number"], 0xFE, has_lock=bool(bp["lock"]), has_latch=bool(bp["latch"]))
        attrs = {"bank": bank, "locations": tuple(MemoryLocation(address=l, type_=tmap[ty.get(l, "R")]) for l in locs)}
        if signed:
            # a signed quantity with the MASK / TMASK patterns of signed types (0x7f..ff, 0x7f..fe)
            attrs.update({"signed": True, "mask_supported": True, "tmask_supported": True})
        cls = type("Custom_%s_%s%s" % (label, "_".join(map(str, locs)), "_s" if signed else ""), (NumericValue,), attrs)
        _CUSTOM[key] = cls
    return _CUSTOM[key]


def addr_of(kind):
    from dali import address
    return address.GearShort(5) if kind == "gear" else address.DeviceShort(5)


def run_case(case):
    """case = {seq, unit, value?, latch?, ticks? {event index: changes}, wdata?, ignore?, how?}"""
    u = case["unit"]
    sim = make_unit(u)
    ticks = {int(k): v for k, v in case.get("ticks", {}).items()}
    events = []
    ncmd = {"n": 0}

    def answer(cmd):
        ln = len(cmd.frame)
        f = cmd.frame.as_integer
        resp = sim.step(ln, f)
        ncmd["n"] += 1
        ev = {"t": "cmd", "len": ln, "f": f, "resp": list(resp), "dtr0": sim.dtr0, "wes": 1 if sim.wes else 0,
              "lock": sim.mem[2], "ch": []}
        out = [ev]
        if ncmd["n"] in ticks:
            sim.tick(ticks[ncmd["n"]])
            out.append({"t": "tick", "len": 0, "f": 0, "resp": ["none", 0], "dtr0": sim.dtr0, "wes": 1 if sim.wes else 0,
                        "lock": sim.mem[2], "ch": ticks[ncmd["n"]]})
        return resp, out

    addr = addr_of(u["kind"])
    if case.get("addr_int"):
        addr = 5
    label = u["bank"]
    cells = []
    rec = {"seq": case["seq"], "unit": u, "value": case.get("value", ""), "latch": case.get("latch", 0),
           "wdata": case.get("wdata", []), "ignore": case.get("ignore", 0), "legal": 1,
           "force": case.get("force", 0), "locs": list(case.get("locs", [])), "lit": case.get("lit", ""),
           "signed": 1 if case.get("signed") else 0, "num": case.get("num", 0)}
    if case["seq"] == "read":
        v = VALUES[(label, case["value"])]
        gen = v.read_raw(addr) if case.get("raw_only") else v.read(addr)
    elif case["seq"] == "read_all" and "late" in case:
        # a bank object of the user's own (same number and layout); part of its values are declared only after the bank
        # has been read once: the second read reports all of them
        from dali.memory.location import MemoryBank
        orig = bank_obj(label)
        nb = MemoryBank(orig.address, orig.LastAddress.locations[0].default, has_lock=orig.has_lock, has_latch=orig.has_latch)
        vals = [mv for mv in orig.values if mv is not orig.LastAddress and mv is not orig.LockByte]
        for mv in vals[:case["late"]]:
            type(mv.__name__, (mv,), {"bank": nb})
        first = make_unit(u)
        drive_multi(nb.read_all(addr, use_latch=bool(case.get("latch", 1))),
                    lambda cmd: (lambda r_: (r_, []))(first.step(len(cmd.frame), cmd.frame.as_integer)), 700)
        for mv in vals[case["late"]:]:
            type(mv.__name__, (mv,), {"bank": nb})
        gen = nb.read_all(addr, use_latch=bool(case.get("latch", 1)))
    elif case["seq"] == "read_all":
        gen = bank_obj(label).read_all(addr, use_latch=bool(case.get("latch", 1)))
    else:
        v = custom_value(label, case["locs"], case.get("signed")) if case.get("locs") else VALUES[(label, case["value"])]
        if case.get("badraw"):
            # something that is no byte string at all where the data goes: refused before anything is sent
            bad = {"int": len(v.locations), "true": True, "one": 1, "none": None, "float": 2.0, "str": "x" * len(v.locations)}[case["badraw"]]
            gen = v.write_raw(addr, bad, allow_short_write=bool(case.get("short")))
            rec["legal"] = 0
            rec["seq"] = "write-bad"
        elif case.get("lit"):
            # the value-level write: a number, or the MASK / TMASK literal (what is stored is for the judge to say)
            gen = v.write(addr, case["num"] if case["lit"] == "num" else case["lit"],
                          ignore_feedback=bool(case.get("ignore", 0)))
        elif case.get("how") == "text":
            gen = v.write(addr, bytes(case["wdata"]).decode("ascii"), ignore_feedback=bool(case.get("ignore", 0)))
            if len(case["wdata"]) < len(v.locations):
                rec["wdata"] = list(case["wdata"]) + [0]
        else:
            gen = v.write_raw(addr, bytes(case["wdata"]), allow_short_write=len(case["wdata"]) < len(v.locations),
                              ignore_feedback=bool(case.get("ignore", 0)), force_unlock=bool(case.get("force", 0)))
    evs, out = drive_multi(gen, answer, 700)
    rec["ev"] = evs
    o = {"exc": out["exc"], "cell": 0, "cells": []}
    if out["exc"] == "none" and case.get("raw_only"):
        rec["raw_read"] = list(out["ret"])
    elif out["exc"] == "none":
        if case["seq"] == "read":
            w = len(v.locations) - (1 if getattr(v, "mask_length_adjust", 0) == -1 else 0)
            c = cell_of(lambda: out["ret"], w)
            from dali.memory.location import StringValue
            if c["k"] == "text" and issubclass(v, StringValue):
                c["k"] = "str"
            o["cellrec"] = c
        elif case["seq"] == "read_all":
            lst = []
            from dali.memory.location import StringValue
            for mv, val in (out["ret"] or {}).items():
                w = len(mv.locations) - (1 if getattr(mv, "mask_length_adjust", 0) == -1 else 0)
                c = cell_of(lambda: val, w)
                if c["k"] == "text" and issubclass(mv, StringValue):
                    c["k"] = "str"
                lst.append([mv.__name__, c])
            o["cellrecs"] = lst
    rec["out"] = o
    rec["final"] = list(sim.mem)
    rec["case"] = case
    return rec


def run_pair(pair):
    """two sequences of the library run interleaved, one yielded command at a time (two buses, two drivers, one
    process): each must behave as if it ran alone.  -> two records"""
    from dali.command import Command
    from .unitsim import to_response
    states = []
    for case in pair:
        u = case["unit"]
        sim = make_unit(u)
        addr = addr_of(u["kind"])
        label = u["bank"]
        rec = {"seq": case["seq"], "unit": u, "value": case.get("value", ""), "latch": case.get("latch", 0),
               "wdata": case.get("wdata", []), "ignore": case.get("ignore", 0), "legal": 1, "force": case.get("force", 0),
               "locs": []}
        if case["seq"] == "read":
            v = VALUES[(label, case["value"])]
            gen = v.read(addr)
        else:
            v = None
            gen = bank_obj(label).read_all(addr, use_latch=bool(case.get("latch", 1)))
        states.append({"case": case, "sim": sim, "gen": gen, "rec": rec, "v": v, "ev": [], "send": None, "done": False,
                       "out": {"exc": "none", "ret": None}})
    while not all(st["done"] for st in states):
        for st in states:
            if st["done"]:
                continue
            try:
                item = st["gen"].send(st["send"])
            except StopIteration as s_:
                st["out"]["ret"] = s_.value
                st["done"] = True
                continue
            except Exception as e:  # noqa: recorded
                st["out"]["exc"] = type(e).__name__
                st["done"] = True
                continue
            if isinstance(item, Command):
                if len(st["ev"]) > 700:
                    st["out"]["exc"] = "nonterminating"
                    st["done"] = True
                    continue
                sim = st["sim"]
                resp = sim.step(len(item.frame), item.frame.as_integer)
                st["ev"].append({"t": "cmd", "len": len(item.frame), "f": item.frame.as_integer, "resp": list(resp),
                                 "dtr0": sim.dtr0, "wes": 1 if sim.wes else 0, "lock": sim.mem[2], "ch": []})
                st["send"] = to_response(item, resp)
            else:
                st["send"] = None
    recs = []
    from dali.memory.location import StringValue
    for st in states:
        rec, out, case, v = st["rec"], st["out"], st["case"], st["v"]
        rec["ev"] = st["ev"]
        o = {"exc": out["exc"], "cell": 0, "cells": []}
        if out["exc"] == "none":
            if case["seq"] == "read":
                w = len(v.locations) - (1 if getattr(v, "mask_length_adjust", 0) == -1 else 0)
                c = cell_of(lambda: out["ret"], w)
                if c["k"] == "text" and issubclass(v, StringValue):
                    c["k"] = "str"
                o["cellrec"] = c
            else:
                lst = []
                for mv, val in (out["ret"] or {}).items():
                    w = len(mv.locations) - (1 if getattr(mv, "mask_length_adjust", 0) == -1 else 0)
                    c = cell_of(lambda: val, w)
                    if c["k"] == "text" and issubclass(mv, StringValue):
                        c["k"] = "str"
                    lst.append([mv.__name__, c])
                o["cellrecs"] = lst
        rec["out"] = o
        rec["final"] = list(st["sim"].mem)
        rec["case"] = {"pair": pair}          # the replay runs the two of them together again
        recs.append(rec)
    return recs


def _run_any(c):
    return run_pair(c["pair"]) if "pair" in c else run_case(c)


def drive_multi(gen, answer, cap):
    """like unitsim.drive but answer() may return several events (command + tick)"""
    from dali.command import Command
    from .unitsim import to_response
    events, send = [], None
    out = {"exc": "none", "ret": None}
    try:
        while True:
            item = gen.send(send)
            if isinstance(item, Command):
                if len(events) >= cap:
                    out["exc"] = "nonterminating"
                    gen.close()
                    break
                resp, evs = answer(item)
                events.extend(evs)
                send = to_response(item, resp)
            else:
                send = None
    except StopIteration as s:
        out["ret"] = s.value
    except Exception as e:  # noqa: recorded
        out["exc"] = type(e).__name__
    return events, out


def default_image(label, rng, style):
    """255-entry image for a bank: -1 where the layout has nothing (unimplemented), data elsewhere."""
    rows = SPECMAP[label]
    last_default = {"0": 0x7F, "0L": 0x0E, "1": 0x77, "202": 0x0F, "203": 0x0F, "204": 0x0F, "205": 0x1C, "206": 0x20,
                    "207": 0x07}[label]
    mem = [-1] * 255
    for row in rows:
        for j in range(row[3]):
            l = row[2] + j
            if style == "zero":
                mem[l] = 0
            elif style == "ff":
                mem[l] = 0xFF
            elif style == "fe":
                mem[l] = 0xFE
            elif style == "walk":
                mem[l] = l
            else:
                mem[l] = rng.getrandbits(8)
    # unmapped locations up to the default last address are implemented too in most units
    for l in range(3, last_default + 1):
        if mem[l] < 0 and style == "rand" and rng.random() < 0.5:
            mem[l] = rng.getrandbits(8)
    mem[0] = last_default
    if label not in ("0", "0L"):
        mem[2] = 0xFF
    else:
        mem[2] = 1 if style != "ff" else 0xFF
    return mem


def unit(kind, label, mem, **kw):
    d = {"kind": kind, "bank": label, "mem": mem, "unlock": 0x55, "nobble": 0, "echoflip": 0, "fault": [0, "none"],
         "dtr0": 0, "dtr1": 0, "wes": 0}
    d.update(kw)
    return d


def judge(prop, tier, seed, replay, cases_fn, rule, model_ops=()):
    out = core.Outcome(prop, tier, seed)
    out.is_replay = replay is not None
    init()
    with core.Scratch(prop.lower()) as sc:
        if replay is None:
            cs = cases_fn(tier, seed)
            if model_ops:
                # the PlusCal model of the sequences: exhaustive on the spec side, every terminal state replayed on
                # the real sequences (identical command stream required); the replayed cases are judged as well
                from . import seqmem
                seqmem.model_run(out, sc, tier)
                extra = seqmem.conformance(out, sc, model_ops)
                cs = cs + [{k: v for k, v in c.items() if k != "raw_only"} for c in extra]
        else:
            cs = [replay["case"]["case"]]
        res = core.pmap(_run_any, cs, chunksize=32)
        recs = []
        for r_ in res:
            recs += r_ if isinstance(r_, list) else [r_]
        cells = core.Interner()
        for ix, rec in enumerate(recs, 1):
            rec["id"] = ix
            o = rec["out"]
            if "cellrec" in o:
                o["cell"] = cells.add(o.pop("cellrec"))
            if "cellrecs" in o:
                o["cells"] = [[n, cells.add(c)] for n, c in o.pop("cellrecs")]
        if not cells.rows:
            cells.add({"k": "none"})
        cellfile = cells.write(sc.file("cells.ndjson"))
        slim = [{k: v for k, v in rec.items() if k not in ("case", "final")} for rec in recs]
        paths, counts = core.shard_records(slim, sc, prop.lower(), nshards=core.NCPU if len(slim) > 32 else 1)
        rejects, notes, states, trans, wall = core.judge_shards("MemSeqJudge", "MemSeqJudge.cfg", paths, sc,
                                                                expect_counts=counts, extra_env={"CELLS": cellfile})
        out.states += states
        out.transitions += trans
        out.traces = len(recs)
        out.evaluations = sum(len(r_["ev"]) for r_ in recs)
        out.distinct_nontrivial = len({repr(r_["case"]) for r_ in recs if len(r_["ev"]) >= 2})
        out.rule = rule
        byid = {r_["id"]: r_ for r_ in recs}
        s0 = recs[len(recs) // 2]
        out.samples = [{"seq": s0["seq"], "value": s0["value"], "unit": {k: v for k, v in s0["unit"].items() if k != "mem"},
                        "mem_head": s0["unit"]["mem"][:12], "ev_head": s0["ev"][:4], "out": s0["out"]}]
        env = [rj for rj in rejects if str(rj[2]).startswith("env-")]
        if env:
            raise core.MachineryError("memory unit simulator disagrees with MemUnit: %r" % env[:3])
        rej = [({"case": byid.get(rj[1], {}).get("case")}, {"clause": rj[2], "at": rj[3]}) for rj in rejects]
        return out, rej
