"""Fake gateways for the asyncio drivers (HID Tridonic, HID hasseb, LUBA, SCI).

Each fake records every write with the name of the asyncio task that issued it, and answers with the reports /
bytes the real gateway would produce (spec/Gw*.tla describe the same behaviour; the reports a fake emits are logged
and checked by TLC, so a wrong fake is a machinery failure, not a verdict).  *When* a report becomes visible to
the driver is decided by the scenario: every report carries a release time on the virtual clock and the scenario
may additionally limit how many reports are released per loop iteration.
"""
import asyncio
import collections
import struct
from functools import reduce
from operator import xor


def _task_name():
    try:
        t = asyncio.current_task()
    except RuntimeError:
        t = None
    return t.get_name() if t is not None else "reader"


class TBytes(bytes):
    """bytes with a trace kind attached (what the chunk means to the send protocol)"""
    tk = None


class Gateway:
    """Common part: pending/arrived report queues, write log, presence."""

    def __init__(self, loop, scenario):
        self.loop = loop
        self.sc = scenario
        self.present = True
        self.fd = None
        self.pending = collections.deque()      # (release_time, report)
        self.arrived = collections.deque()
        self.writes = []                        # dicts: ix, task, data, now
        self.reports = []                       # every report emitted, in order (for the TLC fake check)
        self.ncmd = 0                           # DALI commands seen on the wire
        self.cmdlog = []                        # per DALI command: dict(ix, task, frame, bits, twice, outcome)
        self.per_boundary = scenario.get("per_boundary")     # None = no limit
        self.latency = scenario.get("latency", 0.0)
        self.latencies = list(scenario.get("latencies", []))  # per report, consumed in order
        self.outcomes = list(scenario.get("outcomes", []))
        self.nreports_delivered = 0
        self.triggers = list(scenario.get("triggers", []))   # [kind, n, action]
        self.write_error = False
        # how many reports to release at the k-th boundary at which something is due (-1 = all); after the plan: all
        self.release_plan = list(scenario.get("release_plan", []))
        # which frames are queries / sent twice: from the specification's command tables (the bus only answers queries)
        from . import core
        t = core.spec_tables()
        self.std = {}
        for row in t["gear"]:
            dt = {"102": 0, "202": 1, "205": 4, "206": 5, "207": 6, "209": 8}[row[0]]
            for k in range(16 if "P" in row[3] else 1):
                self.std[(dt, row[2] + k)] = ("T" in row[3], row[4] != "-")
        self.special = {row[2]: ("T" in row[3], row[4] != "-") for row in t["gearspecial"]}
        self.dev24 = {row[2]: ("T" in row[3], row[4] != "-") for row in t["dev"]}
        self.inst24 = {row[2]: ("T" in row[3], row[4] != "-") for row in t["inst"]}
        self.special24 = [(row[2], row[3], row[4], row[5] != "-") for row in t["devspecial"]]
        self.dt = 0

    def classify(self, frame, bits=16):
        """-> (sent twice, query) for a forward frame, tracking ENABLE DEVICE TYPE like a bus unit"""
        if bits == 24:
            ab, ib, ob = frame >> 16, (frame >> 8) & 0xFF, frame & 0xFF
            if not ab & 1:
                return False, False
            a7 = ab >> 1
            if a7 < 96 or a7 >= 126:
                return (self.dev24 if ib == 0xFE else self.inst24).get(ob, (False, False))
            for sab, sib, fl, q in self.special24:
                if sab == ab and ("2" in fl or sib == ib):
                    return "T" in fl, q
            return False, False
        if bits != 16:
            return False, False
        hb, lb = frame >> 8, frame & 0xFF
        a7 = hb >> 1
        if a7 < 80 or a7 >= 126:
            if not hb & 1:
                return False, False
            return self.std.get((self.dt if lb >= 224 else 0, lb), (False, False))
        return self.special.get(hb, (False, False))

    def answer_for(self, k, frame, bits):
        """outcome on the bus for the k-th command: non-queries are never answered"""
        twice, query = self.classify(frame, bits)
        self.dt = (frame & 0xFF) if (bits == 16 and (frame >> 8) == 0xC1) else 0
        return self.outcome_for(k) if query else ("none", 0)

    # -- scenario hooks -----------------------------------------------------------
    def outcome_for(self, k):
        if self.outcomes:
            return tuple(self.outcomes[k % len(self.outcomes)])
        return ("val", (17 * k + 3) % 254)

    def emit(self, report, tk=None):
        """tk: kind of the item for event traces (conf / back / err; None = not part of the send protocol)"""
        lat = self.latencies.pop(0) if self.latencies else self.latency
        self.reports.append([round(self.loop.time() + lat, 6), list(report)])
        chunk = TBytes(report)
        chunk.tk = tk
        self.pending.append((self.loop.time() + lat, chunk))

    def fire(self, kind, n):
        for t in list(self.triggers):
            if t[0] == kind and t[1] == n:
                self.triggers.remove(t)
                self.apply(t[2])

    def apply(self, action):
        if getattr(self, "elog", None) and action in ("lose", "lose_keep") and self.present:
            self.elog({"ev": "lose"})
        if getattr(self, "elog", None) and action == "return" and not self.present:
            self.elog({"ev": "return"})
        if action == "lose":
            self.present = False
            self.pending.clear()
        elif action == "lose_keep":            # device vanishes but already produced reports are still readable first
            self.present = False
        elif action == "return":
            if not self.present and self.sc.get("rename_on_return"):
                self.node = getattr(self, "node", 0) + 1          # re-enumerated: same device, new node name
            self.present = True
        elif action == "write_error":
            self.write_error = True
        elif action == "write_ok":
            self.write_error = False

    # -- loop side ------------------------------------------------------------------
    def release(self, now):
        n = 0
        limit = self.per_boundary
        if self.pending and self.pending[0][0] <= now + 1e-12 and self.release_plan:
            k = self.release_plan.pop(0)
            limit = None if k < 0 else k
        while self.pending and self.pending[0][0] <= now + 1e-12:
            if limit is not None and n >= limit:
                break
            self.arrived.append(self.pending.popleft()[1])
            n += 1

    def readable(self):
        if self.fd is None:
            return False
        return bool(self.arrived) or not self.present

    def next_release(self):
        return self.pending[0][0] if self.pending else None

    def log_write(self, data):
        self.writes.append({"ix": len(self.writes) + 1, "task": _task_name(), "data": list(data),
                            "now": round(self.loop.time(), 6)})
        self.fire("after_write", len(self.writes))


# ---------------------------------------------------------------------------------------------
# HID gateways behind a replacement for the `os` module used by dali.driver.hid
# ---------------------------------------------------------------------------------------------

class FakeGlob:
    """stands in for the glob module in dali.driver.hid: the pattern matches the node the device currently has"""

    def __init__(self, gw):
        self.gw = gw

    def glob(self, pattern):
        gw = self.gw
        if not gw.present:
            # an attempt that ends here never reaches open(): it is logged as a failed attempt all the same
            gw.opens = getattr(gw, "opens", 0) + 1
            if not hasattr(gw, "openlog"):
                gw.openlog = []
            gw.openlog.append([round(gw.loop.time(), 6), 0])
            if getattr(gw, "elog", None) and gw.opens > 1:
                gw.elog({"ev": "open_failed"})
            return []
        import fnmatch
        node = "/dev/fake-dali%d" % getattr(gw, "node", 0)
        if fnmatch.fnmatchcase(node, pattern):
            return [node]
        # the device is there, but not under a name the given pattern matches: a failed attempt
        gw.opens = getattr(gw, "opens", 0) + 1
        if not hasattr(gw, "openlog"):
            gw.openlog = []
        gw.openlog.append([round(gw.loop.time(), 6), 0])
        return []


class FakeHidOS:
    O_RDWR = 2
    O_NONBLOCK = 2048

    def __init__(self, gw):
        self.gw = gw
        self._next_fd = 700

    def open(self, path, flags):
        gw = self.gw
        gw.opens = getattr(gw, "opens", 0) + 1
        gw.fire("on_open", gw.opens)
        if not hasattr(gw, "openlog"):
            gw.openlog = []
        gw.openlog.append([round(gw.loop.time(), 6), 1 if gw.present else 0])
        if getattr(gw, "elog", None) and gw.opens > 1:
            gw.elog({"ev": "open_ok" if gw.present else "open_failed"})
        if not gw.present or (gw.sc.get("glob") and path != "/dev/fake-dali%d" % getattr(gw, "node", 0)):
            raise OSError(19, "No such device")
        self._next_fd += 1
        gw.fd = self._next_fd
        gw.arrived.clear()
        gw.pending.clear()
        gw.inits_since_open = []
        gw.on_open()
        return gw.fd

    def close(self, fd):
        if self.gw.fd == fd:
            self.gw.fd = None

    def read(self, fd, n):
        gw = self.gw
        if gw.arrived:
            gw.nreports_delivered += 1
            data = gw.arrived.popleft()
            if getattr(gw, "elog", None) and isinstance(gw, GwHasseb):
                if data[0] != 0:
                    gw.elog({"ev": "deliver"})
            elif getattr(gw, "elog", None) and data[0] in (0x12, 0x01):
                gw.elog({"ev": "deliver" if data[0] == 0x12 else "deliver_info"})
            gw.fire("after_report", gw.nreports_delivered)
            return data
        if not gw.present:
            if getattr(gw, "elog", None):
                gw.elog({"ev": "eof"})
            if gw.sc.get("loss_mode", "eof") == "eof":
                return b""
            raise OSError(5, "Input/output error")
        raise BlockingIOError()

    def write(self, fd, data):
        gw = self.gw
        if not gw.present or gw.write_error or gw.fd != fd:
            gw.write_error = False          # a write error is a one-off glitch; a vanished device stays absent
            if getattr(gw, "elog", None) and data[0] == 0x12:
                gw.elog({"ev": "write_failed", "c": _task_name()})
            gw.writes.append({"ix": len(gw.writes) + 1, "task": _task_name(), "data": list(data),
                              "now": round(gw.loop.time(), 6), "failed": 1})
            gw.fire("after_write", len(gw.writes))
            raise OSError(19, "No such device")
        if getattr(gw, "elog", None) and data[0] == 0x12 and not isinstance(gw, GwHasseb):
            k = "edt" if (data[3] == 3 and data[6] == 0xC1) else "cmd"
            gw.elog({"ev": "write", "c": _task_name(), "kind": k})
        elif getattr(gw, "elog", None) and data[0] == 0x40 and not isinstance(gw, GwHasseb):
            gw.elog({"ev": "write", "c": _task_name(), "kind": "cmd"})       # power-supply request
        gw.log_write(data)
        gw.on_write(bytes(data))
        return len(data)


class GwTridonic(Gateway):
    MODE_INFO, MODE_OBSERVE, MODE_RESPONSE = 0x01, 0x11, 0x12
    tmpl = struct.Struct(">BB4sHB55x")

    def on_open(self):
        pass

    def report(self, mode, rtype, frame4, seq, interval=0):
        self.emit(self.tmpl.pack(mode, rtype, bytes(frame4), interval, seq))

    def on_write(self, data):
        cmd = data[0]
        if cmd == 0x01:                                   # INIT
            if not hasattr(self, "inits_since_open"):
                self.inits_since_open = []
            self.inits_since_open.append(data[1])
            if data[1] == 0x00:
                self.report(self.MODE_INFO, 0, [0, 4, 2, 0], 0)          # firmware 4.2  (data[3], data[4])
            elif data[1] == 0x02:
                self.report(self.MODE_INFO, 0x12, [0x34, 0x56, 0x78, 0], 0)   # serial in data[1:5]
            return
        if cmd == 0x40:
            # POWER SUPPLY on / off: a request to the interface, no report; part of the wire like any frame (8 "bits": it
            # can be taken neither for a 16-bit command nor for a device-type prefix)
            self.cmdlog.append({"ix": len(self.cmdlog) + 1, "task": self.writes[-1]["task"], "frame": 0x4000 + data[1], "bits": 8,
                                "twice": 0, "outcome": ["none", 0], "seq": 0, "write": len(self.writes)})
            return
        if cmd != 0x12:
            return
        seq, ctrl, mode = data[1], data[2], data[3]
        frame4 = data[4:8]
        bits = {3: 16, 6: 24, 2: 8}.get(mode, 0)
        rtype = {3: 0x73, 6: 0x76, 2: 0x72}.get(mode, 0x77)
        twice = bool(ctrl & 0x20)
        k = self.ncmd
        self.ncmd += 1
        outcome = self.answer_for(k, int.from_bytes(frame4, "big"), bits)
        self.cmdlog.append({"ix": k + 1, "task": self.writes[-1]["task"], "frame": int.from_bytes(frame4, "big"),
                            "bits": bits, "twice": 1 if twice else 0, "outcome": list(outcome), "seq": seq,
                            "write": len(self.writes)})
        for _ in range(2 if twice else 1):
            self.report(self.MODE_RESPONSE, rtype, frame4, seq)
        if outcome[0] == "none":
            self.report(self.MODE_RESPONSE, 0x71, [0, 0, 0, 0], seq)
        elif outcome[0] == "val":
            self.report(self.MODE_RESPONSE, 0x72, [0, 0, 0, outcome[1]], seq)
        else:
            self.report(self.MODE_RESPONSE, 0x77, [0, 0, 0, 3], seq)

    def observe(self, kind, value=0, bits=16):
        """traffic of another master, reported by the gateway: kind fwd|back|err|none; a leading "q" stands for the
        firmware quirk documented in the driver: foreign traffic reported in response mode (as if the gateway had sent it
        itself) with a sequence number that is not outstanding"""
        mode = self.MODE_OBSERVE
        if kind.startswith("q"):
            mode, kind = self.MODE_RESPONSE, kind[1:]
        if kind == "fwd":
            self.report(mode, 0x73 if bits == 16 else 0x76, list(value.to_bytes(4, "big")), 0)
        elif kind == "back":
            self.report(mode, 0x72, [0, 0, 0, value], 0)
        elif kind == "err":
            self.report(mode, 0x77, [0, 0, 0, 3], 0)
        else:
            self.report(mode, 0x71, [0, 0, 0, 0], 0)


class GwHasseb(Gateway):
    """Two-byte writes; a report [status, value] only for commands that are queries.  Whether a frame is a query
    and whether it is sent twice is looked up in the specification's command tables (the real device has such a
    table built in), tracking ENABLE DEVICE TYPE like a bus unit would."""

    def __init__(self, loop, scenario):
        super().__init__(loop, scenario)
        self.half = None

    def on_open(self):
        self.half = None
        self.dt = 0

    def on_write(self, data):
        frame = int.from_bytes(data[:2], "big")
        twice, query = self.classify(frame)
        if twice and self.half != frame:
            self.half = frame
            return
        self.half = None
        k = self.ncmd
        self.ncmd += 1
        outcome = self.answer_for(k, frame, 16)
        self.cmdlog.append({"ix": k + 1, "task": self.writes[-1]["task"], "frame": frame, "bits": 16,
                            "twice": 1 if twice else 0, "outcome": list(outcome), "seq": 0, "write": len(self.writes)})
        if getattr(self, "elog", None):
            self.elog({"ev": "write", "c": self.writes[-1]["task"], "kind": "edt" if frame >> 8 == 0xC1 else "cmd",
                       "outcome": outcome[0], "value": outcome[1]})
        if query:
            if outcome[0] == "none":
                self.emit([1, 0])
            elif outcome[0] == "val":
                self.emit([2, outcome[1]])
            else:
                self.emit([3, 0xFF])

    def idle_report(self):
        self.emit([0, 0])

    def observe(self, kind, value=0, bits=16):
        """a late answer of an earlier command / an idle report (the device cannot see other masters)"""
        if kind == "back":
            self.emit([2, value])
        elif kind == "err":
            self.emit([3, 0xFF])
        else:
            self.emit([0, 0])


# ---------------------------------------------------------------------------------------------
# serial gateways behind a fake transport
# ---------------------------------------------------------------------------------------------

class FakeTransport:
    def __init__(self, gw):
        self.gw = gw
        self.loop = gw.loop

    def write(self, data):
        gw = self.gw
        gw.log_write(bytes(data))
        if gw.present and not gw.write_error:
            gw.on_write(bytes(data))

    def close(self):
        pass


class SerialGateway(Gateway):
    FD = 900

    def attach(self, protocol):
        """make the loop deliver arrived chunks to protocol.data_received"""
        self.protocol = protocol
        self.fd = self.FD
        self.loop.add_reader(self.fd, self._deliver)

    def _deliver(self):
        """scenario 'coalesce': 0 one chunk per reader callback; 1 everything that has arrived in one data_received()
        call (bytes of several frames read together); 2 everything that has arrived, one call per frame, back to back"""
        mode = self.sc.get("coalesce", 0)
        chunks = []
        while self.arrived:
            self.nreports_delivered += 1
            chunk = self.arrived.popleft()
            if getattr(self, "elog", None) and getattr(chunk, "tk", None):
                self.elog({"ev": "deliver", "kind": chunk.tk})
            chunks.append(chunk)
            self.fire("after_report", self.nreports_delivered)
            if mode == 0:
                break
        if mode == 1 and chunks:
            chunks = [b"".join(bytes(c) for c in chunks)]
        for chunk in chunks:
            self.protocol.data_received(chunk)

    def readable(self):
        return self.fd is not None and bool(self.arrived)

    def log_dali_write(self, fb, nbits, outcome, silent):
        if getattr(self, "elog", None):
            f = int.from_bytes(bytes(fb), "big")
            self.elog({"ev": "write", "c": self.writes[-1]["task"], "kind": "edt" if (nbits == 16 and f >> 8 == 0xC1) else "cmd",
                       "outcome": outcome[0], "value": outcome[1], "silent": 1 if silent else 0})


def luba_frame(cmd, payload):
    body = [cmd, len(payload)] + list(payload)
    return [0x59] + body + [reduce(xor, body)]


class GwLuba(SerialGateway):
    def on_write(self, data):
        if len(data) < 4 or data[0] != 0x59:
            return
        cmd = data[1]
        if cmd == 0x20:                                  # QUERY DEVICE INFO
            info = list((4260000000123).to_bytes(6, "big")) + list((77).to_bytes(8, "big")) + [1, 2] + \
                list((24166096).to_bytes(4, "big"))
            self.emit(luba_frame(0x21, info))
        elif cmd == 0x2A:                                # READ/WRITE SETTINGS: echo what was set
            self.emit(luba_frame(0x2B, [data[3], data[4], data[5]]))
        elif cmd == 0x32:                                # ADD DALI FRAME TO TX
            nbits, mode = data[4], data[5]
            fb = list(data[6:6 + nbits // 8])
            twice = bool(mode & 0x80)
            k = self.ncmd
            self.ncmd += 1
            outcome = self.answer_for(k, int.from_bytes(bytes(fb), "big"), nbits)
            if (self.sc.get("silent_from") and k + 1 >= self.sc["silent_from"]) or self.sc.get("late_confirm") == k + 1:
                outcome = ("none", 0)          # a gateway that has died (or is too late) reports no answer either
            tx_id = (k + 1) % 256
            self.cmdlog.append({"ix": k + 1, "task": self.writes[-1]["task"], "frame": int.from_bytes(bytes(fb), "big"),
                                "bits": nbits, "twice": 1 if twice else 0, "outcome": list(outcome), "seq": tx_id,
                                "write": len(self.writes)})
            dead = self.sc.get("silent_from") and k + 1 >= self.sc["silent_from"]
            self.log_dali_write(fb, nbits, outcome, self.sc.get("silent_confirm") == k + 1 or dead)
            if dead:
                # the gateway dies for good, possibly in the middle of a report
                if k + 1 == self.sc["silent_from"] and self.sc.get("truncate_confirm"):
                    self.emit((luba_frame(0x33, [tx_id, 0]) + luba_frame(0x31, [0, 0, 0, 0x00 | nbits, tx_id] + fb))
                              [:self.sc["truncate_confirm"]])
                return
            if self.sc.get("silent_confirm") == k + 1:
                return
            if self.sc.get("late_confirm") == k + 1:
                # the confirmation comes, but only after the driver has given up waiting for it
                keep, self.latency = self.latency, self.sc.get("late_by", 1.3)
                self.emit(luba_frame(0x33, [tx_id, 0]))
                self.emit(luba_frame(0x31, [0, 0, 0, 0x00 | nbits, tx_id] + fb), "conf")
                self.latency = keep
                return
            self.emit(luba_frame(0x33, [tx_id, 0]))
            for _ in range(2 if twice else 1):
                self.emit(luba_frame(0x31, [0, 0, 0, 0x00 | nbits, tx_id] + fb), "conf")   # event type 0: frame sent
            if outcome[0] == "val":
                self.emit(luba_frame(0x31, [0, 0, 0, 0x80 | 8, outcome[1]]), "back")       # event type 2: 8-bit frame received
            elif outcome[0] == "err":
                self.emit(luba_frame(0x31, [0, 0, 0, 0x80 | 63, 0]), "err")                # framing error

    def observe(self, kind, value=0, bits=16):
        if kind == "fwd":
            self.emit(luba_frame(0x31, [0, 0, 0, 0x80 | bits] + list(value.to_bytes(bits // 8, "big"))))
        elif kind == "back":
            self.emit(luba_frame(0x31, [0, 0, 0, 0x80 | 8, value]))
        elif kind == "err":
            self.emit(luba_frame(0x31, [0, 0, 0, 0x80 | 63, 0]))


def sci_block(status, d):
    b = [status] + list(d)
    return b + [reduce(xor, b)]


class GwSci(SerialGateway):
    def on_write(self, data):
        if len(data) != 5:
            return
        control = data[0]
        mode = control & 0x0F
        if control & 0x40:                               # identify
            self.emit(sci_block(0x10, [0, 0, 0]))
            return
        nbytes = {2: 1, 3: 2, 8: 3}.get(mode, 0)
        fb = list(data[1:1 + nbytes])
        twice = bool(control & 0x10)
        k = self.ncmd
        self.ncmd += 1
        outcome = self.answer_for(k, int.from_bytes(bytes(fb), "big"), 8 * nbytes)
        if (self.sc.get("silent_from") and k + 1 >= self.sc["silent_from"]) or self.sc.get("late_confirm") == k + 1:
            outcome = ("none", 0)
        self.cmdlog.append({"ix": k + 1, "task": self.writes[-1]["task"], "frame": int.from_bytes(bytes(fb), "big"),
                            "bits": 8 * nbytes, "twice": 1 if twice else 0, "outcome": list(outcome), "seq": 0,
                            "write": len(self.writes)})
        dead = self.sc.get("silent_from") and k + 1 >= self.sc["silent_from"]
        self.log_dali_write(fb, 8 * nbytes, outcome, self.sc.get("silent_confirm") == k + 1 or dead)
        if dead:
            if k + 1 == self.sc["silent_from"] and self.sc.get("truncate_confirm"):
                self.emit(sci_block(0x10, [0, 0, 0])[:min(4, self.sc["truncate_confirm"])])
            return
        if self.sc.get("silent_confirm") == k + 1:
            return
        if self.sc.get("late_confirm") == k + 1:
            keep, self.latency = self.latency, self.sc.get("late_by", 0.16)
            self.emit(sci_block(0x10, [0, 0, 0]), "conf")
            self.latency = keep
            return
        self.emit(sci_block(0x10, [0, 0, 0]), "conf")    # status OK: confirmation
        if control & 0x20:                               # echo of the transmitted frame
            d = [0, 0, 0]
            d[3 - nbytes:] = fb
            self.emit(sci_block(0x10 | mode, d))
        if outcome[0] == "val":
            self.emit(sci_block(0x12, [0, 0, outcome[1]]), "back")
        elif outcome[0] == "err":
            self.emit(sci_block(0x17, [0, 0, 3]), "err")

    def observe(self, kind, value=0, bits=16):
        if kind == "fwd":
            d = [0, 0, 0]
            d[3 - bits // 8:] = list(value.to_bytes(bits // 8, "big"))
            self.emit(sci_block(0x13 if bits == 16 else 0x18, d))
        elif kind == "back":
            self.emit(sci_block(0x12, [0, 0, value]))
