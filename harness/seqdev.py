"""SeqDevice (PlusCal transcription of the control-device sequences against Dev103): exhaustive TLC run of the model
instance and spec -> code replay of every exported terminal state on the real sequences (identical command stream,
outcome and result required)."""
from . import core
from . import c13

FTYPE = {8: "pushbutton", 16: "W16", 24: "F24"}


def model_run(out, sc):
    r = core.run_tlc("MC_SeqDevice", "SeqDevice.cfg", sc, workers=4, timeout=1800)
    if not r.ok:
        raise core.MachineryError("SeqDevice model check failed:\n" + r.out[-4000:])
    out.add_spec_run(r, "SeqDevice exhaustive (InputOK, SetFilterOK, QueryFilterOK, SetSchemeOK, DiscoverOK, Bounded)")


def to_case(s):
    b = s["bus"]
    bus = {"dev": [{"short": d["short"], "status": d["status"],
                    "inst": [{"enabled": 1 if x["enabled"] else 0, "type": x["type"], "scheme": x["scheme"],
                              "filter": list(x["filter"]), "width": x["width"], "res": x["res"], "value": list(x["value"])}
                             for x in d["inst"]]} for d in b["dev"]],
           "dtr0": b["dtr0"], "dtr1": b["dtr1"], "dtr2": b["dtr2"], "fault": [b["fault"]["at"], b["fault"]["kind"]]}
    op = s["op"]
    case = {"seq": op, "bus": bus, "target": list(s["target"])}
    if op == "input":
        case["resolution"] = None if s["resolution"] < 0 else s["resolution"]
    elif op in ("setfilter", "queryfilter"):
        case["ftype"] = FTYPE[s["fwidth"]]
        case["req"] = list(s["req"])
    elif op == "setscheme":
        case["req"] = [s["req"][0]]
    else:
        case["addresses"] = list(s["addresses"])
        case["scan"] = list(s["addresses"])
    return case


def _strip(bits):
    bits = list(bits)
    while bits and bits[0] == 0:
        bits.pop(0)
    return bits


def replay_one(item):
    s, exc, log, ret, mp = item[1], item[2], list(item[3]), item[4], item[5]
    case = to_case(s)
    rec = c13.run_case(case)
    frames = [e["f"] for e in rec["ev"]]
    diffs = []
    if frames != log:
        k = next((i for i, (a, b) in enumerate(zip(frames, log)) if a != b), min(len(frames), len(log)))
        diffs.append("command-stream differs at %d (code %s, model %s; lengths %d/%d)" % (
            k + 1, frames[k:k + 1], log[k:k + 1], len(frames), len(log)))
    if rec["out"]["exc"] != exc:
        diffs.append("outcome: code %s, model %s" % (rec["out"]["exc"], exc))
    got = rec["out"]["ret"]
    op = s["op"]
    if exc == "none":
        if op == "input":
            if got["k"] != "int" or _strip(got["bits"]) != _strip(ret[0]):
                diffs.append("input value: code %s, model %s" % (got, list(ret[0])))
        elif op in ("setfilter", "queryfilter"):
            want = list(ret)
            if (want == [] and got["k"] != "none") or (want != [] and (got["k"] != "int" or got["bytes"] != want)):
                diffs.append("filter result: code %s, model %s" % (got, want))
        elif op == "setscheme":
            if got["k"] != "resp" or list(got["raw"])[:1] != list(ret)[:1] or (ret[0] == "val" and got["raw"][1] != ret[1]):
                diffs.append("scheme answer: code %s, model %s" % (got, list(ret)))
        else:
            if sorted(map(list, got["map"])) != sorted(list(x) for x in mp):
                diffs.append("instance map: code %s, model %s" % (got["map"], sorted(list(x) for x in mp)))
    return {"case": case, "op": op, "diffs": diffs, "ncmd": len(frames)}


def conformance(out, sc):
    r = core.run_tlc("MC_SeqDevice", "SeqDevice_export.cfg", sc, workers=4, timeout=1800, xmx="4g")
    if not r.ok:
        raise core.MachineryError("SeqDevice export failed:\n" + r.out[-3000:])
    scen = core.extract_tagged(r.out, "SCEN")
    if len(scen) < 300:
        raise core.MachineryError("SeqDevice export produced only %d terminal states" % len(scen))
    out.add_spec_run(r, "SeqDevice terminal states exported")
    res = core.pmap(replay_one, scen, chunksize=16)
    drift = [x for x in res if x["diffs"]]
    out.extra["model_conformance"] = {
        "model": "SeqDevice.tla (PlusCal) x Dev103.tla", "direction": "spec -> code",
        "terminal_states_replayed": len(scen), "identical": len(scen) - len(drift),
        "commands_compared": sum(x["ncmd"] for x in res),
        "by_sequence": {k: sum(1 for x in res if x["op"] == k) for k in ("input", "setfilter", "queryfilter", "setscheme", "discover")},
        "drift": [{"case": {k: v for k, v in x["case"].items() if k != "bus"}, "fault": x["case"]["bus"]["fault"],
                   "diffs": x["diffs"]} for x in drift[:5]]}
    for x in drift[:5]:
        print("# DRIFT (not a verdict): the real %s sequence differs from SeqDevice.tla: %s" % (x["op"], "; ".join(x["diffs"])))
    return [x["case"] for x in res]
