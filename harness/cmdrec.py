"""Recording helpers shared by C01, C02, C03: class-name table, decode cells, parameter lists."""
from . import core

NAMES = {}
PVALS = {}


def init_names():
    """Assign name indices before forking so that every worker agrees."""
    Command = core.import_all_commands()
    NAMES.clear()
    NAMES["Command"] = 1
    for c in Command._commands:
        q = core.qname(c)
        if q not in NAMES:
            NAMES[q] = len(NAMES) + 1
    return Command


def name_of(obj):
    cls = type(obj)
    if cls.__module__ in core.PART_OF_MODULE:
        q = core.qname(cls)
    else:
        q = cls.__name__
    return NAMES.get(q, 0)


def names_list():
    return [q for q, _ in sorted(NAMES.items(), key=lambda kv: kv[1])]


def pvals(name, values=None):
    if name not in PVALS:
        PVALS[name] = (len(PVALS) + 1, list(values))
    return PVALS[name]


def pvals_file(sc):
    p = sc.file("pvals.ndjson")
    core.write_ndjson(p, [v for _, v in sorted(PVALS.values())] or [[0]])
    return p


def dec_cell(length, value, dt=0, m=None, keep=None, bare=False):
    """Decode one frame with the real library; -1 = exception, else nameIx*16 + flags.  keep: list that receives
    (decoded object, input frame object) so that the same cell can be computed again later (obj_cell).  bare: the
    optional arguments are left out (device type 0, no map -- the documented defaults)."""
    from dali import command, frame
    try:
        f = frame.ForwardFrame(length, value)
        r = command.from_frame(f) if bare else command.from_frame(f, devicetype=dt, dev_inst_map=m)
    except Exception:
        return -1
    if keep is not None:
        keep.append((r, f))
    return obj_cell(r, f, length, value)


def scribble(length, value, dt=0, m=None):
    """Decode the frame once more and change the public numbers of the address objects hanging off THAT result -- what a
    caller does with an object it was handed is its own business and must not reach any other decode."""
    from dali import command, frame
    try:
        r = command.from_frame(frame.ForwardFrame(length, value), devicetype=dt, dev_inst_map=m)
    except Exception:
        return
    for attr in ("destination", "short_address", "instance"):
        sub = getattr(r, attr, None)
        for a in ("address", "group"):
            if sub is not None and isinstance(getattr(sub, a, None), int) and not isinstance(getattr(sub, a), bool):
                try:
                    setattr(sub, a, (getattr(sub, a) + 4) % 16)
                except Exception:
                    pass


def obj_cell(r, f, length, value):
    """the cell of an already decoded object: what it says about itself NOW"""
    from dali import command
    fl = 0
    try:
        iv = value if isinstance(value, int) else int.from_bytes(bytes(value), "big")
        if r.frame.as_integer == iv and f.as_integer == iv:
            fl |= 1
        if len(r.frame) == length and len(f) == length:
            fl |= 2
    except Exception:
        pass
    try:
        s = str(r)
        if isinstance(s, str):
            fl |= 4
    except Exception:
        pass
    if isinstance(r, command.Command):
        fl |= 8
    return name_of(r) * 16 + fl
