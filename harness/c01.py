"""C01 -- every forward frame decodes, and the decoded command re-encodes to it.

Spec:    spec/CmdCodec.tla (names of the frames the standard defines), CmdJudge.tla (cell clauses)
Binding: complete decode tables of the real dali.command.from_frame (16-bit x device types, 24-bit,
         event frames under maps, other lengths) + a purity history, all judged by TLC.
"""
import random

from . import core, cmdrec
from .c12 import get_map


def _dec16(job):
    dt, hb = job
    return [cmdrec.dec_cell(16, (hb << 8) | lb, dt) for lb in range(256)]


def _dec24(job):
    hi, mapid, pvname = job
    m = get_map(mapid)
    return [cmdrec.dec_cell(24, (hi << 8) | ob, 0, m) for ob in cmdrec.PVALS[pvname][1]]


def _decx(job):
    ln, seed = job
    return [cmdrec.dec_cell(ln, v) for v in xvalues(ln, seed)]


def xvalues(ln, seed):
    rng = random.Random(seed * 131 + ln)
    top = (1 << ln) - 1
    vals = {0, top, top // 3, top - top // 3, 1, 1 << (ln - 1)}
    for k in range(ln):
        vals.add(1 << k)
        vals.add(top ^ (1 << k))
    for b in range(256):
        vals.add((b << max(0, ln - 8)) & top)
        vals.add(b & top)
    vals = sorted(vals)[:256] if len(vals) > 256 else sorted(vals)
    return vals + [rng.getrandbits(ln) for _ in range(256)]


def registry_snapshot():
    from dali.command import Command
    from dali.gear import general as gg
    from dali.device import general as dg, pushbutton
    snap = []
    for label, obj in (("gear._opcodes", getattr(gg._StandardCommand, "_opcodes", None)),
                       ("gearspecial._opcodes", getattr(gg._SpecialCommand, "_opcodes", None)),
                       ("dev._opcodes", getattr(dg._StandardDeviceCommand, "_opcodes", None)),
                       ("inst._opcodes", getattr(dg._StandardInstanceCommand, "_opcodes", None)),
                       ("event._instance_types", getattr(dg._Event, "_instance_types", None)),
                       ("pushbutton._event_classes", getattr(pushbutton._PushbuttonEvent, "_event_classes", None)),
                       ("Command._framesizes", getattr(Command, "_framesizes", None))):
        if isinstance(obj, dict):
            items = sorted("%s=%s" % (k, getattr(v, "__name__", len(v) if hasattr(v, "__len__") else v))
                           for k, v in obj.items())
            snap.append(label + ":" + ",".join(items))
    snap.append("commands:%d" % len(Command._commands))
    return snap


def purity_history(seed, n):
    """Random interleaving of decodes (repeated inputs at different positions) and constructor calls."""
    from dali.command import Command
    from dali import address
    rng = random.Random(seed * 977 + 5)
    before = registry_snapshot()
    pool16 = [(rng.getrandbits(16), rng.choice([0, 0, 1, 4, 5, 6, 8, 2, 200])) for _ in range(n // 8)]
    # ENABLE DEVICE TYPE frames and application-extended opcodes, which the former must not influence
    pool16 += [(0xC100 | k, 0) for k in (1, 4, 5, 6, 8, 8, 6)] + [((rng.randrange(64) << 9) | 0x100 | rng.randrange(224, 256), 0)
                                                                   for _ in range(24)]
    pool24 = [(rng.getrandbits(24), rng.choice([0, 0, -1, 2, 4, 5, 9])) for _ in range(n // 8)]
    ev16, ev24, kept = [], [], []
    # event frames under the ambiguous / unknown decodings take part as well (their results must stay what they were)
    pool24 += [((rng.randrange(64) << 17) | (1 << 15) | (rng.randrange(32) << 10) | rng.randrange(1024), rng.choice([0, -1]))
               for _ in range(n // 16)]
    pool24 += [((rng.randrange(64) << 17) | (rng.choice([0, 2, 7, 31]) << 10) | rng.randrange(1024), 0) for _ in range(n // 16)]
    ctor_classes = [c for c in Command._commands]
    for pos in range(n):
        r = rng.random()
        if r < 0.03:
            # back to back: an ENABLE DEVICE TYPE frame, then an application-extended opcode decoded with device type 0 --
            # decoding is a function of its arguments, not of what was decoded just before (by this or any other caller)
            edt = 0xC100 | rng.choice((1, 4, 5, 6, 8, 2, 7, 255))
            ext = (rng.choice((0, 1, 63)) << 9) | 0x100 | rng.randrange(224, 256)
            bare = rng.random() < 0.5
            ev16.append({"key": edt, "cell": cmdrec.dec_cell(16, edt, 0, bare=bare), "pos": pos})
            ev16.append({"key": ext, "cell": cmdrec.dec_cell(16, ext, 0, bare=not bare), "pos": pos})
            ev16.append({"key": ext, "cell": cmdrec.dec_cell(16, ext, 0, bare=bare), "pos": pos})
        elif r < 0.4:
            f, dt = rng.choice(pool16)
            # (with device type 0 the keyword is left out half the time: the default is 0, whatever was decoded before --
            # also when that was an ENABLE DEVICE TYPE frame)
            ev16.append({"key": dt * 65536 + f, "cell": cmdrec.dec_cell(16, f, dt, bare=(dt == 0 and pos % 2 == 0)), "pos": pos})
            if pos % 3 == 0:
                cmdrec.scribble(16, f, dt)
        elif r < 0.8:
            f, mid = rng.choice(pool24)
            keep = []
            ev24.append({"key": f * 64 + (mid + 1), "cell": cmdrec.dec_cell(24, f, 0, get_map(mid), keep), "pos": pos})
            kept.extend((f, mid, o, fo) for o, fo in keep)
            if pos % 3 == 0:
                cmdrec.scribble(24, f, 0, get_map(mid))
        else:
            c = rng.choice(ctor_classes)
            for args in ((address.GearShort(rng.randrange(64)),), (address.DeviceShort(rng.randrange(64)),),
                         (rng.randrange(256),), (), (address.GearGroup(3), rng.randrange(16)),
                         (address.DeviceBroadcast(), address.InstanceNumber(rng.randrange(32)))):
                try:
                    c(*args)
                    break
                except Exception:
                    continue
    # every object decoded earlier is asked again at the end: a later decode must not have changed it
    for f, mid, o, fo in kept:
        ev24.append({"key": f * 64 + (mid + 1), "cell": cmdrec.obj_cell(o, fo, 24, f), "pos": n})
    after = registry_snapshot()
    recs = []
    for evs in (ev16, ev24):
        evs.sort(key=lambda e: (e["key"], e["pos"]))
        recs.append({"kind": "pure", "ev": evs, "registry_before": before, "registry_after": after})
    return recs


def named_opcodes():
    t = core.spec_tables()
    ops = {0, 255}
    for row in t["dev"] + t["inst"]:
        ops.add(row[2])
    return ops


def build(tier, seed):
    rng = random.Random(seed)
    if tier == "thorough":
        dts = list(range(256))
        cmdrec.pvals("ob", range(256))
        his = list(range(65536))
        maprows = [(hi, mid) for mid in [-1] + list(range(1, 33)) + [33, 97, 255, 256]
                   for hi in range(65536) if not (hi & 0x8000) and not (hi & 0x100) and (hi & 0x80)]
    else:
        dts = [0, 1, 4, 5, 6, 8, 2, 3, 7, 9, 128, 254, 255]
        ops = named_opcodes()
        while len(ops) < len(named_opcodes()) + 16:
            ops.add(rng.randrange(256))
        cmdrec.pvals("ob", sorted(ops))
        his = list(range(65536))
        maprows = [(hi, mid) for mid in (-1, 2, 4, 5, 8, 33, 256)
                   for hi in range(65536)
                   if not (hi & 0x8000) and not (hi & 0x100) and (hi & 0x80) and ((hi >> 9) & 63) in (0, 21, 63)]
    # every event header (bit 23 = 0, bit 16 = 0: all five schemes) under two sparse heterogeneous maps
    maprows += [(hi, mid) for mid in (100, 101) for hi in range(65536) if not (hi & 0x8000) and not (hi & 0x100)
                and (tier == "thorough" or ((hi >> 9) & 63) in (0, 1, 5, 21, 62, 63))]
    cmdrec.pvals("obmap", [0, 1, 2, 5, 9, 15, 16, 17, 0x55, 0xAA, 0xFF] if tier == "quick" else range(256))
    jobs = [("dec16", (dt, hb)) for dt in dts for hb in range(256)]
    jobs += [("dec24", (hi, 0, "ob")) for hi in his]
    jobs += [("dec24", (hi, mid, "obmap")) for hi, mid in maprows]
    jobs += [("decx", (ln, seed)) for ln in range(1, 65) if ln not in (16, 24)]
    return jobs


def _run(job):
    kind, j = job
    return {"dec16": _dec16, "dec24": _dec24, "decx": _decx}[kind](j)


MODE = "c01"


def run(tier, seed, replay=None):
    cmdrec.init_names()
    cmdrec.PVALS.clear()
    out = core.Outcome("C01", tier, seed)
    out.is_replay = replay is not None
    with core.Scratch("c01") as sc:
        jobs = build(tier, seed)
        pure = purity_history(seed, 20000 if tier == "quick" else 400000) if replay is None else []
        if replay is not None:
            c = replay["case"]
            jobs = [j for j in jobs if j[0] == c["kind"] and list(j[1][:2]) == c["key"][:2]]
            if c["kind"] == "pure":
                jobs, pure = [], purity_history(seed, 20000 if tier == "quick" else 400000)
        results = core.pmap(_run, jobs, chunksize=64)
        rows = core.Interner()
        recs = []
        ncells = 0
        for (kind, j), cells in zip(jobs, results):
            ncells += len(cells)
            if kind == "dec16":
                recs.append({"kind": kind, "dt": j[0], "hb": j[1], "row": rows.add(cells)})
            elif kind == "dec24":
                recs.append({"kind": kind, "hi": j[0], "map": j[1], "pv": cmdrec.PVALS[j[2]][0], "row": rows.add(cells)})
            else:
                recs.append({"kind": kind, "len": j[0], "cells": cells})
        if replay is None or replay["case"].get("kind") in ("dec16", "dec24"):
            # the same tables from fresh interpreters (one submodule imported; application classes declared on top)
            from . import freshproc
            fresh = freshproc.decode_records(rows)
            if replay is not None:
                fresh = [r_ for r_ in fresh if [r_.get("dt", r_.get("hi")), r_.get("hb", r_.get("map", 0))] == replay["case"]["key"][:2]]
            ncells += sum(len(rows.rows[r_["row"] - 1]) for r_ in fresh)
            recs += fresh
        recs += pure
        ncells += sum(len(p["ev"]) for p in pure)
        for ix, r_ in enumerate(recs, 1):
            r_["id"] = ix
        rowfile = rows.write(sc.file("rows.ndjson"))
        namefile = sc.file("names.ndjson")
        core.write_ndjson(namefile, [cmdrec.names_list()])
        pvfile = cmdrec.pvals_file(sc)
        paths, counts = core.shard_records(recs, sc, "c01", nshards=core.NCPU if replay is None else 1)
        rejects, notes, states, trans, wall = core.judge_shards(
            "CmdJudge", "CmdJudge.cfg", paths, sc, expect_counts=counts,
            extra_env={"ROWS": rowfile, "NAMES": namefile, "PVALS": pvfile, "MODE": MODE})
        out.states += states
        out.transitions += trans
        out.traces = len(recs)
        out.evaluations = ncells
        out.distinct_nontrivial = ncells - sum(len(p["ev"]) for p in pure) + \
            sum(len({e["key"] for e in p["ev"]}) for p in pure)
        out.rule = ("cells = distinct (length, frame, device type, map) decode inputs; 16-bit: all 2^16 frames x %d "
                    "device types; 24-bit: all 2^16 upper halves x %d opcode bytes, device/instance event headers under "
                    "maps; lengths 1..64 (except 16/24): <=256 structured + 256 random values each; purity: random "
                    "history of decodes/constructions, repeated inputs must give identical results" %
                    (len({j[1][0] for j in jobs if j[0] == "dec16"}), len(cmdrec.PVALS.get("ob", (0, []))[1])))
        out.exhaustive = tier == "thorough"
        out.extra["distinct_rows"] = len(rows.rows)
        byid = {r_["id"]: r_ for r_ in recs}
        if recs:
            s0 = recs[min(len(recs) - 1, 0x91)]
            out.samples = [dict({k: v for k, v in s0.items() if k != "ev"},
                                cells_head=rows.rows[s0["row"] - 1][:6] if "row" in s0 else None)]
        out.assumptions = ["the decoded object's identity is its class name (library module -> IEC part per README)",
                           "text form is judged only as 'str() returns a string'",
                           "frames the tables do not name may decode to any command object (bits must still be carried)"]
        rej = []
        for rj in rejects:
            rec = byid.get(rj[1], {})
            key = [rec.get("dt", rec.get("hi", rec.get("len"))), rec.get("hb", rec.get("map", 0))]
            rej.append(({"kind": rec.get("kind"), "key": key}, {"clause": rj[2], "at": rj[3]}))
        out.classify(rej, None)
    return out.finish()
