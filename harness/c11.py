"""C11 -- memory values decode any raw bytes totally and per the DiiA/IEC layout.

Spec:    spec/MemMap.tla (layout table + interpretation rules), MemMapModel.tla (well-formedness, MASK/TMASK
         patterns, number round trip)
Binding: (a) the declared memory map of dali.memory dumped and compared both ways with the table;
         (b) interpretation of every raw string (exhaustive for 1- and 2-byte values, boundary + random for
         wider ones); (c) value -> raw -> value for numbers and ASCII strings; all judged by TLC (MemJudge.tla).
"""
import random
from decimal import Decimal

from . import core

core.ensure_repo_on_path()

TYPE_LETTER = {"ROM": "R", "RAM_RO": "r", "RAM_RW": "W", "NVM_RO": "n", "NVM_RW": "N", "NVM_RW_L": "L", "NVM_RW_P": "P"}
BANKS = [("dali.memory.info", "BANK_0", "0"), ("dali.memory.info", "BANK_0_legacy", "0L"),
         ("dali.memory.oem", "BANK_1", "1"), ("dali.memory.energy", "BANK_202", "202"),
         ("dali.memory.energy", "BANK_203", "203"), ("dali.memory.energy", "BANK_204", "204"),
         ("dali.memory.diagnostics", "BANK_205", "205"), ("dali.memory.diagnostics", "BANK_206", "206"),
         ("dali.memory.maintenance", "BANK_207", "207")]


def banks():
    import importlib
    out = []
    for mod, attr, label in BANKS:
        out.append((label, getattr(importlib.import_module(mod), attr)))
    return out


def value_index():
    ix = {}
    for label, b in banks():
        for v in b.values:
            ix[(label, v.__name__)] = v
    return ix


def cell_of(fn, width):
    """Describe what the library made of raw bytes, in the shape MemMap!ValueOK expects."""
    from dali.memory.location import FlagValue
    c = {"k": "exc", "flag": "", "neg": False, "bytes": [], "digits": [], "exp": 0, "small": 0, "s": ""}
    try:
        v = fn()
    except Exception as e:  # noqa: recorded
        c["s"] = type(e).__name__
        return c
    if isinstance(v, FlagValue):
        c["k"], c["flag"] = "flag", v.name
    elif any(_same(v, f) for f in FlagValue):
        # "either a value or one of the flags": a value that compares equal to a flag (or finds it in a set / as a dict
        # key) is neither
        c["k"], c["s"] = "other", "value-indistinguishable-from-flag"
    elif v is True or v is False:
        c["k"], c["small"] = "bool", int(v)
    elif isinstance(v, int):
        c["k"] = "int"
        c["neg"] = v < 0
        a = abs(v)
        if a < 256 ** width:
            c["bytes"] = list(a.to_bytes(width, "big"))
        else:
            c["bytes"] = [-1]
        c["small"] = v if abs(v) < 2 ** 31 else 0
    elif isinstance(v, Decimal):
        sign, digits, exp = v.as_tuple()
        c["k"], c["neg"], c["digits"], c["exp"] = "dec", bool(sign), list(digits), exp
    elif isinstance(v, str):
        if all(ord(ch) < 128 for ch in v):
            c["k"] = "text"
            c["s"] = v
            c["bytes"] = list(v.encode("ascii"))
        else:
            c["k"] = "other"
    else:
        c["k"] = "other"
    return c


def _same(a, b):
    try:
        if a == b or b == a:
            return True
    except Exception:
        pass
    try:
        return a in {b} or a in {b: 1}
    except Exception:       # unhashable values
        return False


def interp(v, raw, width):
    c = cell_of(lambda: v.check_raw(bytes(raw)) or v.raw_to_value(bytes(raw)), width)
    from dali.memory.location import StringValue
    if c["k"] == "text" and issubclass(v, StringValue):
        c["k"] = "str"
    return c


def _dec_job(job):
    label, name, prefix = job
    v = VALUES[(label, name)]
    w = len(v.locations) - (1 if getattr(v, "mask_length_adjust", 0) == -1 else 0)
    return [interp(v, list(prefix) + [b], w) for b in range(256)]


VALUES = {}


def layout_record():
    vals, bk = [], []
    overlaps = 0
    for label, b in banks():
        bk.append([label, 1 if b.has_lock else 0, 1 if b.has_latch else 0])
        seen = {}
        for v in b.values:
            locs = [l.address for l in v.locations]
            contiguous = locs == list(range(locs[0], locs[0] + len(locs)))
            types = [TYPE_LETTER.get(l.type_.name, "?") for l in v.locations]
            vals.append([label, v.__name__, locs[0], len(locs) if contiguous else -1, types])
            for a in locs:
                if a in seen:
                    overlaps += 1
                seen[a] = v
    return {"kind": "layout", "vals": vals, "banks": bk, "overlaps": overlaps}


def declare_record(rng, tier):
    """User-declared values (the documented way of describing vendor banks): every arrangement of location types up to
    three locations, and random longer ones, in banks with / without lock byte and latch."""
    import itertools
    from dali.memory.location import MemoryBank, MemoryLocation, MemoryType, NumericValue
    tmap = {"R": MemoryType.ROM, "r": MemoryType.RAM_RO, "W": MemoryType.RAM_RW, "n": MemoryType.NVM_RO,
            "N": MemoryType.NVM_RW, "L": MemoryType.NVM_RW_L, "P": MemoryType.NVM_RW_P}
    seqs = [list(t) for n in (1, 2, 3) for t in itertools.product("RrWnNLP", repeat=n)]
    for _ in range(60 if tier == "quick" else 2000):
        seqs.append([rng.choice("RrWnNLPNNrL") for _ in range(rng.randrange(4, 9))])
    probes = []
    for lock, latch in ((0, 0), (1, 0), (0, 1), (1, 1)):
        for types in seqs:
            start = rng.randrange(3, 0xF0)
            try:
                bank = MemoryBank(rng.randrange(2, 200), 0xFE, has_lock=bool(lock), has_latch=bool(latch))
                type("Decl", (NumericValue,), {"bank": bank, "locations": tuple(
                    MemoryLocation(address=start + j, type_=tmap[t]) for j, t in enumerate(types))})
                res = "ok"
            except Exception as e:   # noqa: recorded
                res = type(e).__name__
            probes.append([lock, latch, types, res])
    return {"kind": "declare", "probes": probes}


def declare_seq_record(rng, tier):
    """Sequences of declarations in one bank of the user's own: fresh, overlapping an accepted one, overlapping again,
    adjacent, ..."""
    from dali.memory.location import MemoryBank, MemoryLocation, MemoryType, NumericValue
    probes = []
    for _ in range(150 if tier == "quick" else 3000):
        bank = MemoryBank(rng.randrange(2, 200), 0xFE, has_lock=True, has_latch=False)
        seq = []
        base = rng.randrange(3, 0x60)
        for j in range(rng.randrange(2, 7)):
            start = base + rng.randrange(0, 12)
            width = rng.randrange(1, 5)
            try:
                type("Seq%d" % j, (NumericValue,), {"bank": bank, "locations": tuple(
                    MemoryLocation(address=start + i, type_=MemoryType.NVM_RW) for i in range(width))})
                res = "ok"
            except Exception as e:   # noqa: recorded
                res = type(e).__name__
            seq.append([start, width, res])
        probes.append(seq)
    return {"kind": "declare-seq", "probes": probes}


def wide_raws(rng, n, tier):
    top = (1 << (8 * n)) - 1
    vals = {0, 1, top, top - 1, top - 2, top - 3, top >> 1, (top >> 1) + 1, 1 << (8 * (n - 1)), (1 << (8 * (n - 1))) - 1}
    for s in list(range(0, 8)) + list(range(0xF8, 0x100)) + [0x7F, 0x80]:
        for body in (0, 1, (1 << (8 * (n - 1))) - 1, (1 << (8 * (n - 1))) - 2, (1 << (8 * (n - 1))) - 3, 12345 % (1 << (8 * (n - 1)))):
            vals.add((s << (8 * (n - 1))) | body)
    out = [list(v.to_bytes(n, "big")) for v in sorted(vals)]
    for _ in range(200 if tier == "quick" else 5000):
        out.append([rng.getrandbits(8) for _ in range(n)])
    return out


def string_raws(rng, n, tier):
    out = [[0] * n, [0x41] * n, [0x7F] * n, [0x80] * n, [0xFF] * n, [0x41, 0] + [0x80] * (n - 2), [0x41, 0xC3] + [0] * (n - 2),
           [0x20] + [0] * (n - 1)]
    # bytes above 0x7F that happen to be well-formed in other encodings (UTF-8 two-, three-, four-byte sequences,
    # Latin-1 letters): still not ASCII
    for seq in ([0xC3, 0xBC], [0xC2, 0xB0], [0xE2, 0x82, 0xAC], [0xF0, 0x9F, 0x98, 0x80], [0xE9], [0xA0]):
        for at in sorted({0, 2, max(0, n - len(seq) - 1), max(0, n - len(seq))}):
            if at + len(seq) <= n:
                body = [0x47, 0x72, 0x6E, 0x20, 0x41][:at] + [0x41] * max(0, at - 5)
                out.append((body[:at] + seq + [0] * n)[:n])
                out.append((body[:at] + seq + [0x6E] * n)[:n])
    # texts that read like the names of the flags ("not a value"): they are values
    for word in ("MASK", "TMASK", "Invalid", "INVALID", "None", "True", "0"):
        b = list(word.encode("ascii"))
        if len(b) <= n:
            out.append((b + [0] * n)[:n])
            if len(b) < n:
                out.append((b + [0x20] * n)[:n])
    for _ in range(300 if tier == "quick" else 6000):
        kind = rng.random()
        if kind < 0.5:
            ln = rng.randrange(0, n + 1)
            out.append([rng.randrange(1, 128) for _ in range(ln)] + [0] * (n - ln))
        elif kind < 0.8:
            out.append([rng.randrange(0, 256) for _ in range(n)])
        else:
            ln = rng.randrange(0, n)
            out.append([rng.randrange(1, 128) for _ in range(ln)] + [0] + [rng.randrange(256) for _ in range(n - ln - 1)])
    return out


def run(tier, seed, replay=None):
    out = core.Outcome("C11", tier, seed)
    out.is_replay = replay is not None
    rng = random.Random(seed)
    VALUES.clear()
    VALUES.update(value_index())
    from dali.memory.location import StringValue, NumericValue
    with core.Scratch("c11") as sc:
        if replay is None:
            r = core.spec_check("MemMapModel", "MemMapModel.cfg", sc, workers=8)
            out.add_spec_run(r, "MemMapModel")
        cells = core.Interner()
        recs = [layout_record(), declare_record(random.Random(seed * 31 + 7), tier),
                declare_seq_record(random.Random(seed * 37 + 11), tier)]
        jobs = []
        for (label, name), v in sorted(VALUES.items()):
            n = len(v.locations)
            if n == 1:
                jobs.append((label, name, ()))
            elif n == 2:
                for hb in range(256):
                    jobs.append((label, name, (hb,)))
        results = core.pmap(_dec_job, jobs, chunksize=64)
        ncells = 0
        for (label, name, prefix), cs in zip(jobs, results):
            ncells += len(cs)
            recs.append({"kind": "dec", "bank": label, "name": name, "prefix": list(prefix),
                         "cells": [cells.add(c) for c in cs]})
        for (label, name), v in sorted(VALUES.items()):
            n = len(v.locations)
            w = n - (1 if getattr(v, "mask_length_adjust", 0) == -1 else 0)
            if n > 2:
                raws = string_raws(rng, n, tier) if issubclass(v, StringValue) else wide_raws(rng, n, tier)
                cs = [interp(v, raw, w) for raw in raws]
                ncells += len(cs)
                recs.append({"kind": "decw", "bank": label, "name": name, "raws": raws, "cells": [cells.add(c) for c in cs]})
            # inverse direction
            if issubclass(v, StringValue):
                texts = []
                for ln in range(0, n + 1):
                    texts.append([rng.randrange(0x20, 0x7F) for _ in range(ln)])
                    texts.append([0x41 + (k % 26) for k in range(ln)])
                cs = []
                for t in texts:
                    s_ = bytes(t).decode("ascii")
                    try:
                        raw = v.value_to_raw(s_)
                        padded = bytes(raw) + b"\x00" * (n - len(raw))
                        back = v.check_raw(padded) or v.raw_to_value(padded)
                        cs.append([list(raw), 1 if back == s_ else 0])
                    except Exception:
                        cs.append([[-1], 0])
                ncells += len(cs)
                recs.append({"kind": "invstr", "bank": label, "name": name, "texts": texts, "cells": cs})
            elif n <= 2 and issubclass(v, NumericValue) and type(v).__name__ and \
                    v.raw_to_value.__func__ is NumericValue.raw_to_value.__func__:
                ns = list(range(256 ** n))
                cs = []
                for x in ns:
                    try:
                        raw = v.value_to_raw(x)
                        back = v.check_raw(raw) or v.raw_to_value(raw)
                        cs.append([list(raw), 1 if (back == x and type(back) is int) else 0])
                    except Exception:
                        cs.append([[-1], 0])
                ncells += len(cs)
                recs.append({"kind": "inv", "bank": label, "name": name, "ns": ns, "cells": cs})
        # from_list: the value taken out of a bank image (list indexed by location, None = not implemented) that ends
        # before, inside or after the value, or has a hole inside it
        for (label, name), v in sorted(VALUES.items()):
            n = len(v.locations)
            w = n - (1 if getattr(v, "mask_length_adjust", 0) == -1 else 0)
            start = v.locations[0].address
            image = [(7 * l + 3) % 251 for l in range(start + n + 4)]
            raw = image[start:start + n]
            probes = [["len", ln] for ln in sorted({0, start, start + n - 1, start + n, start + n + 3} | set(range(start, start + n + 1)))] + \
                     [["none", start + j] for j in range(n)]
            cs = []
            for kind, x in probes:
                lst = list(image[:x]) if kind == "len" else [None if l == x else b for l, b in enumerate(image)]
                c_ = cell_of(lambda: v.from_list(lst), w)
                if c_["k"] == "text" and issubclass(v, StringValue):
                    c_["k"] = "str"
                cs.append(cells.add(c_))
            ncells += len(cs)
            recs.append({"kind": "fromlist", "bank": label, "name": name, "start": start, "raw": raw, "probes": probes, "cells": cs})
        if replay is not None:
            c = replay["case"]
            recs = [r_ for r_ in recs if all(r_.get(k) == v_ for k, v_ in c.items())]
        for ix, r_ in enumerate(recs, 1):
            r_["id"] = ix
        cellfile = cells.write(sc.file("cells.ndjson"))
        paths, counts = core.shard_records(recs, sc, "c11", nshards=core.NCPU if len(recs) > 32 else 1)
        rejects, notes, states, trans, wall = core.judge_shards("MemJudge", "MemJudge.cfg", paths, sc,
                                                                expect_counts=counts, extra_env={"CELLS": cellfile})
        out.states += states
        out.transitions += trans
        out.traces = len(recs)
        out.evaluations = ncells
        out.distinct_nontrivial = ncells
        out.exhaustive = False
        out.rule = ("cells = (memory value, raw byte string) interpretations: every raw string of all 1- and 2-byte values, "
                    "boundary/scale-byte/random strings of wider values, strings with and without NUL / non-ASCII bytes; "
                    "(value, number) and (value, text) inverse conversions; one layout record comparing all %d declared "
                    "values both ways with the table; one declaration record (every arrangement of location types x lock/latch)" % len(VALUES))
        t = [r_ for r_ in recs if r_["kind"] == "dec"]
        out.samples = [{"bank": t[40]["bank"], "name": t[40]["name"], "prefix": t[40]["prefix"],
                        "cells_head": [cells.rows[i - 1] for i in t[40]["cells"][:3]]}] if len(t) > 40 else [recs[0]["kind"]]
        out.extra["declared_values"] = len(VALUES)
        out.extra["distinct_cells"] = len(cells.rows)
        out.assumptions = ["MASK/TMASK/limit columns of banks 205-207 could only be confirmed against the library (src=doc)",
                           "a scale byte outside -6..6 together with a MASK/TMASK pattern may be reported either way",
                           "free text results (version 'not implemented', light distribution type, 'Part 209 implemented') "
                           "are judged as 'a text', not by wording"]
        byid = {r_["id"]: r_ for r_ in recs}
        rej = []
        for rj in rejects:
            rec = byid.get(rj[1], {})
            case = {k: rec[k] for k in ("kind", "bank", "name", "prefix") if k in rec}
            rej.append((case, {"clause": rj[2], "at": rj[3]}))
        out.classify(rej, None)
    return out.finish()
