"""C13 -- control-device sequences move multi-byte settings and scan results intact.

Spec:    spec/Dev103.tla (control devices / instances, byte-wise input value protocol, event filter / scheme),
         Dev103Model.tla (reassembly identity for resolutions 1..32, filter law with stale DTRs),
         DevSeqJudge.tla (clauses)
Binding: query_input_value, SetEventFilters, QueryEventFilters, SetEventSchemes and
         DeviceInstanceTypeMapper.autodiscover run against a device-bus simulator; TLC re-executes each frame on
         Dev103 and evaluates the clauses.
"""
import random
from enum import IntFlag

from . import core
from .unitsim import DevBusSim, drive

core.ensure_repo_on_path()


def _inst(rng, width=8, res=8, value=None, enabled=1, type_=1, filt=None, scheme=0):
    return {"enabled": enabled, "type": type_, "scheme": scheme,
            "filter": filt if filt is not None else [rng.getrandbits(8), rng.getrandbits(8) if width >= 16 else 0,
                                                     rng.getrandbits(8) if width >= 24 else 0],
            "width": width, "res": res, "value": value if value is not None else [rng.getrandbits(1) for _ in range(res)]}


def _bus(devs, rng, fault=(0, "none"), stale=None):
    return {"dev": devs, "dtr0": stale if stale is not None else rng.getrandbits(8),
            "dtr1": stale if stale is not None else rng.getrandbits(8),
            "dtr2": stale if stale is not None else rng.getrandbits(8), "fault": list(fault)}


_FILTER_TYPES = {}


def filter_types():
    """library filter enums plus user-defined 16- and 24-bit wide ones"""
    if _FILTER_TYPES:
        return _FILTER_TYPES
    from dali.device import general, pushbutton, occupancy, light
    W16 = general.InstanceEventFilter("W16", {"b%d" % k: 1 << k for k in range(12)})
    W24 = general.InstanceEventFilter("W24", {"b%d" % k: 1 << k for k in range(20)})
    F24 = general.InstanceEventFilter("F24", {"b%d" % k: 1 << k for k in range(24)})
    # the same, with the flags declared the other way round (as in a "bit 11 .. bit 0" table) or in no particular order
    W16d = general.InstanceEventFilter("W16d", {"b%d" % k: 1 << k for k in reversed(range(12))})
    F24d = general.InstanceEventFilter("F24d", {"b%d" % k: 1 << k for k in reversed(range(24))})
    W24s = general.InstanceEventFilter("W24s", {"b%d" % k: 1 << k for k in (3, 19, 0, 11, 7, 16, 1, 9, 18, 2, 4, 5, 6, 8, 10, 12, 13, 14, 15, 17)})
    for name, t in (("pushbutton", pushbutton.InstanceEventFilter), ("occupancy", occupancy.InstanceEventFilter),
                    ("light", light.InstanceEventFilter), ("W16", W16), ("W24", W24), ("F24", F24),
                    ("W16d", W16d), ("F24d", F24d), ("W24s", W24s)):
        _FILTER_TYPES[name] = t
    return _FILTER_TYPES


def run_case(case):
    from dali.device import sequences as ds
    from dali.device.helpers import DeviceInstanceTypeMapper
    from dali import address
    bus = case["bus"]
    sim = DevBusSim(bus)

    def answer(cmd):
        f = cmd.frame.as_integer
        resp = sim.step(f) if len(cmd.frame) == 24 else ("none", 0)
        return resp, {"f": f, "resp": list(resp)}

    seq = case["seq"]
    rec = {"seq": seq, "bus": bus, "target": case.get("target", [1, 0]), "req": case.get("req", [0]),
           "scan": case.get("scan", []), "preload": case.get("preload", [])}
    ret = {"k": "none", "bits": [], "bytes": [], "raw": ["none", 0], "map": []}
    gen = None
    mapper = None
    try:
        if seq in ("input", "setfilter", "queryfilter", "setscheme"):
            d = bus["dev"][case["target"][0] - 1]
            dev = d["short"] if case.get("ints") else address.DeviceShort(d["short"])
            inst = case["target"][1] if case.get("ints") else address.InstanceNumber(case["target"][1])
        if seq == "input":
            gen = ds.query_input_value(dev, inst, resolution=case.get("resolution"))
        elif seq == "setfilter":
            ft = filter_types()[case["ftype"]] if case["ftype"] != "int" else int
            val = int.from_bytes(bytes(case["req"]), "little")
            gen = ds.SetEventFilters(dev, inst, ft(val))
        elif seq == "queryfilter":
            ft = filter_types()[case["ftype"]]
            if case.get("as_module"):
                # the documented other form: the instance-type module (anything that carries an InstanceEventFilter)
                import types as _types
                mod = _types.ModuleType("vendor_" + case["ftype"])
                mod.InstanceEventFilter = ft
                mod.instance_type = 9
                ft = mod
            gen = ds.QueryEventFilters(dev, inst, ft)
        elif seq == "setscheme":
            from dali.device.general import EventScheme
            s = case["req"][0]
            gen = ds.SetEventSchemes(dev, inst, EventScheme(s) if (0 <= s <= 4 and not case.get("ints")) else s)
        else:
            mapper = DeviceInstanceTypeMapper()
            for ps, pi, pt in case.get("preload", []):          # what an earlier scan (of other units) left behind
                mapper.add_type(short_address=ps, instance_number=pi, instance_type=pt)
            if case.get("abandon_first") is not None:
                # an earlier scan with this mapper was given up part-way (the driver lost its gateway, the task was
                # cancelled): the next scan is a scan like any other
                import copy
                from .unitsim import drive_iter
                sim0 = DevBusSim(copy.deepcopy(bus))
                g0 = mapper.autodiscover(case["addresses"])
                it = drive_iter(g0, lambda cmd: ((sim0.step(cmd.frame.as_integer) if len(cmd.frame) == 24 else ("none", 0)), {}), 6000)
                try:
                    for _ in range(case["abandon_first"][1]):
                        next(it)
                    if case["abandon_first"][0] == "close":
                        g0.close()
                    else:
                        import asyncio
                        try:
                            g0.throw(asyncio.CancelledError())
                        except BaseException:   # noqa: what abandoning does is judged by the 'abandon' cases
                            pass
                except StopIteration:
                    pass
                except BaseException:   # noqa
                    pass
                it.close()
            gen = mapper.autodiscover(case["addresses"])
        if case.get("abandon"):
            return _abandon(rec, gen, answer, case)
        ev, out = drive(gen, answer, 6000)
    except Exception as e:  # noqa: constructor-time refusal
        ev, out = [], {"exc": type(e).__name__, "ret": None}
    r = out["ret"]
    if seq == "discover" and mapper is not None:
        ret["k"] = "map"
        ret["map"] = [[k[0], k[1], v] for k, v in sorted(mapper.mapping.items())]
    elif r is None:
        pass
    elif seq == "input":
        if isinstance(r, int) and r >= 0:
            ret["k"] = "int"
            ret["bits"] = [int(c) for c in bin(r)[2:]]
        else:
            ret["k"] = "other"
    elif seq in ("setfilter", "queryfilter"):
        if isinstance(r, int) and 0 <= int(r) < (1 << 24):
            ret["k"] = "int"
            ret["bytes"] = list(int(r).to_bytes(3, "little"))
        else:
            ret["k"] = "other"
    elif seq == "setscheme":
        raw = getattr(r, "raw_value", "?")
        if raw is None:
            ret["k"], ret["raw"] = "resp", ["none", 0]
        elif hasattr(raw, "as_integer"):
            ret["k"] = "resp"
            ret["raw"] = ["err" if raw.error else "val", raw.as_integer]
        else:
            ret["k"] = "other"
    rec["ev"] = ev
    rec["out"] = {"exc": out["exc"], "ret": ret}
    rec["case"] = case
    return rec


def _abandon(rec, gen, answer, case):
    """run the sequence for case['abandon'][1] commands, then give it up the way case['abandon'][0] says"""
    import asyncio
    from .unitsim import drive_iter
    how, k = case["abandon"]
    it = drive_iter(gen, answer, 6000)
    done = None
    for _ in range(k):
        try:
            next(it)
        except StopIteration as s:
            done = s.value
            break
    res = "none"
    if done is None:
        try:
            if how == "close":
                gen.close()
            else:
                try:
                    gen.throw(asyncio.CancelledError())
                    res = "went-on-after-cancellation"
                except asyncio.CancelledError:
                    pass
                except StopIteration:
                    res = "swallowed-cancellation"
        except BaseException as e:  # noqa: recorded
            res = type(e).__name__
        it.close()
    rec["seq"] = "abandon"
    rec["ev"] = []
    rec["out"] = {"exc": res, "ret": {"k": "none", "bits": [], "bytes": [], "raw": ["none", 0], "map": []}}
    rec["case"] = case
    return rec


def cases(tier, seed):
    rng = random.Random(seed)
    cs = []
    # input values: every resolution, values all (<= 10 bits in quick, <= 12 thorough) / structured + random
    for res in range(1, 33):
        vals = []
        full = 6 if tier == "quick" else 12
        if res <= full:
            vals = [[(v >> (res - 1 - k)) & 1 for k in range(res)] for v in range(1 << res)]
        else:
            vals = [[0] * res, [1] * res, [k % 2 for k in range(res)], [1] + [0] * (res - 1), [0] * (res - 1) + [1]]
            vals += [[rng.getrandbits(1) for _ in range(res)] for _ in range(6 if tier == "quick" else 60)]
        for bits in vals:
            dev = {"short": rng.randrange(64), "status": 0, "inst": [_inst(rng), _inst(rng, res=res, value=bits)]}
            other = {"short": (dev["short"] + 1) % 64, "status": 0, "inst": [_inst(rng), _inst(rng)]}
            cs.append({"seq": "input", "bus": _bus([dev, other], rng), "target": [1, 1],
                       "resolution": res if rng.random() < 0.5 else None, "ints": rng.random() < 0.2})
        # silence or framing error at each step
        nsteps = 1 + (res + 7) // 8
        for at in range(1, nsteps + 1):
            for fk in ("silent", "err", "errsame"):
                dev = {"short": 7, "status": 0, "inst": [_inst(rng, res=res)]}
                cs.append({"seq": "input", "bus": _bus([dev], rng, fault=(at, fk)), "target": [1, 0], "resolution": None})
    # filters
    widths = {"pushbutton": 8, "occupancy": 8, "light": 8, "W16": 16, "W24": 24, "F24": 24, "W16d": 16, "F24d": 24, "W24s": 24}
    nbits = {"pushbutton": 8, "occupancy": None, "light": None, "W16": 12, "W24": 20, "F24": 24}
    ft = filter_types()
    for name, t in ft.items():
        w = widths[name]
        nb = len(t)
        allv = (1 << nb) - 1
        vals = list(range(1 << nb)) if nb <= 8 and tier == "thorough" else \
            sorted({0, allv, 1, 1 << (nb - 1), allv ^ 1} | {rng.getrandbits(nb) for _ in range(40 if tier == "quick" else 600)})
        for v in vals:
            for stale in (0, 0xFF, None):
                dev = {"short": rng.randrange(64), "status": 0, "inst": [_inst(rng, width=w), _inst(rng, width=w)]}
                tgt = [1, rng.randrange(2)]
                cs.append({"seq": "setfilter", "bus": _bus([dev], rng, stale=stale), "target": tgt, "ftype": name,
                           "req": list(v.to_bytes(3, "little"))})
        for j_ in range(10 if tier == "quick" else 100):
            dev = {"short": rng.randrange(64), "status": 0, "inst": [_inst(rng, width=w, filt=list((rng.getrandbits(nb)).to_bytes(3, "little")))]}
            cs.append({"seq": "queryfilter", "bus": _bus([dev], rng), "target": [1, 0], "ftype": name, "as_module": j_ % 2})
        for at in range(1, 4):
            for fk in ("silent", "err", "errsame"):
                dev = {"short": 3, "status": 0, "inst": [_inst(rng, width=w)]}
                cs.append({"seq": "setfilter", "bus": _bus([dev], rng, fault=(at, fk)), "target": [1, 0], "ftype": name,
                           "req": list((rng.getrandbits(nb)).to_bytes(3, "little"))})
                dev = {"short": 3, "status": 0, "inst": [_inst(rng, width=w, filt=list((rng.getrandbits(nb)).to_bytes(3, "little")))]}
                cs.append({"seq": "queryfilter", "bus": _bus([dev], rng, fault=(at, fk)), "target": [1, 0], "ftype": name})
    for v in range(256):
        dev = {"short": 9, "status": 0, "inst": [_inst(rng, width=8)]}
        cs.append({"seq": "setfilter", "bus": _bus([dev], rng), "target": [1, 0], "ftype": "int", "req": [v, 0, 0]})
    # schemes
    for s in (0, 1, 2, 3, 4, 5, 7, 255, -1):
        for ints in (False, True):
            for fk in ((0, "none"), (1, "silent"), (1, "err")):
                dev = {"short": 11, "status": 0, "inst": [_inst(rng, scheme=rng.randrange(5)), _inst(rng)]}
                cs.append({"seq": "setscheme", "bus": _bus([dev], rng, fault=fk), "target": [1, 0], "req": [s], "ints": ints})
    # discovery
    for k in range(60 if tier == "quick" else 1500):
        ndev = rng.choice([0, 1, 2, 3, 5, 8, 16, 64]) if k % 4 == 0 else rng.randrange(0, 10)
        shorts = rng.sample(range(64), ndev)
        devs = []
        for s in shorts:
            status = rng.getrandbits(8) & 0b10111011          # bits 2 and 6 clear: healthy
            if rng.random() < 0.1:
                status = rng.getrandbits(8)
            ninst = rng.choice([0, 1, 2, 3, 4, 8, 32]) if rng.random() < 0.3 else rng.randrange(0, 6)
            devs.append({"short": s, "status": status,
                         "inst": [_inst(rng, enabled=rng.randrange(2), type_=rng.randrange(32)) for _ in range(ninst)]})
        mode = k % 3
        if mode == 0:
            addresses, scan = (0, 63), list(range(64))
        elif mode == 1:
            hi = rng.randrange(1, 65)
            addresses, scan = hi, list(range(hi))
        else:
            scan = sorted(rng.sample(range(64), rng.randrange(1, 30)))
            addresses = list(scan)
        fault = (0, "none")
        if k % 5 == 0:
            fault = (rng.randrange(1, 40), rng.choice(["silent", "err", "errsame"]))
        c = {"seq": "discover", "bus": _bus(devs, rng, fault=fault), "addresses": addresses, "scan": scan}
        if rng.random() < 0.4:
            # a mapper that has been used before: entries of units since replaced (other type) or removed
            c["preload"] = [[d["short"], rng.randrange(0, max(1, len(d["inst"]) + 1)), rng.choice([1, 2, 3, 4, 6])]
                            for d in devs[:6] if rng.random() < 0.7] + [[rng.randrange(64), rng.randrange(4), rng.choice([1, 3, 4])]]
        cs.append(c)
    # a fault at every answer position of small scans (enabled / disabled / typed instances mixed)
    for variant in range(3 if tier == "quick" else 12):
        devs = []
        for s_ in (4, 9):
            devs.append({"short": s_, "status": rng.choice([0, 0x02, 0x08]),
                         "inst": [_inst(rng, enabled=(k + variant) % 2, type_=rng.randrange(32)) for k in range(3)]})
        nans = 2 * (2 + 3 + 3)
        for at in range(1, nans + 1):
            for fk in ("silent", "err", "errsame"):
                cs.append({"seq": "discover", "bus": _bus([dict(d, inst=[dict(i) for i in d["inst"]]) for d in devs], rng, fault=(at, fk)),
                           "addresses": [4, 9], "scan": [4, 9]})
    # a complete scan after an abandoned one with the same mapper
    for k, c in enumerate([c for c in cs if c["seq"] == "discover" and not c.get("preload") and c["bus"]["fault"][1] == "none"][:40 if tier == "quick" else 400]):
        cs.append(dict(c, abandon_first=["close" if k % 2 else "cancel", 1 + (k * 3) % 11]))
    # every kind of sequence given up part-way, at every position of a short run and at random ones of long runs
    base = {}
    for c in cs:
        base.setdefault(c["seq"], []).append(c)
    for seq, lst in sorted(base.items()):
        for k in range(12 if tier == "quick" else 120):
            c = rng.choice(lst)
            pos = k if k < 8 else rng.randrange(1, 60)
            cs.append(dict(c, abandon=["close" if k % 2 else "cancel", pos]))
    return cs


def run(tier, seed, replay=None):
    out = core.Outcome("C13", tier, seed)
    out.is_replay = replay is not None
    with core.Scratch("c13") as sc:
        if replay is None:
            r = core.spec_check("Dev103Model", "Dev103Model.cfg", sc, workers=8)
            out.add_spec_run(r, "Dev103Model")
            cs = cases(tier, seed)
            # PlusCal model of the sequences: exhaustive on the spec side, every terminal state replayed on the real
            # sequences (identical command stream); the replayed cases are judged like all others
            from . import seqdev
            seqdev.model_run(out, sc)
            cs = cs + seqdev.conformance(out, sc)
        else:
            cs = [replay["case"]["case"]]
        recs = core.pmap(run_case, cs, chunksize=64)
        for ix, rec in enumerate(recs, 1):
            rec["id"] = ix
        slim = [{k: v for k, v in rec.items() if k != "case"} for rec in recs]
        paths, counts = core.shard_records(slim, sc, "c13", nshards=core.NCPU if len(slim) > 32 else 1)
        rejects, notes, states, trans, wall = core.judge_shards("DevSeqJudge", "DevSeqJudge.cfg", paths, sc,
                                                                expect_counts=counts)
        out.states += states
        out.transitions += trans
        out.traces = len(recs)
        out.evaluations = sum(len(r_["ev"]) for r_ in recs)
        out.distinct_nontrivial = len({repr(r_["case"]) for r_ in recs if len(r_["ev"]) >= 2})
        out.rule = ("one trace per case: (resolution 1..32, value), (filter enum incl. user-defined 16/24-bit ones, flag "
                    "set, stale DTR contents), schemes incl. invalid, buses of 0..64 devices with random status / "
                    "instance counts / enabled / types, silence or framing error at each step; non-trivial = distinct "
                    "cases with >= 2 commands")
        out.extra["cases_by_seq"] = {k: sum(1 for c in cs if c["seq"] == k) for k in
                                     ("input", "setfilter", "queryfilter", "setscheme", "discover")}
        byid = {r_["id"]: r_ for r_ in recs}
        s0 = recs[len(recs) // 3]
        out.samples = [{"seq": s0["seq"], "target": s0["target"], "req": s0["req"], "ev_head": s0["ev"][:5], "out": s0["out"]}]
        out.assumptions = ["devices whose status has 'short address is MASK' or 'reset state' set may or may not be recorded "
                           "by the discovery scan (the statement does not define healthy)",
                           "an instance implements the filter width its event-filter enum needs; unimplemented filter "
                           "bytes read as 0"]
        env = [rj for rj in rejects if str(rj[2]).startswith("env-")]
        if env:
            raise core.MachineryError("device simulator disagrees with Dev103: %r" % env[:3])
        rej = [({"case": byid.get(rj[1], {}).get("case")}, {"clause": rj[2], "at": rj[3]}) for rj in rejects]
        out.classify(rej, None)
    return out.finish()
