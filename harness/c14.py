"""C14 -- colour (DT8) sequences carry 16-bit values byte-exactly and in order.

Spec:    spec/Gear209.tla (Tc unit), Gear209Model.tla (set / limit / query laws over all 65536 values),
         ColourJudge.tla (clauses)
Binding: SetDT8ColourValueTc, SetDT8TcLimit and QueryDT8ColourValue run against a unit simulator; TLC
         re-executes each frame (under the device type the command carries) on Gear209 and evaluates the clauses.
"""
import random

from . import core
from .unitsim import Decoder16, drive

core.ensure_repo_on_path()


class Gear209Sim:
    """mirror of spec/Gear209.tla"""

    def __init__(self, u):
        self.__dict__.update({k: (list(v) if isinstance(v, list) else v) for k, v in u.items()})
        self.activated = False
        self.nans = 0
        self.dec = Decoder16()
        t = core.spec_tables()
        self.ext = {row[2]: row[1] for row in t["gear"] if row[0] == "209"}

    def _faulted(self, ans):
        self.nans += 1
        if self.fault[1] != "none" and self.nans == self.fault[0]:
            if self.fault[1] == "silent":
                return ("none", 0)
            if self.fault[1] == "errsame" and ans[0] == "val":
                return ("err", ans[1])          # garbled, yet the data bits are those of the right answer
            return ("err", 255)
        return ans

    def step(self, f, dt):
        name, dest, lb = self.dec.decode(f)
        addressed = dest in (("gshort", 5), ("ggroup", 2), ("gbcast", 0))
        if dest is not None and (f >> 8) & 1 and dt == 8 and lb >= 224:
            name = self.ext.get(lb, "?")
        elif dest is not None and (f >> 8) & 1 and dt != 0:
            name = "?"
        # a configuration command takes effect when it is received twice in a row
        if name == "StoreColourTemperatureTcLimit" and addressed:
            if getattr(self, "pend", -1) != f:
                self.pend = f
                return ("none", 0)
        self.pend = -1
        if name == "DTR0":
            self.dtr0 = lb
        elif name == "DTR1":
            self.dtr1 = lb
        elif name == "DTR2":
            self.dtr2 = lb
        elif name == "SetTemporaryColourTemperature" and addressed:
            self.tempTc = self.dtr1 * 256 + self.dtr0
        elif name == "Activate" and addressed:
            self.tc = self.tempTc
            self.activated = True
        elif name == "StoreColourTemperatureTcLimit" and addressed:
            if 0 <= self.dtr2 <= 3:
                self.limits[self.dtr2] = self.dtr1 * 256 + self.dtr0
        elif name == "QueryColourValue" and addressed:
            v = self.report if self.dtr0 == self.sel else 65535
            self.dtr0 = v % 256
            return self._faulted(("val", v // 256))
        elif name == "QueryContentDTR0" and addressed:
            return self._faulted(("val", self.dtr0))
        elif name == "QueryActualLevel" and addressed:
            return self._faulted(("val", self.level))
        return ("none", 0)


def _unit(rng, report=0, sel=2, fault=(0, "none")):
    return {"tempTc": 65535, "tc": rng.randrange(65536), "limits": [rng.randrange(65536) for _ in range(4)],
            "report": report, "sel": sel, "dtr0": rng.getrandbits(8), "dtr1": rng.getrandbits(8),
            "dtr2": rng.getrandbits(8), "level": rng.randrange(255), "fault": list(fault)}


def _dest(d):
    from dali import address
    k, n = d
    return {"short": lambda: address.GearShort(n), "int": lambda: n, "group": lambda: address.GearGroup(n),
            "bcast": address.GearBroadcast}[k]()


def run_case(case):
    from dali.gear import sequences as gs
    from dali.gear import colour
    if case.get("seq") == "enums":
        return {"seq": "enums", "query": [[m.name, int(m.value)] for m in colour.QueryColourValueDTR],
                "limit": [[m.name, int(m.value)] for m in colour.StoreColourTemperatureTcLimitDTR2], "ev": [], "case": case}
    if "pair" in case:
        # two sequences for two units on two buses, taking turns command by command: each is judged on its own
        from .unitsim import drive_interleaved
        parts = [_prepare(c) for c in case["pair"]]
        res = drive_interleaved([(mk, ans) for _, mk, ans in parts], 50, case.get("burst", 1))
        return [_finish(rec, ev, out, case) for (rec, _, _), (ev, out) in zip(parts, res)]
    rec, mk, answer = _prepare(case)
    import logging
    root = logging.getLogger()
    old_level, handler = root.level, None
    if case.get("debuglog"):
        # an application that runs with DEBUG logging and a handler that renders every record
        class Render(logging.Handler):
            def emit(self, record):
                record.getMessage()
        handler = Render()
        root.addHandler(handler)
        root.setLevel(logging.DEBUG)
        logging.disable(logging.NOTSET)        # (the harness silences the library's logging elsewhere)
    try:
        try:
            ev, out = drive(mk(), answer, 50)
        except Exception as e:  # noqa
            ev, out = [], {"exc": type(e).__name__, "ret": None}
    finally:
        if handler is not None:
            root.removeHandler(handler)
            root.setLevel(old_level)
            logging.disable(logging.CRITICAL)
    return _finish(rec, ev, out, case)


def _prepare(case):
    from dali.gear import sequences as gs
    from dali.gear import colour
    u = case["unit"]
    sim = Gear209Sim(u)

    def answer(cmd):
        f = cmd.frame.as_integer
        dt = cmd.devicetype if isinstance(cmd.devicetype, int) else -1
        resp = sim.step(f, dt)
        ev = {"f": f, "dt": dt, "resp": list(resp)}
        if cmd.sendtwice:
            # what every driver does with a command that says it must be sent twice: the frame goes out again (with its
            # device-type prefix); the record keeps both receptions
            resp2 = sim.step(f, dt)
            return resp2, [ev, {"f": f, "dt": dt, "resp": list(resp2)}]
        return resp, ev

    seq = case["seq"]
    rec = {"seq": seq, "unit": u, "value": case.get("value", 0) if isinstance(case.get("value", 0), int) else 0,
           "selector": case.get("selector", 0) if isinstance(case.get("selector", 0), int) else 0,
           "legal": case["legal"], "addressed": case.get("addressed", 1)}

    def mk():
        if seq == "set":
            return gs.SetDT8ColourValueTc(_dest(case["dest"]), case["value"])
        elif seq == "limit":
            return gs.SetDT8TcLimit(_dest(case["dest"]), case["selector"], case["value"])
        sel = case["selector"]
        q = colour.QueryColourValueDTR(sel) if case["legal"] else sel
        if isinstance(sel, str) and sel.startswith("@"):
            from dali import command as _c, frame as _f
            q = {"@limit:TcWarmest": colour.StoreColourTemperatureTcLimitDTR2.TcWarmest,
                 "@limit:TcCoolest": colour.StoreColourTemperatureTcLimitDTR2.TcCoolest,
                 "@resp:1": _c.NumericResponse(_f.BackwardFrame(1)), "@float:2.0": 2.0, "@bool": True}[sel]
        return gs.QueryDT8ColourValue(_dest(case["dest"]), q)
    return rec, mk, answer


def _finish(rec, ev, out, case):
    r = out["ret"]
    rec["ev"] = ev
    rec["out"] = {"exc": out["exc"], "ret": r if isinstance(r, int) and not isinstance(r, bool) and 0 <= r < 65536 else
                  (-1 if r is None else -2)}
    rec["case"] = case
    return rec


def cases(tier, seed):
    from dali.gear import colour
    rng = random.Random(seed)
    cs = []
    dests = [(("short", 5), 1), (("int", 5), 1), (("group", 2), 1), (("bcast", 0), 1), (("short", 6), 0), (("group", 3), 0)]
    if tier == "thorough":
        values = range(65536)
    else:
        values = sorted(set(range(0, 65536, 17)) | {0, 1, 255, 256, 257, 0xFF00, 0xFFFE, 0xFFFF, 0x00FF, 0x8000, 0x7FFF})
    for ix, v in enumerate(values):
        for dk in (range(4) if tier == "thorough" else [ix % 4]):
            d, addressed = dests[dk]
            cs.append({"seq": "set", "dest": d, "value": v, "legal": 1, "addressed": addressed, "unit": _unit(rng)})
        cs.append({"seq": "limit", "dest": dests[ix % 4][0], "value": v, "selector": ix % 4, "legal": 1, "addressed": 1,
                   "unit": _unit(rng)})
    for d, addressed in dests[4:]:
        for v in (0, 300, 65535):
            cs.append({"seq": "set", "dest": d, "value": v, "legal": 1, "addressed": addressed, "unit": _unit(rng)})
    for bad in (-1, 65536, 1 << 20, "x", 1.5, None):
        for d in (("short", 5), ("int", 5), ("group", 2), ("bcast", 0)):
            cs.append({"seq": "set", "dest": d, "value": bad, "legal": 0, "unit": _unit(rng)})
            cs.append({"seq": "limit", "dest": d, "value": bad, "selector": 1, "legal": 0, "unit": _unit(rng)})
    sels = [m.value for m in colour.QueryColourValueDTR]
    for s in sels:
        stored = range(65536) if tier == "thorough" and s in (2, 128, 194, 226) else \
            sorted({0, 1, 255, 256, 0xFE00, 0xFEFF, 0xFF00, 0xFFFF, 0x1234} | {rng.randrange(65536) for _ in range(24 if tier == "quick" else 400)})
        for v in stored:
            cs.append({"seq": "query", "dest": ("short", 5) if v % 2 else ("int", 5), "selector": s, "legal": 1,
                       "unit": _unit(rng, report=v, sel=s)})
        for at in (1, 2, 3):
            for fk in ("silent", "err", "errsame"):
                cs.append({"seq": "query", "dest": ("short", 5), "selector": s, "legal": 1,
                           "unit": _unit(rng, report=rng.randrange(0xFF00), sel=s, fault=(at, fk))})
    for bad in (2, 16, 300, "x", None):
        for d in (("short", 5), ("int", 5), ("group", 2), ("bcast", 0)):
            cs.append({"seq": "query", "dest": d, "selector": bad, "legal": 0, "unit": _unit(rng)})
    # things that are not query selectors although they carry a .value that is one: members of other enumerations,
    # a response object, a float, a bool
    for bad in ("@limit:TcWarmest", "@limit:TcCoolest", "@resp:1", "@float:2.0", "@bool"):
        for d in (("short", 5), ("int", 5), ("group", 2), ("bcast", 0)):
            cs.append({"seq": "query", "dest": d, "selector": bad, "legal": 0, "unit": _unit(rng)})
    for ix, c in enumerate(cs):
        if ix % 2:
            c["debuglog"] = 1
    # two sequences running interleaved (two buses, one process): neither may see anything of the other
    singles = [c for c in cs if c["legal"] and c["seq"] in ("set", "limit", "query")]
    for k in range(200 if tier == "quick" else 5000):
        a, b = rng.choice(singles), rng.choice(singles)
        if k % 2:
            a = rng.choice([c for c in singles[:400] if c["seq"] != "query"])
            b = dict(rng.choice([c for c in singles[:400] if c["seq"] != "query"]), unit=_unit(rng))
        cs.append({"pair": [dict(a, unit=dict(a["unit"])), dict(b, unit=dict(b["unit"]))], "burst": 1 + k % 3 % 2})
    return cs


def run(tier, seed, replay=None):
    out = core.Outcome("C14", tier, seed)
    out.is_replay = replay is not None
    with core.Scratch("c14") as sc:
        if replay is None:
            r = core.spec_check("Gear209Model", "Gear209Model.cfg", sc)
            out.add_spec_run(r, "Gear209Model (all 65536 values)")
            cs = cases(tier, seed) + [{"seq": "enums"}]
        else:
            cs = [replay["case"]["case"]]
        recs = []
        for r_ in core.pmap(run_case, cs, chunksize=256):
            recs.extend(r_ if isinstance(r_, list) else [r_])
        for ix, rec in enumerate(recs, 1):
            rec["id"] = ix
        slim = [{k: v for k, v in rec.items() if k != "case"} for rec in recs]
        paths, counts = core.shard_records(slim, sc, "c14", nshards=core.NCPU if len(slim) > 32 else 1)
        rejects, notes, states, trans, wall = core.judge_shards("ColourJudge", "ColourJudge.cfg", paths, sc,
                                                                expect_counts=counts)
        out.states += states
        out.transitions += trans
        out.traces = len(recs)
        out.evaluations = sum(len(r_["ev"]) for r_ in recs)
        out.distinct_nontrivial = len({repr(r_["case"]) for r_ in recs if len(r_["ev"]) >= 2})
        out.exhaustive = tier == "thorough"
        out.rule = ("one trace per case: (Tc value, destination kind) for set and for each limit selector, (query "
                    "selector, stored value, fault) for query, plus out-of-range / wrong-type arguments; non-trivial = "
                    "distinct cases with >= 2 commands; values: %s" % ("all 65536" if tier == "thorough" else "every 17th + boundaries"))
        byid = {r_["id"]: r_ for r_ in recs}
        s0 = recs[len(recs) // 2]
        out.samples = [{k: s0.get(k) for k in ("seq", "value", "selector", "ev", "out")}]
        out.assumptions = ["every QUERY COLOUR VALUE selector is modelled as a 16-bit variable (MSB answered, LSB left in DTR0)",
                           "ACTIVATE copies the temporary colour temperature (no clamping to limits in the model)"]
        env = [rj for rj in rejects if str(rj[2]).startswith("env-")]
        if env:
            raise core.MachineryError("colour unit simulator disagrees with Gear209: %r" % env[:3])
        rej = [({"case": byid.get(rj[1], {}).get("case")}, {"clause": rj[2], "at": rj[3]}) for rj in rejects]
        out.classify(rej, None)
    return out.finish()
