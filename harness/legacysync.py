"""LegacySync (PlusCal model of the synchronous legacy drivers' send loops: dali/driver/hasseb.py, tridonic.py):
exhaustive TLC runs, two configurations per driver that MUST violate a named invariant (deviations of the code as it is),
and spec -> code replay of every exported terminal state on the real drivers over a scripted fake device.

The legacy drivers are outside the files C16 is anchored in: everything here is reported as model conformance (drift),
never as a verdict."""
import time as _time

from . import core

CFGS = [("hasseb", "LegacySync_hasseb.cfg", "LegacySync hasseb exhaustive (HassebTyped, OneWrite; scripts <= 3 packets, 200 polls)"),
        ("tridonic", "LegacySync_tridonic.cfg", "LegacySync tridonic exhaustive (TridonicBounded, OneWrite; scripts <= 4 packets)")]
MUST_VIOLATE = [("LegacySync_hasseb_sn.cfg", "AnswerIsOwn", "hasseb: an answer is taken whatever its sequence number"),
                ("LegacySync_tridonic_sn.cfg", "AnswerIsOwn", "tridonic: an answer is taken whatever its sequence number"),
                ("LegacySync_tridonic_typed.cfg", "TridonicTyped", "tridonic: no answer is reported as a sentinel object, not as the command's response")]


def model_runs(out, sc):
    for _, cfg, label in CFGS:
        r = core.run_tlc("LegacySync", cfg, sc, workers=4, timeout=900)
        if not r.ok:
            raise core.MachineryError("LegacySync model check %s failed:\n%s" % (cfg, r.out[-3000:]))
        out.add_spec_run(r, label)
    dev = []
    for cfg, inv, what in MUST_VIOLATE:
        r = core.run_tlc("LegacySync", cfg, sc, workers=4, timeout=900)
        if ("Invariant %s is violated" % inv) not in r.out:
            raise core.MachineryError("LegacySync %s was expected to violate %s (named deviation: %s)" % (cfg, inv, what))
        dev.append({"cfg": cfg, "invariant": inv, "deviation": what, "violated_as_expected": True})
    return dev


def _hasseb_packet(p):
    k, v, sn = p["k"], p["v"], p["sn"]
    if k == "none":
        return None
    body = {"nodata": [0, 0, 0, 0, 0], "ok": [7, sn, 2, 1, v], "ok0": [7, sn, 2, 0, 0], "noans": [7, sn, 1, 0, 0],
            "inv": [7, sn, 3, 0, 0], "early": [7, sn, 4, 0, 0], "sniff": [7, sn, 5, 1, v], "junk": [0x55, sn, 9, 9, 9]}[k]
    return [0xAA] + body + [0, 0, 0, 0]


def _tridonic_packet(p, LT):
    k, v, sn = p["k"], p["v"], p["sn"]
    dr, ty, cm = {"resp": (LT.DALI_USB_DIRECTION_USB, LT.DALI_USB_TYPE_RESPONSE, v),
                  "noresp": (LT.DALI_USB_DIRECTION_USB, LT.DALI_USB_TYPE_NO_RESPONSE, 0),
                  "complete": (LT.DALI_USB_DIRECTION_USB, LT.DALI_USB_TYPE_COMPLETE, 0x90),
                  "bcast": (LT.DALI_USB_DIRECTION_DALI, LT.DALI_USB_TYPE_BROADCAST, 0x05),
                  "dalis": (LT.DALI_USB_DIRECTION_DALI, LT.DALI_USB_TYPE_RESPONSE, v),
                  "junk": (0x33, 0x79, 1)}[k]
    return bytes([dr, ty, 0, 0, 0xFF, cm, 0, 0, sn] + [0] * 7)


class _Dev:
    """scripted device: hasseb HID handle (write / read(n)) and tridonic USB backend (write / read(timeout=))"""

    def __init__(self, packets, idle):
        self.packets, self.idle = list(packets), idle
        self.reads = self.writes = 0

    def write(self, data):
        self.writes += 1
        return len(data)

    def read(self, *a, **kw):
        self.reads += 1
        return self.packets.pop(0) if self.packets else self.idle


def _describe(r):
    from dali.command import Response
    from dali.frame import BackwardFrame
    if r is None:
        return ["None", 0]
    if isinstance(r, Response):
        raw = r.raw_value
        if raw is None:
            return ["silent", 0]
        return ["err", 255] if raw.error else ["val", raw.as_integer]
    if isinstance(r, BackwardFrame):
        return ["rawframe", r.as_integer]
    return ["sentinel", 0]


def replay_one(item):
    from . import c18
    c18._stubs()
    from dali.gear.general import QueryActualLevel, Off
    from dali.address import GearShort
    drv, script, expects, result, reads, writes = item[1], list(item[2]), list(item[3]), list(item[4]), list(item[5]), list(item[6])
    realsleep = _time.sleep
    _time.sleep = lambda s: None          # the drivers pace themselves with time.sleep(); virtual here
    try:
        if drv == "hasseb":
            import dali.driver.hasseb as LH
            d = LH.SyncHassebDALIUSBDriver.__new__(LH.SyncHassebDALIUSBDriver)
            d.sn = 0
            dev = _Dev([_hasseb_packet(p) for p in script], _hasseb_packet({"k": "nodata", "v": 0, "sn": 0}))
            d.device = dev
        else:
            import dali.driver.tridonic as LT
            d = LT.SyncTridonicDALIUSBDriver.__new__(LT.SyncTridonicDALIUSBDriver)
            d._next_sn = 1
            dev = _Dev([_tridonic_packet(p, LT) for p in script], _tridonic_packet({"k": "complete", "v": 0, "sn": 1}, LT))
            d.backend = dev
        got, greads, gwrites = [], [], []
        for k in range(2):
            r0, w0 = dev.reads, dev.writes
            cmd = QueryActualLevel(GearShort(k + 1)) if expects[k] else Off(GearShort(k + 1))
            try:
                got.append(_describe(d.send(cmd)))
            except Exception as e:  # noqa: recorded
                got.append(["exc:" + type(e).__name__, 0])
            greads.append(dev.reads - r0)
            gwrites.append(dev.writes - w0)
    finally:
        _time.sleep = realsleep
    want = [[x["k"], x["v"]] for x in result]
    diffs = []
    if got != want:
        diffs.append("results: code %s, model %s" % (got, want))
    if greads != reads:
        diffs.append("device reads per send: code %s, model %s" % (greads, reads))
    if gwrites != writes:
        diffs.append("packets written per send: code %s, model %s" % (gwrites, writes))
    return {"driver": drv, "script": [[p["k"], p["v"], p["sn"]] for p in script], "expects": expects, "diffs": diffs}


def conformance(out, sc):
    scen = []
    for drv, _, _ in CFGS:
        r = core.run_tlc("LegacySync", "LegacySync_%s_export.cfg" % drv, sc, workers=4, timeout=900, xmx="3g")
        if not r.ok:
            raise core.MachineryError("LegacySync export (%s) failed:\n%s" % (drv, r.out[-3000:]))
        got = core.extract_tagged(r.out, "SCEN")
        if len(got) < 400:
            raise core.MachineryError("LegacySync export (%s) produced only %d terminal states" % (drv, len(got)))
        scen += got
    res = core.pmap(replay_one, scen, chunksize=64)
    drift = [x for x in res if x["diffs"]]
    block = {"model": "LegacySync.tla (PlusCal): SyncHassebDALIUSBDriver.send/receive, SyncTridonicDALIUSBDriver.send",
             "direction": "spec -> code", "scope": "extension: these drivers are outside the files C16 is anchored in",
             "terminal_states_replayed": len(scen), "identical": len(scen) - len(drift),
             "by_driver": {d: sum(1 for x in res if x["driver"] == d) for d, _, _ in CFGS},
             "drift": drift[:5]}
    for x in drift[:5]:
        print("# DRIFT (not a verdict): the legacy %s driver differs from LegacySync.tla on script %s: %s" % (
            x["driver"], x["script"], "; ".join(x["diffs"])))
    return block
