"""C12 -- event messages: scheme fields and instance-type resolution.

Spec:    spec/Events103.tla, EventsModel.tla (field round trip, totality, map law)
Binding: (a) the whole 2^23 event space decoded by the real library without a map, and the 2^21
         device/instance frames under maps resolving to every type 0..31 / to nothing;
         (b) histories of add_type (three argument forms) / clear / decode / retry_decode;
         judged by TLC (EventsJudge.tla).
"""
import random

from . import core

NAMES = {}


def name_ix(obj):
    cls = type(obj)
    q = core.qname(cls) if cls.__module__ in core.PART_OF_MODULE else cls.__name__
    if q not in NAMES:
        NAMES[q] = len(NAMES) + 1
    return NAMES[q]


def _nz(x):
    return -1 if x is None else x


def describe(evt):
    """<<nameIx, short, inum, dgroup, igroup, itype, data>> of a decoded object."""
    from dali.device import general
    n = name_ix(evt)
    if not isinstance(evt, general._Event):
        return [n, -1, -1, -1, -1, -1, -1]
    sa = evt.short_address
    d = evt.event_data
    if d is None:
        dc = -1
    elif isinstance(d, int):
        dc = d
        if hasattr(evt, "illuminance") and evt.illuminance != d:        # the light event's own accessor
            dc = -2
    elif hasattr(d, "movement"):
        dc = (1 if d.movement else 0) + (2 if d.occupied else 0) + (4 if d.repeat else 0) + \
             (8 if d.sensor_type == "movement" else 0 if d.sensor_type == "presence" else 1024)
        # the event's own accessors say the same as the tuple (they are what applications read)
        try:
            for nm in ("movement", "occupied", "repeat", "sensor_type"):
                if hasattr(evt, nm) and getattr(evt, nm) != getattr(d, nm):
                    dc = -2
        except Exception:
            dc = -2
    else:
        dc = -2
    return [n, _nz(sa.address if sa is not None else None), _nz(evt.instance_number), _nz(evt.device_group),
            _nz(evt.instance_group), _nz(evt.instance_type), dc]


_MAPS = {}


def get_map(mapid):
    from dali.device.helpers import DeviceInstanceTypeMapper
    if mapid == 0:
        return None
    if mapid not in _MAPS:
        m = DeviceInstanceTypeMapper()
        if mapid in (100, 101):
            # sparse, heterogeneous maps: per device one or two instances with different types (C01: decoding under such
            # a map is still total and bit-identical for every event scheme)
            for s in range(64):
                if mapid == 100 or s % 3:
                    m.add_type(short_address=s, instance_number=s % 32, instance_type=[1, 3, 4, 2][s % 4])
                if mapid == 101:
                    m.add_type(short_address=s, instance_number=(s + 7) % 32, instance_type=[4, 1, 31, 3][s % 4])
        elif mapid > 0:
            for s in range(64):
                for n in range(32):
                    m.add_type(short_address=s, instance_number=n, instance_type=mapid - 1)
        _MAPS[mapid] = m
    return _MAPS[mapid]


def _evt_job(job):
    from dali import command, frame
    mapid, hdr = job
    m = get_map(mapid)
    base = (hdr // 64) * 131072 + (hdr % 64) * 1024
    cells = []
    hfs = set()
    hf0 = None
    types = []
    for d in range(1024):
        try:
            e = command.from_frame(frame.ForwardFrame(24, base + d), dev_inst_map=m)
            r = describe(e)
            cells.append(r[0] * 2048 + r[6] + 1 if r[6] >= -1 else -2)
            t = tuple(r[1:5])
            hfs.add(t)
            if d == 0:
                hf0 = list(t)
            if d in (0, 16, 1023):
                types.append(r[5])
        except Exception:
            cells.append(-1)
            if d in (0, 16, 1023):
                types.append(-9)
            hfs.add(("exc",))
    return cells, hf0 or [-9, -9, -9, -9], 1 if len(hfs) == 1 else 0, types, dict(NAMES)


FRESH = r'''
import sys, json
sys.path.insert(0, sys.argv[1]); sys.path.insert(0, sys.argv[2])
import logging
logging.disable(logging.CRITICAL)
__import__(sys.argv[3])          # what an application imports: one module of the package, nothing else by name
from harness import c12
jobs = json.loads(sys.argv[4])
out = [c12._evt_job(tuple(j)) for j in jobs]
print(json.dumps(out))
'''


def fresh_evt_results(jobs, entry):
    """the same event tables computed in a fresh interpreter that imported only `entry` (the instance-type -> event class
    registry is filled as a side effect of importing the package: it must not depend on who imported which submodule)"""
    import json
    import os
    import subprocess
    import sys
    p = subprocess.run([sys.executable, "-c", FRESH, os.path.dirname(os.path.dirname(os.path.abspath(__file__))), core.REPO, entry,
                        json.dumps(jobs)], stdout=subprocess.PIPE, stderr=subprocess.PIPE, text=True, timeout=600,
                       env=dict(os.environ, PYTHONHASHSEED="0"))
    if p.returncode != 0:
        raise core.MachineryError("fresh interpreter (%s) failed:\n%s" % (entry, p.stderr[-2000:]))
    return [tuple(x[:4]) + (x[4],) for x in json.loads(p.stdout)]


def map_history(seed, k, nops):
    from dali import command, frame
    from dali.address import DeviceShort, InstanceNumber
    from dali.device.helpers import DeviceInstanceTypeMapper
    from dali.device import pushbutton, occupancy, light
    mods = {1: pushbutton, 3: occupancy, 4: light}
    rng = random.Random(seed * 7919 + k)

    class ViaGetType(DeviceInstanceTypeMapper):
        """A map that answers only through the documented lookup call: its entries live outside the base class's table."""
        def __init__(self):
            super().__init__()
            self._own = {}

        def add_type(self, **kw):
            super().add_type(**kw)
            self._own.update(self.mapping)
            self.mapping.clear()

        def clear(self):
            super().clear()
            self._own = {}

        def get_type(self, *, short_address, instance_number):
            s = short_address.address if isinstance(short_address, DeviceShort) else short_address
            n = instance_number.value if isinstance(instance_number, InstanceNumber) else instance_number
            return self._own.get((s, n), None)

    shorts = [rng.randrange(64) for _ in range(3)]
    inums = [rng.randrange(32) for _ in range(3)]
    evs = []
    shared = None
    if k % 3 == 1:
        # the map starts from a table the application keeps (and has handed to another mapper object as well): what
        # happens to that other object is not this one's business
        shared = {(rng.choice(shorts), rng.choice(inums)): rng.choice([1, 3, 4, 2]) for _ in range(rng.randrange(1, 4))}
        m = DeviceInstanceTypeMapper(shared)
        sibling = DeviceInstanceTypeMapper(shared)
        for (s_, n_), t_ in sorted(shared.items()):
            evs.append({"op": "add", "s": s_, "n": n_, "t": t_, "form": "int"})
    else:
        m = ViaGetType() if k % 3 == 2 else DeviceInstanceTypeMapper()
    ambs = []
    kept = []
    for _ in range(nops):
        op = rng.choice(["add", "add", "decode", "decode", "retry", "retry", "clear"] if rng.random() < 0.3
                        else ["add", "decode", "decode", "retry", "retry"])
        s, n = rng.choice(shorts), rng.choice(inums)
        if op == "add":
            t = rng.choice([1, 3, 4, 1, 3, 4, 0, 2, 7, 31])
            form = rng.choice(["int", "obj", "module"])
            if form == "module" and t not in mods:
                form = "int"
            m.add_type(short_address=DeviceShort(s) if form == "obj" else s,
                       instance_number=InstanceNumber(n) if form == "obj" else n,
                       instance_type=mods[t] if form == "module" else t)
            evs.append({"op": "add", "s": s, "n": n, "t": t, "form": form})
        elif op == "clear" and shared is not None and rng.random() < 0.6:
            sibling.clear()             # the other mapper forgets everything: no event for the model
        elif op == "clear":
            m.clear()
            evs.append({"op": "clear"})
        else:
            d = rng.choice([0, 1, 2, 5, 9, 11, 12, 14, 15, 3, 16, rng.randrange(1024), rng.randrange(1024)])
            if rng.random() < 0.8:
                f = (s << 17) | (1 << 15) | (n << 10) | d
            else:
                f = rng.getrandbits(24) & ~(1 << 16)
            if op == "decode":
                try:
                    e = command.from_frame(frame.ForwardFrame(24, f), dev_inst_map=m)
                except Exception:   # noqa: decoding never raises (C01); recorded as a result no spec value equals
                    evs.append({"op": "decode", "f": f, "res": [-1, -1, -1, -1, -1, -1, -1]})
                    break
                evs.append({"op": "decode", "f": f, "res": describe(e)})
                kept.append((e, evs[-1]["res"]))
            else:
                try:
                    if ambs and rng.random() < 0.5:
                        # the same pending event object is retried again, after the map may have changed
                        f, amb = rng.choice(ambs)
                    else:
                        amb = command.from_frame(frame.ForwardFrame(24, f))
                        if type(amb).__name__ != "AmbiguousInstanceType":
                            continue
                        ambs.append((f, amb))
                    r = amb.retry_decode(m)
                except Exception:   # noqa
                    evs.append({"op": "retry", "f": f, "still": 0, "res": [-1, -1, -1, -1, -1, -1, -1]})
                    break
                if r is None:
                    evs.append({"op": "retry", "f": f, "still": 1, "res": [0, 0, 0, 0, 0, 0, 0]})
                else:
                    evs.append({"op": "retry", "f": f, "still": 0, "res": describe(r)})
    # what was decoded earlier still describes itself the same way (later decodes / map changes do not reach into it)
    same = 1
    for obj, was in kept:
        try:
            if describe(obj) != was:
                same = 0
        except Exception:
            same = 0
    evs.append({"op": "same", "f": 0, "eq": same, "res": [0, 0, 0, 0, 0, 0, 0]})
    return {"kind": "maphist", "gen": {"seed": seed, "k": k, "nops": nops}, "ev": evs}


def run(tier, seed, replay=None):
    core.import_all_commands()
    out = core.Outcome("C12", tier, seed)
    out.is_replay = replay is not None
    NAMES.clear()
    with core.Scratch("c12") as sc:
        if replay is None:
            r = core.spec_check("EventsModel", "EventsModel.cfg" if tier == "quick" else "EventsModel_full.cfg", sc)
            out.add_spec_run(r, "EventsModel")
        jobs = [(0, h) for h in range(8192)]
        di_hdrs = [h for h in range(8192) if (h >> 12) == 0 and ((h >> 5) & 1) == 1]   # bit23=0, bit15=1
        if tier == "thorough":
            mapids = [-1] + list(range(1, 33)) + [33, 64, 97, 129, 255, 256]     # (what a unit answers to QUERY INSTANCE TYPE is a byte)
            hdrs = di_hdrs
        else:
            mapids = [-1, 1, 2, 4, 5, 8, 32, 33, 97, 256]
            hdrs = [h for h in di_hdrs if ((h >> 6) & 63) in (0, 1, 31, 62, 63)]
        for mid in mapids:
            jobs += [(mid, h) for h in hdrs]
        nh = 300 if tier == "quick" else 8000
        hists = [map_history(seed, k, 40) for k in range(nh)]
        if replay is not None:
            c = replay["case"]
            if c.get("kind") == "evt":
                jobs, hists = [(c["map"], c["hdr"])], []
            else:
                jobs, hists = [], [map_history(c["gen"]["seed"], c["gen"]["k"], c["gen"]["nops"])]
        fresh_of = {}
        if replay is not None and replay["case"].get("fresh"):
            results = fresh_evt_results([list(j) for j in jobs], replay["case"]["fresh"])
            fresh_of = {0: replay["case"]["fresh"]}
        else:
            results = core.pmap(_evt_job, jobs, chunksize=32)
        if replay is None:
            # device-scheme events of instance types 1, 3, 4 and device/instance events under maps of these types, from fresh
            # interpreters that imported one module only
            fj = [(0, (s_ << 6) | (t << 0)) for s_ in (0, 5) for t in (1, 3, 4, 2)] + \
                 [(mid, (5 << 6) | 32 | n) for mid in (2, 4, 5) for n in (0, 7)]
            for entry in ("dali.device.general", "dali.device.helpers", "dali.driver.hid"):
                for k in range(len(jobs), len(jobs) + len(fj)):
                    fresh_of[k] = entry
                jobs += fj
                results += fresh_evt_results([list(j) for j in fj], entry)
        rows = core.Interner()
        recs = []
        for jx, ((mid, h), (cells, hf, same, types, names)) in enumerate(zip(jobs, results)):
            # merge name tables of the workers (indices are per-process: re-map through names)
            inv = {v: k for k, v in names.items()}
            fixed = []
            for c in cells:
                if c < 0:
                    fixed.append(c)
                else:
                    q = inv[c // 2048]
                    if q not in NAMES:
                        NAMES[q] = len(NAMES) + 1
                    fixed.append(NAMES[q] * 2048 + c % 2048)
            recs.append({"kind": "evt", "map": mid, "hdr": h, "hf": hf, "hfsame": same, "types": types, "fresh": fresh_of.get(jx, ""),
                         "row": rows.add(fixed)})
        recs += hists
        for ix, r_ in enumerate(recs, 1):
            r_["id"] = ix
        namefile = sc.file("names.ndjson")
        core.write_ndjson(namefile, [[q for q, _ in sorted(NAMES.items(), key=lambda kv: kv[1])]])
        rowfile = rows.write(sc.file("rows.ndjson"))
        paths, counts = core.shard_records(recs, sc, "c12", nshards=core.NCPU if replay is None else 1)
        rejects, notes, states, trans, wall = core.judge_shards(
            "EventsJudge", "EventsJudge.cfg", paths, sc, expect_counts=counts,
            extra_env={"ROWS": rowfile, "NAMES": namefile})
        out.states += states
        out.transitions += trans
        out.traces = len(recs)
        nev = sum(len(h["ev"]) for h in hists)
        out.evaluations = 1024 * len(jobs) + nev
        out.distinct_nontrivial = 1024 * len(jobs) + sum(1 for h in hists for e in h["ev"] if e["op"] in ("decode", "retry"))
        out.rule = ("every frame of the 2^23 event space (bit 16 = 0) without a map; device/instance frames (%d headers "
                    "x 1024 data values) under %d maps (empty, and all keys -> type T); %d map histories x 40 ops; "
                    "each (map, frame) is a distinct decode; non-trivial history events = decode/retry" %
                    (len(hdrs), len(mapids), nh))
        out.exhaustive = tier == "thorough"
        out.extra["distinct_rows"] = len(rows.rows)
        out.extra["classes_seen"] = sorted(NAMES)
        byid = {r_["id"]: r_ for r_ in recs}
        out.samples = [dict(recs[5], cells_head=rows.rows[recs[5]["row"] - 1][:6])] if jobs else []
        if hists:
            out.samples.append({"ev": hists[0]["ev"][:6]})
        out.assumptions = ["occupancy event data is read from EventData(movement, occupied, repeat, sensor_type)",
                           "maps in the sweep are constant (all keys -> one type); mixed maps are covered by the histories"]
        rej = []
        for rj in rejects:
            rec = byid.get(rj[1], {})
            case = {k: rec.get(k) for k in ("kind", "map", "hdr", "gen", "fresh") if k in rec}
            rej.append((case, {"clause": rj[2], "at": rj[3]}))
        out.classify(rej, None)
    return out.finish()
