"""C09 -- memory-bank reads return the declared bytes and leave the unit untouched.

Spec:    spec/MemUnit.tla (IEC 62386-102 9.10 memory access), MemMap.tla (layout + interpretation),
         MemSeqJudge.tla (clauses), SeqMemory.tla (model of read / read_all against MemUnit)
Binding: MemoryValue.read and MemoryBank.read_all run against a unit simulator; TLC re-executes every frame
         on MemUnit and evaluates the clauses (values vs stored bytes / snapshot, exceptions, memory untouched,
         not left latched).
"""
import random

from . import core, memseq


def cases(tier, seed):
    rng = random.Random(seed)
    cs = []
    styles = ["rand", "zero", "ff", "fe", "walk"]
    for (label, name), v in sorted(memseq.VALUES.items()):
        row = [r for r in memseq.SPECMAP[label] if r[1] == name]
        if not row:
            continue
        start, width = row[0][2], row[0][3]
        end = start + width - 1
        nimg = 2 if tier == "quick" else 6
        for k in range(nimg):
            style = styles[k % len(styles)] if k else "rand"
            kind = "gear" if (k + len(name)) % 2 else "device"
            base = memseq.default_image(label, rng, style)
            # plain read, default last address
            cs.append({"seq": "read", "value": name, "unit": memseq.unit(kind, label, list(base), dtr0=rng.randrange(256),
                                                                    dtr1=rng.randrange(256)), "addr_int": kind == "gear" and k == 1})
            # boundary bytes at the first location (scale byte of scaled values, sign / mask patterns elsewhere)
            for b0 in (0x00, 0x06, 0x07, 0xF9, 0xFA, 0xFF, 0xFE, 0x01):
                m = list(base)
                m[start] = b0
                cs.append({"seq": "read", "value": name, "unit": memseq.unit(kind, label, m)})
            # every relevant 'last accessible location'
            lasts = sorted({max(0, start - 1), start, max(start, end - 1), end, 254, rng.randrange(255)}) if tier == "quick" \
                else range(255)
            for la in lasts:
                m = list(base)
                m[0] = la
                for l in range(3, min(la, 254) + 1):
                    if m[l] < 0:
                        m[l] = rng.getrandbits(8)
                cs.append({"seq": "read", "value": name, "unit": memseq.unit(kind, label, m)})
            # text that fills the whole field and ends in spaces (no NUL): stored bytes are stored bytes
            if width >= 8 and k == 0:
                for pad in (1, 2, width // 2, width):
                    m = list(base)
                    txt = [0x41 + (j % 26) for j in range(width - pad)] + [0x20] * pad
                    m[start:start + width] = txt
                    cs.append({"seq": "read", "value": name, "unit": memseq.unit(kind, label, m)})
            # a hole at every position of the value
            for pos in (range(start, end + 1) if width <= 8 or tier == "thorough" else
                        sorted({start, end, rng.randrange(start, end + 1)})):
                m = list(base)
                m[pos] = -1
                cs.append({"seq": "read", "value": name, "unit": memseq.unit(kind, label, m)})
            # silence / framing error injected at each read position
            for at in (range(1, width + 1) if width <= 8 or tier == "thorough" else sorted({1, width, rng.randrange(1, width + 1)})):
                for fk in ("silent", "err", "errsame"):
                    cs.append({"seq": "read", "value": name, "unit": memseq.unit(kind, label, list(base), fault=[at, fk])})
    # whole-bank reads
    for label in memseq.SPECMAP:
        latchable = core.spec_tables()["bankprops"][label]["latch"]
        n = 12 if tier == "quick" else 150
        for k in range(n):
            style = styles[k % len(styles)] if k % 3 else "rand"
            kind = "gear" if k % 2 else "device"
            base = memseq.default_image(label, rng, style)
            r = rng.random()
            if r < 0.35:
                base[0] = rng.randrange(2, 255) if rng.random() < 0.7 else rng.choice([2, 3, 4, 254])
                for l in range(3, base[0] + 1):
                    if base[l] < 0 and rng.random() < 0.7:
                        base[l] = rng.getrandbits(8)
            if r > 0.5:
                for _ in range(rng.randrange(0, 4)):
                    base[rng.randrange(3, max(4, base[0] + 1))] = -1
            latch = 1 if k % 4 else 0
            case = {"seq": "read_all", "latch": latch, "unit": memseq.unit(kind, label, base, dtr0=rng.randrange(256),
                                                                           dtr1=rng.randrange(256))}
            if latchable and latch:
                # the environment changes measurement locations while the bank is being read
                ticks = {}
                ramlocs = [row[2] + j for row in memseq.SPECMAP[label] for j in range(row[3])
                           if (row[4] if len(row[4]) == 1 else row[4][j]) in "rn" and base[row[2] + j] >= 0]
                if ramlocs:
                    for _ in range(rng.randrange(1, 4)):
                        ch = {rng.choice(ramlocs): rng.getrandbits(8) for _ in range(rng.randrange(1, 4))}
                        ticks[str(rng.randrange(5, 5 + max(2, base[0])))] = [[l, v] for l, v in sorted(ch.items())]
                case["ticks"] = ticks
            if k % 5 == 0 and base[0] >= 4:
                case["unit"]["fault"] = [rng.randrange(2, base[0]), rng.choice(["silent", "err", "errsame"])]
            cs.append(case)
    # a bank object of the user's own whose values are declared in two instalments, with a whole-bank read in between
    for label in memseq.SPECMAP:
        nvals = len(memseq.bank_obj(label).values)
        for k in range(3 if tier == "quick" else 12):
            base = memseq.default_image(label, rng, "rand")
            cs.append({"seq": "read_all", "latch": k % 2, "late": rng.randrange(0, nvals + 1) if k else 0,
                       "unit": memseq.unit("gear" if k % 2 else "device", label, base)})
    # two whole-bank reads of the SAME bank (two units on two buses) running interleaved, and a whole-bank read interleaved
    # with single-value reads of that bank: the bank and value objects are shared by all units of a process
    for label in sorted({lb for (lb, _) in memseq.VALUES}):
        for k in range(2 if tier == "quick" else 12):
            a = memseq.default_image(label, rng, "rand")
            b = memseq.default_image(label, rng, "walk" if k % 2 else "rand")
            names = [n for (lb, n) in memseq.VALUES if lb == label]
            pair = [{"seq": "read_all", "latch": k % 2, "unit": memseq.unit("gear", label, a)},
                    {"seq": "read_all", "latch": 1, "unit": memseq.unit("device" if k % 2 else "gear", label, b)}]
            cs.append({"pair": pair})
            if names:
                cs.append({"pair": [{"seq": "read_all", "latch": 1, "unit": memseq.unit("gear", label, list(a))},
                                    {"seq": "read", "value": rng.choice(names), "unit": memseq.unit("gear", label, list(b))}]})
    return cs


def run(tier, seed, replay=None):
    memseq.init()
    out, rej = memseq.judge("C09", tier, seed, replay, cases,
                            "one trace per (sequence, value/bank, memory image, last accessible location, hole, fault, "
                            "addressing kind, latch on/off, environment ticks); non-trivial = distinct cases with >= 2 commands",
                            model_ops=("read", "readall"))
    out.assumptions = ["silence on an implemented location is indistinguishable from an unimplemented one (treated alike)",
                       "header locations 0..2 (0..1 in bank 0) are set aside for read_all, as the property says",
                       "read_all with latching: the snapshot is the memory when the first data location is read; the "
                       "environment only changes RAM/NVM-RO locations after that"]
    out.classify(rej, None)
    return out.finish()
