"""C19 -- serial receivers deframe any byte stream like the protocol's grammar.

Spec:    spec/SerialRx.tla (reference byte-at-a-time deframers for LUBA and SCI), SerialRxModel.tla (resync after
         noise / bad checksum / unfitting length, exhaustive over noise prefixes), RxJudge.tla
Binding: grammar-guided and random byte streams are fed to fresh real protocol objects under several chunkings;
         the contents of the four queues are compared by TLC with what the reference deframer extracts.
"""
import random
from functools import reduce
from operator import xor

from . import core

core.ensure_repo_on_path()


def luba_frame(cmd, payload, good=True):
    body = [cmd, len(payload)] + list(payload)
    chk = reduce(xor, body)
    if not good:
        chk ^= 0x5A
    return [0x59] + body + [chk]


def luba_stream(rng):
    out = []
    n = rng.randrange(1, 9)
    for _ in range(n):
        r = rng.random()
        if r < 0.30:      # observed / answer / confirmation events (well formed for their type)
            kind = rng.random()
            tick = [rng.getrandbits(8), rng.getrandbits(8), 0]
            if kind < 0.35:
                nb = rng.choice([2, 3, 2, 3, 4, 16])
                p = tick + [0x80 | rng.choice([8 * nb if 8 * nb <= 32 else 32, 16, 24, 1, 32])] + [rng.getrandbits(8) for _ in range(nb)]
            elif kind < 0.6:
                p = tick + [0x80 | 8, rng.getrandbits(8)]
            elif kind < 0.7:
                p = tick + [0x80 | rng.choice([62, 63, 0, 33, 40]), rng.getrandbits(8)]
            elif kind < 0.9:
                nb = rng.choice([2, 3, 2, 3, 0, 1])
                p = tick + [rng.randrange(64), rng.getrandbits(8)] + [rng.getrandbits(8) for _ in range(nb)]
            else:
                p = tick + [rng.choice([0x40, 0xC0]) | rng.randrange(64)] + [rng.getrandbits(8) for _ in range(rng.randrange(0, 4))]
            out += luba_frame(0x31, p[:20], good=rng.random() > 0.15)
        elif r < 0.38:
            out += luba_frame(0x33, [rng.getrandbits(8) for _ in range(rng.choice([1, 2]))], good=rng.random() > 0.2)
        elif r < 0.44:
            out += luba_frame(0x21, [rng.getrandbits(8) for _ in range(20)], good=rng.random() > 0.2)
        elif r < 0.50:
            out += luba_frame(0x2B, [rng.getrandbits(8) for _ in range(rng.choice([2, 3, 3]))], good=rng.random() > 0.2)
        elif r < 0.58:   # known but unhandled / unknown types, any payload length
            out += luba_frame(rng.choice([0x2A, 0x2C, 0x2D, 0x20, 0x32, 0x34, 0x35, 0x36, 0x37, 0x00, 0x30, 0x38, 0xFF, 0x59]),
                              [rng.getrandbits(8) for _ in range(rng.randrange(1, 21))])
        elif r < 0.72:   # every value in the length position
            ln = rng.randrange(256)
            out += [0x59, rng.choice([0x31, 0x33, 0x21, 0x00]), ln]
            if 1 <= ln <= 20 and rng.random() < 0.5:
                out += [rng.getrandbits(8) for _ in range(rng.randrange(0, ln + 2))]
        elif r < 0.84:   # noise
            out += [rng.choice([rng.getrandbits(8), 0x59, 0x31, 0x00]) for _ in range(rng.randrange(1, 12))]
        else:            # truncated frame
            f = luba_frame(0x31, [0, 0, 0, 0x80 | 16, rng.getrandbits(8), rng.getrandbits(8)])
            out += f[:rng.randrange(1, len(f))]
    # a trailing well-formed frame must still be delivered (as far as the grammar says so)
    out += luba_frame(0x31, [0, 0, 0, 0x80 | 8, rng.getrandbits(8)])
    return out


def sci_block(status, d, good=True):
    b = [status] + list(d)
    chk = reduce(xor, b)
    if not good:
        chk ^= 0xA5
    return b + [chk]


def sci_stream(rng):
    out = []
    for _ in range(rng.randrange(1, 14)):
        r = rng.random()
        if r < 0.7:
            code = rng.choice([0, 1, 2, 3, 8, 7, 7, 3, 8, 2, 4, 5, 6, 9, 12, 15])
            d = [rng.getrandbits(8) for _ in range(3)]
            if code == 7 and rng.random() < 0.7:
                d[2] = rng.randrange(1, 6)
            out += sci_block((rng.randrange(16) << 4) | code, d, good=rng.random() > 0.15)
        elif r < 0.9:
            out += [rng.getrandbits(8) for _ in range(5)]
        else:
            out += [rng.getrandbits(8) for _ in range(rng.randrange(1, 5))]       # misaligns what follows
    out += sci_block(0x02, [0, 0, rng.getrandbits(8)])
    return out


def chunkings(rng, n):
    yield [n]                                   # whole
    yield [1] * n                               # byte by byte
    k = rng.randrange(1, max(2, n))
    yield [k, n - k]
    for _ in range(2):
        sizes, left = [], n
        while left:
            s = min(left, rng.randrange(1, 9))
            sizes.append(s)
            left -= s
        yield sizes


def _frame_bytes(cmd):
    try:
        return list(cmd.frame.as_byte_sequence)
    except Exception:
        return [-1]


def feed(job):
    """job = (proto, data, chunks) -> one record; or ("pair", jobA, jobB): two receiver objects of the same process fed
    alternately, chunk by chunk (two serial ports) -> list of two records, each judged on its own stream"""
    if job[0] == "pair":
        from dali.driver import serial as ds
        subs = []
        for proto, data, chunks in job[1:]:
            p = ds.DriverLubaRs232.LubaProtocol() if proto == "luba" else ds.DriverSCIRS232.SCIRS232Protocol()
            subs.append({"proto": proto, "data": data, "chunks": list(chunks), "p": p, "child": ds.DistributorQueue(p.queue_rx_dali),
                         "pos": 0, "ci": 0, "exc": []})
        while any(s_["ci"] < len(s_["chunks"]) for s_ in subs):
            for s_ in subs:
                if s_["ci"] < len(s_["chunks"]):
                    size = s_["chunks"][s_["ci"]]
                    s_["ci"] += 1
                    try:
                        s_["p"].data_received(bytes(s_["data"][s_["pos"]:s_["pos"] + size]))
                    except Exception as e:  # noqa: recorded
                        s_["exc"].append([s_["ci"], type(e).__name__])
                    s_["pos"] += size
        return [_collect(s_["proto"], s_["data"], s_["chunks"], s_["p"], s_["child"], s_["exc"]) for s_ in subs]
    proto, data, chunks = job
    from dali.driver import serial as ds
    if proto == "luba":
        p = ds.DriverLubaRs232.LubaProtocol()
    else:
        p = ds.DriverSCIRS232.SCIRS232Protocol()
    child = ds.DistributorQueue(p.queue_rx_dali)
    exc = []
    pos = 0
    pre = []
    preraw = []
    # the reads arrive with pauses between them (a busy event loop, a stalling USB adapter): the clocks a receiver could
    # look at jump by anything between nothing and a minute from one read to the next
    import time as _t
    saved = (_t.monotonic, _t.time, _t.perf_counter)
    clock = [1000.0]
    _t.monotonic = _t.time = _t.perf_counter = lambda: clock[0]
    try:
        for ci, size in enumerate(chunks, 1):
            clock[0] += (0.0, 0.001, 0.7, 0.0, 3.0, 0.02, 61.0)[(ci * 5 + len(data)) % 7]
            try:
                p.data_received(bytes(data[pos:pos + size]))
            except Exception as e:  # noqa: recorded
                exc.append([ci, type(e).__name__])
            pos += size
            # a send() starting between two reads (LUBA): the driver takes what has been answered so far and flushes the
            # answer queue -- which is all it may touch; the frame that is half way in stays
            if proto == "luba" and len(data) % 3 == 0 and ci < len(chunks):
                while not p._queue_rx_raw_dali.empty():
                    x = p._queue_rx_raw_dali.get_nowait()
                    preraw.append(x if isinstance(x, int) else -1)
                try:
                    p.reset_dali_response()
                except Exception as e:  # noqa: recorded
                    exc.append([ci, "reset:" + type(e).__name__])
            # the subscriber takes what has been delivered so far -- and it owns it: in every second stream it scribbles
            # on the command objects' frames, which must not reach anything delivered later
            while not child.empty():
                c = child.get_nowait()
                fb = _frame_bytes(c)
                pre.append([8 * len(fb), fb])
                if len(data) % 2:
                    try:
                        f = c.frame
                        for k in range(len(f)):
                            f[k] = 1 - f[k]
                    except Exception:
                        pass
    finally:
        _t.monotonic, _t.time, _t.perf_counter = saved
    return _collect(proto, data, chunks, p, child, exc, pre, preraw)


def _collect(proto, data, chunks, p, child, exc, pre=(), preraw=()):
    from dali.driver import serial as ds
    got = {"raw": list(preraw), "conf": [], "info": [], "cmd": [list(x) for x in pre]}

    def drain(q):
        items = []
        while not q.empty():
            items.append(q.get_nowait())
        return items

    for x in drain(p._queue_rx_raw_dali):
        got["raw"].append(x if isinstance(x, int) else -1)
    for c in drain(child):
        fb = _frame_bytes(c)
        got["cmd"].append([8 * len(fb), fb])
    if proto == "luba":
        for c in drain(p._queue_tx_conf):
            got["conf"].append([c.tx_id, _frame_bytes(c.message) if c.message is not None else [-1]])
        for it in drain(p._queue_rx_luba_cmd):
            if isinstance(it, ds.DriverLubaRs232.LubaDeviceInfo):
                got["info"].append(["devinfo", list(it.gtin.to_bytes(6, "big")), list(it.id.to_bytes(8, "big")),
                                    it.pcb_ver, it.assembly_ver, list(it.article_num.to_bytes(4, "big"))])
            elif isinstance(it, ds.DriverLubaRs232.LubaDeviceSettings):
                got["info"].append(["settings", it.mode, it.event_filter])
            else:
                got["info"].append(["other", 0, 0])
    else:
        for it in drain(p._queue_rx_info):
            got["info"].append(["status", it.id, it.code])
    return {"proto": proto, "bytes": list(data), "chunks": list(chunks), "got": got, "exc": exc}


def jobs_for(tier, seed):
    rng = random.Random(seed)
    n = 500 if tier == "quick" else 12000
    jobs = []
    for k in range(n):
        proto = "luba" if k % 3 else "sci"
        data = luba_stream(rng) if proto == "luba" else sci_stream(rng)
        if k % 7 == 0:
            data = [rng.getrandbits(8) for _ in range(rng.randrange(1, 120))] + data[-8:]     # pure random + trailer
        for ch in chunkings(rng, len(data)):
            jobs.append((proto, data, ch))
    # two receivers of one process (two serial ports) fed alternately in small chunks: each must deliver its own stream
    for k in range(40 if tier == "quick" else 600):
        proto = "luba" if k % 3 else "sci"
        da = luba_stream(rng) if proto == "luba" else sci_stream(rng)
        db = luba_stream(rng) if proto == "luba" else sci_stream(rng)
        ca = [min(3, len(da) - i) for i in range(0, len(da), 3)]
        cb = [min(2, len(db) - i) for i in range(0, len(db), 2)]
        jobs.append(("pair", (proto, da, ca), (proto, db, cb)))
    # long homogeneous runs (several hundred bytes): many items of one kind arrive before anybody fetches them
    for count in (33, 40, 70):
        for kind in ("back", "conf", "cmd"):
            lub, sci = [], []
            for j in range(count):
                v = (7 * j + count) % 256
                if kind == "back":
                    lub += luba_frame(0x31, [0, 0, 0, 0x80 | 8, v])
                    sci += sci_block(0x12, [0, 0, v])
                elif kind == "conf":
                    lub += luba_frame(0x31, [0, 0, 0, 16, j % 256, 0xA0, v])
                    sci += sci_block(0x10, [0, 0, 0])
                else:
                    lub += luba_frame(0x31, [0, 0, 0, 0x80 | 16, 0xA0 + 2 * (j % 8), v])
                    sci += sci_block(0x13, [0, 0xA0 + 2 * (j % 8), v])
            tail_l, tail_s = luba_frame(0x31, [0, 0, 0, 0x80 | 8, 0x42]), sci_block(0x12, [0, 0, 0x42])
            for proto, data in (("luba", lub + tail_l), ("sci", sci + tail_s)):
                jobs.append((proto, data, [len(data)]))
                jobs.append((proto, data, [1] * len(data)))
                jobs.append((proto, data, [7] * (len(data) // 7) + ([len(data) % 7] if len(data) % 7 else [])))
    # systematic single-position damage of well-formed multi-frame streams: every byte replaced by each of a set of
    # telling values, deleted, or preceded by an inserted start byte
    bases = {
        "luba": [luba_frame(0x31, [0, 0, 0, 0x80 | 8, 0x11]) + luba_frame(0x31, [0, 0, 0, 16, 7, 0xA0, 0x05]) + luba_frame(0x31, [0, 0, 0, 0x80 | 8, 0x22]),
                 luba_frame(0x33, [9, 0]) + luba_frame(0x31, [0, 0, 0, 0x80 | 16, 0xFF, 0x90]) + luba_frame(0x31, [0, 0, 0, 0x80 | 8, 0x59])],
        "sci": [sci_block(0x12, [0, 0, 0x11]) + sci_block(0x10, [0, 0, 0]) + sci_block(0x13, [0, 0xA1, 0x05]) + sci_block(0x12, [0, 0, 0x22]),
                sci_block(0x18, [0xC1, 0x06, 0x30]) + sci_block(0x12, [0, 0, 0x59])],
    }
    for proto, streams in bases.items():
        for base in streams:
            variants = []
            for pos in range(len(base)):
                o = base[pos]
                for v in sorted({0x59, 0x00, 0x01, 0x31, 0x33, 0x12, 0xFF, o ^ 1, (o + 1) % 256, o ^ 0x80} - {o}):
                    variants.append(base[:pos] + [v] + base[pos + 1:])
                variants.append(base[:pos] + base[pos + 1:])
                variants.append(base[:pos] + [0x59] + base[pos:])
            tail = luba_frame(0x31, [0, 0, 0, 0x80 | 8, 0x42]) * 2 if proto == "luba" else sci_block(0x12, [0, 0, 0x42]) * 2
            for vdata in variants:
                data = vdata + tail
                jobs.append((proto, data, [len(data)]))
                jobs.append((proto, data, [1] * len(data)))
    # every length byte at the length position, followed by a well-formed frame
    for ln in range(256):
        data = [0x59, 0x31, ln] + luba_frame(0x31, [0, 0, 0, 0x80 | 8, 0x42]) * 3
        jobs.append(("luba", data, [len(data)]))
        jobs.append(("luba", data, [1] * len(data)))
    return jobs


def run(tier, seed, replay=None):
    out = core.Outcome("C19", tier, seed)
    out.is_replay = replay is not None
    with core.Scratch("c19") as sc:
        if replay is None:
            r = core.spec_check("SerialRxModel", "SerialRxModel.cfg", sc, workers=8)
            out.add_spec_run(r, "SerialRxModel")
            jobs = jobs_for(tier, seed)
        else:
            c = replay["case"]
            jobs = [(c["proto"], c["bytes"], c["chunks"])]
        res = core.pmap(feed, jobs, chunksize=64)
        recs = []
        for r_ in res:
            recs += r_ if isinstance(r_, list) else [r_]
        for ix, rec in enumerate(recs, 1):
            rec["id"] = ix
        paths, counts = core.shard_records(recs, sc, "c19", nshards=core.NCPU if len(recs) > 32 else 1)
        rejects, notes, states, trans, wall = core.judge_shards("RxJudge", "RxJudge.cfg", paths, sc, expect_counts=counts)
        out.states += states
        out.transitions += trans
        out.traces = len(recs)
        out.evaluations = sum(len(r_["bytes"]) for r_ in recs)
        naside = len(notes)
        out.distinct_nontrivial = len({(r_["proto"], tuple(r_["bytes"])) for r_ in recs}) - naside // 5
        out.rule = ("one trace per (protocol, byte stream, chunking); streams are grammar-guided (valid frames of every type, "
                    "corrupt checksums, truncated frames, noise, every value in the length position) or random, each ending "
                    "in a well-formed frame; 5 chunkings per stream; non-trivial = distinct streams not set aside")
        out.extra["set_aside_malformed_for_type"] = naside
        byid = {r_["id"]: r_ for r_ in recs}
        out.samples = [recs[7]]
        out.assumptions = ["a checksum-valid frame that is malformed for its type (event shorter than its fixed fields, TX "
                           "response of length not 1/2, device info not 20 bytes, settings < 2 bytes) sets the stream aside",
                           "transmit confirmations are compared by id; the frame is compared when the receiver attached one"]
        rej = []
        for rj in rejects:
            rec = byid.get(rj[1], {})
            rej.append(({k: rec.get(k) for k in ("proto", "bytes", "chunks")}, {"clause": rj[2], "at": rj[3]}))
        out.classify(rej, None)
    return out.finish()
