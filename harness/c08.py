"""C08 -- gear query/set sequences report and establish exactly the gear's state.

Spec:    spec/Gear102.tla (device-type iteration, groups), QueryClauses.tla (what an answer stream must lead to),
         SeqQueries.tla (PlusCal transcription of the three generators, exhaustive for small units and all
         adversarial streams up to length L), CommJudge.tla (trace judge)
Binding: the real generators run against the unit simulator (conforming units) or a scripted adversary;
         TLC re-executes conforming traces on Gear102 and evaluates the clauses.
"""
import itertools
import random

from . import core
from .unitsim import Gear, GearBus, drive

core.ensure_repo_on_path()


def _cfg(gear):
    return {"shorts": [g.short for g in gear], "storeOK": [True] * len(gear), "permitted": [], "readdress": False,
            "dryrun": False, "rands": [0] * len(gear), "groups": [sorted(g.groups) for g in gear],
            "dts": [list(g.dts) for g in gear], "dtr0": 0, "inits": ["DISABLED"] * len(gear)}


def _answerer(bus):
    def answer(cmd):
        f = cmd.frame.as_integer
        resp = bus.step(f, [])
        return resp, {"f": f, "resp": list(resp), "draws": [], "shorts": bus.shorts()}
    return answer


def _dest(kind, n):
    from dali import address
    return {"short": lambda: address.GearShort(n), "int": lambda: n, "group": lambda: address.GearGroup(n),
            "bcast": address.GearBroadcast, "unaddr": address.GearBroadcastUnaddressed}[kind]()


def run_case(case):
    if case["kind"] == "pair":
        # two sequences for two buses taking turns command by command; each is judged on its own
        from .unitsim import drive_interleaved
        parts = [_prepare(c) for c in case["pair"]]
        res = drive_interleaved([(mk, ans) for mk, ans, _ in parts], 300, case.get("burst", 1))
        return [fin(ev, out, case) for (_, _, fin), (ev, out) in zip(parts, res)]
    if case["kind"] in ("qdt", "qg", "sg"):
        mk, ans, fin = _prepare(case)
        try:
            ev, out = drive(mk(), ans, 300)
        except Exception as e:  # noqa: refusal when the sequence is created
            ev, out = [], {"exc": type(e).__name__, "ret": None}
        return fin(ev, out, case)
    return _run_adv(case)


def _prepare(case):
    from dali import sequences
    kind = case["kind"]
    if kind == "qdt":
        gear = [Gear(short=case["short"], dts=case["dts"]), Gear(short=(case["short"] + 1) % 64, dts=[2])]
        cfg = _cfg(gear)
        bus = GearBus(gear)
        return (lambda: sequences.QueryDeviceTypes(_dest(case["dk"], case["short"]))), _answerer(bus), (
            lambda ev, out, top: {"seq": "QueryDeviceTypes", "cfg": cfg, "adv": 0, "ev": ev,
                                  "out": {"exc": out["exc"], "ret": out["ret"] if isinstance(out["ret"], list) else [-1]},
                                  "case": top})
    if kind == "qg":
        gear = [Gear(short=case["short"], groups=case["groups"])]
        cfg = _cfg(gear)
        bus = GearBus(gear)
        return (lambda: sequences.QueryGroups(_dest(case["dk"], case["short"]))), _answerer(bus), (
            lambda ev, out, top: {"seq": "QueryGroups", "cfg": cfg, "ev": ev,
                                  "out": {"exc": out["exc"],
                                          "ret": sorted(out["ret"]) if isinstance(out["ret"], (set, frozenset)) else [-1]},
                                  "case": top})
    if kind == "sg":
        # unit 1 is the addressed unit (short 5); unit 2 a bystander that may share a group / be unaddressed
        gear = [Gear(short=case.get("s1", 5), groups=case["cur"]), Gear(short=case["s2"], groups=case["cur2"])]
        cfg = _cfg(gear)
        bus = GearBus(gear)
        dk, dn = case["dest"]
        dest = _dest(dk, dn)
        target = [1 if bus._addressed(g, {"short": ("gshort", dn), "int": ("gshort", dn), "group": ("ggroup", dn),
                                          "bcast": ("gbcast", 0), "unaddr": ("gunaddr", 0)}[dk]) else 0 for g in gear]
        def request():
            # the request as a set, or as one of the other set types Python programs hand around
            w = set(case["want"])
            return {"frozenset": frozenset(w), "keys": dict.fromkeys(sorted(w)).keys()}.get(case.get("wk"), w)
        return (lambda: sequences.SetGroups(dest, request())), _answerer(bus), (
            lambda ev, out, top: {"seq": "SetGroups", "cfg": cfg, "ev": ev, "out": {"exc": out["exc"]},
                                  "want": sorted(case["want"]), "target": target,
                                  "readable": 1 if dk in ("short", "int") else 0, "case": top})
    raise AssertionError(kind)


def _run_adv(case):
    from dali import sequences
    kind = case["kind"]
    if kind in ("qdtadv", "qgadv"):
        stream = case["ans"]
        pos = {"k": 0}

        def answer(cmd):
            k = pos["k"]
            pos["k"] += 1
            a = stream[k] if k < len(stream) else stream[-1]
            return tuple(a), {"f": cmd.frame.as_integer, "resp": list(a)}
        gen = sequences.QueryDeviceTypes(_dest("short", 3)) if kind == "qdtadv" else sequences.QueryGroups(_dest("short", 3))
        ev, out = drive(gen, answer, 300)
        ret = out["ret"]
        if isinstance(ret, (set, frozenset)):
            ret = sorted(ret)
        if not isinstance(ret, list):
            ret = [-1]
        return {"seq": "QDTAdv" if kind == "qdtadv" else "QGAdv", "ans": [list(a) for a in stream], "n": len(ev),
                "out": {"exc": out["exc"], "ret": ret}, "case": case}
    raise AssertionError(kind)


def cases(tier, seed):
    rng = random.Random(seed)
    cs = []
    uni = [0, 1, 2, 6, 7, 8, 100, 252, 253]
    for n in range(0, 4):
        for combo in itertools.combinations(uni, n):
            cs.append({"kind": "qdt", "dts": list(combo), "short": rng.randrange(64), "dk": rng.choice(["short", "int"])})
    for _ in range(400 if tier == "quick" else 5000):
        n = rng.randrange(0, 9)
        cs.append({"kind": "qdt", "dts": sorted(rng.sample(range(254), n)), "short": rng.randrange(64),
                   "dk": rng.choice(["short", "int"])})
    gsets = range(65536) if tier == "thorough" else \
        sorted(set(range(256)) | {x << 8 for x in range(256)} | {rng.getrandbits(16) for _ in range(2000)} | {0xFFFF})
    for g in gsets:
        cs.append({"kind": "qg", "groups": [i for i in range(16) if g >> i & 1], "short": g % 64,
                   "dk": "short" if g % 3 else "int"})
    # SetGroups: structured 2^8 x 2^8 subset (thorough) / sampled (quick) + random pairs x destination kinds
    def bits(x):
        return [i for i in range(16) if x >> i & 1]
    spread = lambda b: sum(((b >> i) & 1) << (2 * i) for i in range(8))       # 8 bits spread over 16 groups
    pairs = []
    if tier == "thorough":
        pairs = [(spread(a) | (a & 1) << 15, spread(b) << 1 | (b & 1)) for a in range(256) for b in range(256)]
    else:
        pairs = [(spread(a), spread(b) << 1 | (b & 1)) for a in range(0, 256, 5) for b in range(0, 256, 7)]
    pairs += [(rng.getrandbits(16), rng.getrandbits(16)) for _ in range(2000 if tier == "quick" else 40000)]
    dests = [("short", 5), ("int", 5), ("bcast", 0), ("unaddr", 0)] + [("group", g) for g in (0, 3, 15)]
    for ix, (cur, want) in enumerate(pairs):
        dk, dn = dests[ix % len(dests)]
        curb = bits(cur)
        if dk == "group" and dn not in curb:
            curb = sorted(set(curb) | {dn})          # the unit must be reachable through the group
        s2 = rng.choice([6, 255])
        cur2 = bits(rng.getrandbits(16))
        c = {"kind": "sg", "cur": curb, "want": bits(want), "dest": [dk, dn], "s2": s2, "cur2": cur2}
        if dk == "unaddr":
            # gear without a short address: none, one or both of the two units
            c["s1"] = rng.choice([5, 255, 255])
        if ix % 5 == 3:
            c["wk"] = "frozenset" if ix % 2 else "keys"
        cs.append(c)
    # the two extreme requests -- all sixteen groups, none -- from / to the extreme memberships, for every kind of destination
    for dk, dn in dests:
        for cur in ([], list(range(16)), [dn] if dk == "group" else [3]):
            for want in (list(range(16)), [], list(range(15)), list(range(1, 16))):
                curb = sorted(set(cur) | ({dn} if dk == "group" else set()))
                c = {"kind": "sg", "cur": curb, "want": want, "dest": [dk, dn], "s2": 6, "cur2": []}
                if dk == "unaddr":
                    c["s1"] = 255
                cs.append(c)
    # two sequences (two buses, one process) running interleaved: neither sees anything of the other
    sgs = [c for c in cs if c["kind"] == "sg"]
    grp = [c for c in sgs if c["dest"][0] in ("group", "bcast", "unaddr")]
    others = [c for c in cs if c["kind"] in ("qdt", "qg")]
    for k in range(300 if tier == "quick" else 6000):
        a = rng.choice(grp if k % 2 else sgs)
        b = rng.choice(grp if k % 3 else sgs + others[:200])
        cs.append({"kind": "pair", "pair": [a, b], "burst": 1 + (k % 5 == 0) + 3 * (k % 7 == 0)})
    # adversarial streams
    # a framing error carries whatever data bits the gateway made out: also the values that mean something (254, 255, a type)
    a1 = [["none", 0], ["err", 255], ["err", 254], ["val", 0], ["val", 1], ["val", 6], ["val", 254], ["val", 255]]
    an = [["none", 0], ["err", 255], ["err", 254], ["err", 6], ["val", 0], ["val", 1], ["val", 6], ["val", 253], ["val", 254]]
    maxlen = 4 if tier == "quick" else 6
    for ln in range(1, maxlen + 1):
        for first in a1:
            for rest in itertools.product(an, repeat=ln - 1):
                cs.append({"kind": "qdtadv", "ans": [first] + list(rest)})
    # long ascending / never-ending streams
    cs.append({"kind": "qdtadv", "ans": [["val", 255]] + [["val", v] for v in range(254)] + [["val", 253]]})
    cs.append({"kind": "qdtadv", "ans": [["val", 255]] + [["val", v] for v in range(254)] + [["val", 254]]})
    cs.append({"kind": "qdtadv", "ans": [["val", 255]] + [["val", 6]]})
    cs.append({"kind": "qdtadv", "ans": [["val", 255], ["val", 0], ["val", 6], ["val", 254]]})
    g3 = [["none", 0], ["err", 255], ["val", 0], ["val", 0x81], ["val", 255]]
    for x in g3:
        for y in g3:
            cs.append({"kind": "qgadv", "ans": [x, y]})
    return cs


def run(tier, seed, replay=None):
    out = core.Outcome("C08", tier, seed)
    out.is_replay = replay is not None
    with core.Scratch("c08") as sc:
        if replay is None:
            r = core.spec_check("SeqQueries", "SeqQueries.cfg" if tier == "quick" else "SeqQueries_full.cfg", sc, timeout=3000)
            out.add_spec_run(r, "SeqQueries exhaustive")
            cs = cases(tier, seed)
        else:
            cs = [replay["case"]["case"]]
        recs = []
        for r_ in core.pmap(run_case, cs, chunksize=256):
            recs.extend(r_ if isinstance(r_, list) else [r_])
        for ix, rec in enumerate(recs, 1):
            rec["id"] = ix
        slim = [{k: v for k, v in rec.items() if k != "case"} for rec in recs]
        paths, counts = core.shard_records(slim, sc, "c08", nshards=core.NCPU if len(slim) > 64 else 1)
        rejects, notes, states, trans, wall = core.judge_shards("CommJudge", "CommJudge.cfg", paths, sc,
                                                                expect_counts=counts)
        out.states += states
        out.transitions += trans
        out.traces = len(recs)
        out.evaluations = sum(len(r_.get("ev", [])) or r_.get("n", 0) for r_ in recs)
        out.distinct_nontrivial = len({repr(r_["case"]) for r_ in recs if len(r_.get("ev", [])) + r_.get("n", 0) >= 2})
        out.rule = ("one trace per case: device-type lists (all subsets of size <= 3 of a 9-type universe + random lists "
                    "up to length 8), group sets (%s), SetGroups (current, requested, destination kind) pairs, every "
                    "adversarial stream of length <= %d over the alphabet (repeating its last answer for ever); "
                    "non-trivial = distinct cases with >= 2 commands" % ("all 2^16" if tier == "thorough" else "structured + random", 4 if tier == "quick" else 6))
        out.extra["cases_by_kind"] = {k: sum(1 for c in cs if c["kind"] == k) for k in ("qdt", "qg", "sg", "qdtadv", "qgadv")}
        byid = {r_["id"]: r_ for r_ in recs}
        out.samples = [{k: v for k, v in recs[len(recs) // 2].items() if k != "cfg"}, recs[-30]["case"]]
        out.assumptions = ["value 255 inside a QUERY NEXT DEVICE TYPE iteration and an iteration with no types are left "
                           "open by the statement: either outcome accepted",
                           "SetGroups through a group address: the unit is a member of that group beforehand"]
        env = [rj for rj in rejects if str(rj[2]).startswith("env-")]
        if env:
            raise core.MachineryError("unit simulator disagrees with Gear102: %r" % env[:3])
        rej = [({"case": byid.get(rj[1], {}).get("case")}, {"clause": rj[2], "at": rj[3]}) for rj in rejects]
        if replay is None:
            # extension: arc-power levels, limits and scenes (GearLevels.tla) bound to the repository's stand-in gear
            from . import gearlevels
            devs = gearlevels.model_runs(out, sc)
            block = gearlevels.conformance(out, sc)
            block["named_deviations"] = devs
            out.extra["gear_levels_conformance"] = block
        out.classify(rej, None)
    return out.finish()
